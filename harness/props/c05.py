"""C05 - ignore_order: the result is empty exactly when t1 and t2 are equal as
nested sets (default) / nested multisets (report_repetition=True), whatever the
pairing knobs are.

proof:           coq/theories/DiffIO/{DiffIOModel,DiffIOProofs*}.v, Properties/C05.v
correspondence:  the real DeepDiff(ignore_order=True, view='tree') against
                 `run_diff_io` evaluated inside Coq: the complete tree-view result
                 (kinds, both paths, both values, repetition records)
                 (a) with pairing switched off (max_passes=0 or
                     cutoff_intersection_for_pairs=0): the model is deterministic;
                 (b) with pairing on: the pairs the implementation really used are
                     RECORDED per level (monkeypatch of
                     _get_most_in_common_pairs_in_iterables/_diff_iterable_with_deephash
                     in this process; /repo is not modified), fed to the model as
                     its oracle and checked for validity (`valid_pairs_at`).
direct oracle:   an independent nested-set / nested-multiset canonical form;
                 (DeepDiff(...) == {}) == (canon(t1) == canon(t2)) for EVERY knob
                 combination of the quantifier, and the verdict is the same for
                 all of them.

This module also hosts helpers shared with c17.py.
"""
import base64
import copy
import itertools
import pickle
import logging
import multiprocessing as mp
import random
import sys
import threading

from harness import core, values as V, diffcommon as D

logging.disable(logging.CRITICAL)

THEOREM_FILE = "Properties/C05.v"
COQCHK = ["Properties.C05"]
RULE = ("(a) pairs (t1, t2) of tree-shaped nests of list/tuple/dict/set/frozenset over None/bool/int/half-integer float/str/bytes, depth <= 3-4; "
        "t2 = t1 rebuilt with list/tuple/dict/set order permuted at every level, then 0-3 edits (duplicate an item, insert a near-duplicate "
        "of an item, delete, move, replace, dict/set edits) at random depths; a case = (t1, t2, knob setting); non-trivial = t1 or t2 "
        "contains a list/tuple with >= 2 items; distinct = distinct (canonical t1, canonical t2, knobs); (b) direct oracle only: t2 built from PIECES OF t1 "
        "BY REFERENCE (an element of t1 wrapped in a new dict/list, sub-lists re-used in another order, t1 itself as an item, an ancestor as a value): "
        "verdict = specification on the values, = verdict for a deep copy, same for all knobs; (c) direct oracle only: t1 in which ONE list/dict/tuple OBJECT "
        "occurs several times inside one element of an order-ignored list ([x,[x,a]], [x,x,a], under dict values, in tuples, the () singleton), t2 a fresh unshared value "
        "(same value shuffled / the unshared copy itself / one occurrence of x less): verdict = specification on the values = verdict for the unshared copy of t1, same for all knobs")
TRUSTED = [
    "the pairing chosen by _get_most_in_common_pairs_in_iterables is an oracle of the model (any list of index pairs; the theorems hold for every oracle); "
    "the harness feeds the recorded pairings and checks them for validity",
    "item hashes: hash_pure in diff_io (the model of the main theorems) and b06's hash_memo on the run-wide table in diff_io_m (DiffIO/DiffIOMemo.v), "
    "both tied to deephash.py by C06/C07's correspondence; inputs with ==-aliasing atoms (1 / 1.0 / True) are compared against diff_io_m, which predicts finding K2; "
    "C05_memo_transparent_partial + C05_traversal_order_irrelevant connect the two models where nothing aliases; with aliasing atoms (no bool == a non-bool) "
    "C05_shared_table_run_partial / C05_verdict_shared_table_partial say what diff_io_m computes (equality modulo == below the first list level), and the direct "
    "oracle checks exactly that relation on the implementation for every aliasing pair inside the guard (cb_canon, written independently of the Coq side)",
    "hypotheses on the hasher H (outputs non-empty and free of , ; : | { }; injective) stand for SHA-256 hexdigest being collision-free: premises of "
    "C05_verdict_partial / C05_knob_independence / C05_different_hash_nonempty, not axioms; satisfiable (unary_hash, proved); C05_equal_gives_empty needs none",
    "max_diffs, custom operators, exclude/include paths, numpy, custom objects, cyclic/shared containers are outside the model",
    "source tie `iopairs` (in addition to, not instead of, the correspondence): the translator harness/translate/iopairs.py with the encoding / oracle / skip "
    "rules of its docstring is trusted for the fragment it translates only (the pairs selection and the decision whether pairs are computed); the rough distance "
    "of two items is an oracle (a table) there, as in the hand model",
]
ASSUMPTIONS = ["tree-shaped inputs: no mutable object occurs at two positions", "no nan/inf/-0.0", "0 <= threshold_to_diff_deeper <= 1"]

# second tie between model and code (DESIGN.md section 4.5; coq/theories/DiffIO/NOTES_srctie_C05.md): the pairing heuristic is
# regenerated from /repo's current diff.py on every run and proved equal to the hand model of the selection (MemoPairs.v); the
# validity of the pairing oracle is then a THEOREM about what the source computes, not only a run-time check of recorded pairings
SOURCE_TIES = [{
    "name": "iopairs", "translator": "iopairs", "gen_module": "DiffIOGen", "equiv": ["DiffIOGenEquiv"],
    "needs": ["DiffIO.DiffIOSelect", "DiffIO.MemoPairsProofs", "Properties.C05"],
    "sources": ["deepdiff/diff.py"],
    "fragment": "diff.py: DeepDiff._get_most_in_common_pairs_in_iterables between the cache lookup and the cache write (double loop over "
                "hashes_added x hashes_removed, loop detection, distance cut, most_in_common_pairs, distances_to_from_hashes, greedy "
                "selection, symmetric closure); DeepDiff._diff_iterable_with_deephash: the get_pairs test (cutoff_intersection_for_pairs) and the "
                "max_passes decision whether that function is called; the rough distance is an oracle",
}]

HEADER = ("From DD Require Import Base.PyStr Base.Value Diff.Tree Diff.DiffModel Diff.DiffShow "
          "Hash.HashModel DiffIO.DiffIOModel DiffIO.DiffIOShow DiffIO.DiffIOMemo DiffIO.DiffIOMemoShow.\nLocal Open Scope Z_scope.")

CUT_DIST = [0.05, 0.3, 1]
CUT_INTER = [0, 0.7, 1]
MAX_PASSES = [0, 1, 2, 10 ** 7]
CACHE = [0, 1, 50, 5000]
THRS = [0, 0.33, 0.9, 1]       # 1: the strict '<' of the deeper-threshold test matters exactly there
REPS = [False, True]
ALL_KNOBS = [dict(cutoff_distance_for_pairs=a, cutoff_intersection_for_pairs=b, max_passes=c, cache_size=d,
                  threshold_to_diff_deeper=e, report_repetition=f)
             for a in CUT_DIST for b in CUT_INTER for c in MAX_PASSES for d in CACHE for e in THRS for f in REPS]

# the same settings in the other legal argument shapes (float where the product has an int and vice versa, numpy-free)
SHAPE_KNOBS = [dict(cutoff_distance_for_pairs=1.0, cutoff_intersection_for_pairs=1.0), dict(cutoff_intersection_for_pairs=0.0),
               dict(threshold_to_diff_deeper=0.0, max_passes=2), dict(max_passes=10 ** 9, cache_size=0, threshold_to_diff_deeper=1.0, report_repetition=True),
               dict(cutoff_distance_for_pairs=0.3, cutoff_intersection_for_pairs=0.7, max_passes=1, cache_size=1, threshold_to_diff_deeper=0.9, report_repetition=True),
               dict(cutoff_distance_for_pairs=1, cutoff_intersection_for_pairs=0, report_repetition=True)]

STRS = V.STR_POOL + ["a\nb", "a\nc", "a\nb\n", "a\r\nb", "a\nb\r\n", "a\n", "\n", "NONE", "int:1", "bool:true", "__p", "list:"]


# ---------------------------------------------------------------------------
# recording the pairings the implementation uses
# ---------------------------------------------------------------------------

_tls = threading.local()


def install_recorder():
    """Wrap (once per process) the two methods so that, while a recording is
    active in this thread, every pairing computed for the ROOT DeepDiff is
    appended as (level, hashes_added, hashes_removed, pairs, tables)."""
    from deepdiff.diff import DeepDiff
    if getattr(DeepDiff, "_verif_pairs_recorder", False):
        return
    orig_iter = DeepDiff._diff_iterable_with_deephash
    orig_pairs = DeepDiff._get_most_in_common_pairs_in_iterables

    def w_iter(self, level, parents_ids, _original_type=None, local_tree=None):
        st = getattr(_tls, "stack", None)
        if st is None or not getattr(self, "is_root", False):
            return orig_iter(self, level, parents_ids, _original_type=_original_type, local_tree=local_tree)
        st.append(level)
        try:
            return orig_iter(self, level, parents_ids, _original_type=_original_type, local_tree=local_tree)
        finally:
            st.pop()

    def w_pairs(self, hashes_added, hashes_removed, t1_hashtable, t2_hashtable, parents_ids, _original_type):
        added = list(hashes_added)
        removed = list(hashes_removed)
        out = orig_pairs(self, hashes_added, hashes_removed, t1_hashtable, t2_hashtable, parents_ids, _original_type)
        rec = getattr(_tls, "rec", None)
        st = getattr(_tls, "stack", None)
        if rec is not None and st and getattr(self, "is_root", False):
            level = st[-1]
            rec.append({"level": level, "added": added, "removed": removed, "pairs": dict(out),
                        "t1_first": {h: t1_hashtable[h].indexes[0] for h in removed if h in t1_hashtable},
                        "t2_first": {h: t2_hashtable[h].indexes[0] for h in added if h in t2_hashtable}})
        return out

    DeepDiff._diff_iterable_with_deephash = w_iter
    DeepDiff._get_most_in_common_pairs_in_iterables = w_pairs
    DeepDiff._verif_pairs_recorder = True


class Recording:
    def __enter__(self):
        install_recorder()
        _tls.rec = []
        _tls.stack = []
        return _tls.rec

    def __exit__(self, *a):
        _tls.rec = None
        _tls.stack = None


def pairs_valid(r):
    """the recorded dict is a symmetric partial injection between added and removed hashes"""
    added, removed, pr = set(r["added"]), set(r["removed"]), r["pairs"]
    for k, v in pr.items():
        if pr.get(v) != k:
            return False
        if k in added:
            if v not in removed:
                return False
        elif k in removed:
            if v not in added:
                return False
        else:
            return False
    return True


def pairs_table(recs):
    """[(canonical t1-side level path, [(j, i)...], t1 items, t2 items)]"""
    out = []
    for r in recs:
        ji = []
        for a in r["added"]:
            if a in r["pairs"]:
                ji.append((r["t2_first"][a], r["t1_first"][r["pairs"][a]]))
        out.append((D.canon_path_from_chain(r["level"]), ji, r["level"].t1, r["level"].t2))
    return out


def coq_pairs_table(tbl):
    return core.coq_list("(%s, %s)" % (D.coq_pathc(p), core.coq_list("(%d%%nat, %d%%nat)" % (j, i) for j, i in ji))
                         for p, ji, _x, _y in tbl)


def coq_valid_arg(tbl):
    def items(seq):
        return core.coq_list(V.to_coq(x) for x in seq)
    return core.coq_list("(%s, %s, %s)" % (items(x), items(y), core.coq_list("(%d%%nat, %d%%nat)" % (j, i) for j, i in ji))
                         for _p, ji, x, y in tbl if ji)


# ---------------------------------------------------------------------------
# running the implementation
# ---------------------------------------------------------------------------

def io_obs(tree):
    reps = []
    for lv in tree.get("repetition_change", []) or []:
        r = lv.additional["repetition"]
        reps.append([D.canon_path_from_chain(lv), list(r["old_indexes"]), list(r["new_indexes"])])
    return [D.tree_obs(tree), core.sx_sorted(reps)]


def run_tree(t1, t2, record=True, **kw):
    """DeepDiff(ignore_order=True, view='tree') on fresh copies.
    Returns (observable | exception, recorded pairings, inputs unmodified)."""
    from deepdiff import DeepDiff
    a, b = copy.deepcopy(t1), copy.deepcopy(t2)
    sa, sb = V.canon(a), V.canon(b)
    with Recording() as rec:
        try:
            r = DeepDiff(a, b, ignore_order=True, view="tree", **kw)
        except Exception as e:  # noqa
            return e, [], (V.canon(a) == sa and V.canon(b) == sb)
        tbl = pairs_table(rec)
        ok = all(pairs_valid(x) for x in rec)
    return io_obs(r), (tbl, ok), (V.canon(a) == sa and V.canon(b) == sb)


def verdict(t1, t2, **kw):
    """True when DeepDiff(..., ignore_order=True) is empty; an exception is returned as such"""
    from deepdiff import DeepDiff
    try:
        return len(DeepDiff(copy.deepcopy(t1), copy.deepcopy(t2), ignore_order=True, **kw)) == 0
    except Exception as e:  # noqa
        return e


# ---------------------------------------------------------------------------
# the independent specification: nested set / nested multiset canonical form
# ---------------------------------------------------------------------------

def _tatom(a):
    return (type(a).__name__, a if not isinstance(a, float) else repr(a))


def _bag(items, rep):
    """a set, or a multiset as the set of (item, multiplicity)"""
    if not rep:
        return frozenset(items)
    cnt = {}
    for x in items:
        cnt[x] = cnt.get(x, 0) + 1
    return frozenset(cnt.items())


def spec_canon(v, rep, ignore_private=True):
    """lists/tuples as sets (rep False) or multisets (rep True) of their items'
    canonical forms; dicts as sets of (key, canon value) without private keys;
    sets as sets; scalars with their type"""
    if isinstance(v, (list, tuple)):
        items = [spec_canon(x, rep, ignore_private) for x in v]
        tag = "L" if isinstance(v, list) else "T"
        return (tag, _bag(items, rep))
    if isinstance(v, dict):
        return ("D", frozenset((_tatom(k), spec_canon(x, rep, ignore_private)) for k, x in v.items()
                               if not (ignore_private and isinstance(k, str) and k.startswith("__"))))
    if isinstance(v, frozenset):
        return ("F", frozenset(_tatom(x) for x in v))
    if isinstance(v, set):
        return ("S", frozenset(_tatom(x) for x in v))
    return _tatom(v)


def alias_blind(v, rep):
    """spec_canon after identifying numbers that are == in Python (1, 1.0, True)"""
    def at(a):
        if isinstance(a, (bool, int, float)):
            return ("num", repr(float(a)))
        return _tatom(a)
    if isinstance(v, (list, tuple)):
        items = [alias_blind(x, rep) for x in v]
        tag = "L" if isinstance(v, list) else "T"
        return (tag, _bag(items, rep))
    if isinstance(v, dict):
        return ("D", frozenset((at(k), alias_blind(x, rep)) for k, x in v.items()
                               if not (isinstance(k, str) and k.startswith("__"))))
    if isinstance(v, (set, frozenset)):
        return ("F" if isinstance(v, frozenset) else "S", frozenset(at(x) for x in v))
    return at(v)


def bool_sep(*vals):
    """no bool is == to a non-bool number anywhere in vals (the guard bool_sep2 of C05_verdict_shared_table_partial)"""
    atoms = []

    def walk(v):
        if isinstance(v, (list, tuple)):
            for x in v:
                walk(x)
        elif isinstance(v, dict):
            for k, x in v.items():
                atoms.append(k)
                walk(x)
        elif isinstance(v, (set, frozenset)):
            atoms.extend(v)
        else:
            atoms.append(v)
    for v in vals:
        walk(v)
    bools = {a for a in atoms if isinstance(a, bool)}
    others = [a for a in atoms if isinstance(a, (int, float)) and not isinstance(a, bool)]
    return not any(b == n for b in bools for n in others)


def bool_blind(v, rep, hctx=False):
    """what the K2 mechanism can conflate on the unchanged code when a bool is == a number: ints and floats everywhere
    (one table entry per ==-class), but a bool with a number ONLY inside a hashable tuple / frozenset (looked up as a
    whole by ==) and as a dict key (matched by == in _diff_dict).  A bool that is an item of a list, an unhashable tuple
    or a set goes through _hash as a BoolObj and is never served the hash of 1."""
    def loose(a):
        if isinstance(a, (bool, int, float)):
            return ("num", repr(float(a)))
        return _tatom(a)

    def strict(a):
        if isinstance(a, bool):
            return ("bool", a)
        return loose(a)
    if isinstance(v, list):
        return ("L", _bag([bool_blind(x, rep) for x in v], rep))
    if isinstance(v, tuple):
        h = hctx
        if not h:
            try:
                hash(v)
                h = True
            except TypeError:
                h = False
        return ("T", _bag([bool_blind(x, rep, h) for x in v], rep))
    if isinstance(v, dict):
        return ("D", frozenset((loose(k), bool_blind(x, rep)) for k, x in v.items()
                               if not (isinstance(k, str) and k.startswith("__"))))
    if isinstance(v, frozenset):
        return ("F", frozenset(loose(x) for x in v))
    if isinstance(v, set):
        return ("S", frozenset(strict(x) for x in v))
    return loose(v) if hctx else strict(v)


def cb_canon(v, rep):
    """the relation of C05_verdict_shared_table_partial, written independently of the Coq side: dict keys and
    everything below the first list / tuple / set are taken modulo Python == (alias_blind), a scalar reached
    through dicts only keeps its type"""
    def at(a):
        if isinstance(a, (bool, int, float)):
            return ("num", repr(float(a)))
        return _tatom(a)
    if isinstance(v, dict):
        return ("D", frozenset((at(k), cb_canon(x, rep)) for k, x in v.items()
                               if not (isinstance(k, str) and k.startswith("__"))))
    if isinstance(v, (list, tuple, set, frozenset)):
        return alias_blind(v, rep)
    return _tatom(v)


def tag_blind(v, rep):
    """spec_canon after identifying every non-string scalar / empty container with
    the str that spells its DeepHash serialisation (finding K1)"""
    def at(a):
        if a is None:
            return ("str", "NONE")
        if a is True or a is False:
            return ("str", "bool:true" if a else "bool:false")
        if isinstance(a, int):
            return ("str", "int:%d" % a)
        if isinstance(a, float):
            return ("str", "float:%r" % a)
        return _tatom(a)
    if isinstance(v, (list, tuple, set, frozenset)) and len(v) == 0:
        return ("str", {list: "list:", tuple: "tuple:", set: "set:", frozenset: "frozenset:"}[type(v)])
    if isinstance(v, dict) and not [k for k in v if not (isinstance(k, str) and k.startswith("__"))]:
        return ("str", "dict:{}")
    if isinstance(v, (list, tuple)):
        items = [tag_blind(x, rep) for x in v]
        tag = "L" if isinstance(v, list) else "T"
        return (tag, _bag(items, rep))
    if isinstance(v, dict):
        return ("D", frozenset((at(k), tag_blind(x, rep)) for k, x in v.items()
                               if not (isinstance(k, str) and k.startswith("__"))))
    if isinstance(v, (set, frozenset)):
        return ("F" if isinstance(v, frozenset) else "S", frozenset(at(x) for x in v))
    return at(v)


def has_tag_like(*vals):
    """some str anywhere equals NONE or contains ':' (the K1 guard tag_safe fails)"""
    found = [False]

    def walk(v):
        if isinstance(v, str):
            if v == "NONE" or ":" in v:
                found[0] = True
        elif isinstance(v, (list, tuple, set, frozenset)):
            for x in v:
                walk(x)
        elif isinstance(v, dict):
            for k, x in v.items():
                walk(k)
                walk(x)
    for v in vals:
        walk(v)
    return found[0]


# --- finding K1 replayed: what the tag collision makes of an order-ignoring diff, with and without pairing -------------------
# (used by the K1 matcher only; never by the oracle).  k1_hash is the DeepHash canonical form WITH the collision at the
# parameters DeepDiff passes (ignore_repetition = not rep): unlike tag_blind it follows deephash.py:453-462, where with
# ignore_repetition=False the member hashes of EVERY iterable - sets included - are counted, so that {None, 'NONE'} is
# 'set:h|2' and differs from {'NONE'} = 'set:h|1' as a list item although _diff_set (diff.py:713-717, sets of member hashes)
# sees no difference between the two.

def k1_atom(a):
    if a is None:
        return ("str", "NONE")
    if a is True or a is False:
        return ("str", "bool:true" if a else "bool:false")
    if isinstance(a, int):
        return ("str", "int:%d" % a)
    if isinstance(a, float):
        return ("str", "float:%r" % a)
    return _tatom(a)


def _visible(d):
    return [(k, x) for k, x in d.items() if not (isinstance(k, str) and k.startswith("__"))]


def k1_hash(v, rep):
    if isinstance(v, (list, tuple, set, frozenset)) and len(v) == 0:
        return ("str", {list: "list:", tuple: "tuple:", set: "set:", frozenset: "frozenset:"}[type(v)])
    if isinstance(v, dict):
        if not _visible(v):
            return ("str", "dict:{}")
        return ("D", _bag([(k1_atom(k), k1_hash(x, rep)) for k, x in _visible(v)], True))     # 'k:v' strings sorted and joined: never de-duplicated
    if isinstance(v, (list, tuple)):
        return ("L" if isinstance(v, list) else "T", _bag([k1_hash(x, rep) for x in v], rep))
    if isinstance(v, (set, frozenset)):
        return ("F" if isinstance(v, frozenset) else "S", _bag([k1_atom(x) for x in v], rep))
    return k1_atom(v)


def _perfect_matching(left, right, ok):
    """is there a bijection left -> right inside the relation ok (augmenting paths; the levels are small)"""
    if len(left) != len(right):
        return False
    match = {}

    def aug(a, seen):
        for r in right:
            if (a, r) in ok and r not in seen:
                seen.add(r)
                if r not in match or aug(match[r], seen):
                    match[r] = a
                    return True
        return False
    return all(aug(a, set()) for a in left)


def k1_diff_empty(t1, t2, rep, pairing):
    """emptiness of DeepDiff(t1, t2, ignore_order=True, report_repetition=rep) as the unchanged code computes it from
    hashes that collide as K1 says, (pairing False) when no level computes pairs, (pairing True) when every level hands
    its added / removed items to the recursive diff wherever that gives nothing (such items are at distance 0, below
    every cutoff_distance_for_pairs).  Follows diff.py: type change; _diff_dict (keys by ==); _diff_set (sets of member
    hashes); _diff_iterable_with_deephash (item hashes; rep: equal counts of the common hashes; an added hash without
    a partner / a removed hash without a partner is reported; a pair is diffed on the first items of the two hashes)."""
    if type(t1) is not type(t2):
        return False
    if isinstance(t1, dict):
        d1, d2 = dict(_visible(t1)), dict(_visible(t2))
        if set(d1) != set(d2):
            return False
        return all(k1_diff_empty(d1[k], d2[k], rep, pairing) for k in d1)
    if isinstance(t1, (set, frozenset)):
        return {k1_atom(x) for x in t1} == {k1_atom(x) for x in t2}
    if isinstance(t1, (list, tuple)):
        def table(seq):
            first, cnt = {}, {}
            for x in seq:
                h = k1_hash(x, rep)
                first.setdefault(h, x)
                cnt[h] = cnt.get(h, 0) + 1
            return first, cnt
        f1, c1 = table(t1)
        f2, c2 = table(t2)
        if rep and any(c1[h] != c2[h] for h in f1 if h in f2):
            return False
        added = [h for h in f2 if h not in f1]
        removed = [h for h in f1 if h not in f2]
        if not added and not removed:
            return True
        if not pairing:
            return False
        ok = {(a, r) for a in added for r in removed if k1_diff_empty(f1[r], f2[a], rep, True)}
        return _perfect_matching(added, removed, ok)
    return t1 == t2


def pairing_on(kn):
    """this knob setting lets _diff_iterable_with_deephash compute pairs at all (diff.py:1303, 1315)"""
    return kn.get("max_passes", 1) != 0 and kn.get("cutoff_intersection_for_pairs", 0.7) != 0


def k1_separate(*vals):
    """the same values with the colliding atoms separated: every tag-like str (NONE / containing ':') renamed, injectively,
    to a str that spells the serialisation of nothing; everything else - types, shapes, multiplicities, private keys - kept"""
    strs = set()

    def walk(v):
        if isinstance(v, str):
            strs.add(v)
        elif isinstance(v, (list, tuple, set, frozenset)):
            for x in v:
                walk(x)
        elif isinstance(v, dict):
            for k, x in v.items():
                walk(k)
                walk(x)
    for v in vals:
        walk(v)
    ren = {}
    for n, s in enumerate(sorted(x for x in strs if x == "NONE" or ":" in x)):
        new = s.replace(":", ";") + "~%d" % n
        while new in strs or new in ren.values():
            new += "~"
        ren[s] = new

    def sep(v):
        if isinstance(v, str):
            return ren.get(v, v)
        if isinstance(v, list):
            return [sep(x) for x in v]
        if isinstance(v, tuple):
            return tuple(sep(x) for x in v)
        if isinstance(v, dict):
            return {sep(k): sep(x) for k, x in v.items()}
        if isinstance(v, (set, frozenset)):
            return type(v)(sep(x) for x in v)
        return v
    return [sep(v) for v in vals]


def _fail(ctx, clause, case, what):
    """every failing input records WHICH clause failed: verdict (result vs specification), knob_dependence, exception, modified (inputs changed),
    copy_differs (sharing changed the verdict), characterisation (aliasing input: result vs C05_verdict_shared_table_partial).  The known-finding
    matchers below attribute a case to a finding only for the clause the finding is about."""
    ctx.fail(dict(case, clause=clause), what)


def k1_match(case):
    if case.get("clause") == "knob_dependence":
        return k1_knob_match(case)
    # K1 is about the verdict clause ("different reported as equal") on an input with a tag-like str, and the wrong verdict is the one the
    # collision predicts: K1 replayed on the unchanged code's own steps under this very setting (k1_diff_empty: pairing computed or not) says
    # "empty".  [{'NONE'}] vs [{None,'NONE'}] with report_repetition and max_passes=0 is NOT predicted empty (the colliding members are
    # counted in the item hash): an empty result there would be a new failure although the values are equal modulo the collision
    if not (case.get("clause") == "verdict" and case.get("impl_empty") is True and case.get("spec_equal") is False
            and case.get("tag_like") is True and case.get("k1_predicts_empty") is True):
        return False
    # (i) the difference vanishes once every scalar is identified with the str that spells its serialisation
    if case.get("tag_blind_equal") is True:
        return True
    # (ii) report_repetition: the two values are NOT equal modulo the collision as nested multisets (tag_blind), because the colliding
    # members are counted inside a set item or because a removed hash occurs twice, and yet the unchanged code reports nothing once the
    # differing items are paired - accepted when, in addition, with the colliding atoms separated the implementation itself gives the
    # right verdict under this very setting
    if "knobs" not in case:
        return False
    t1, t2 = from_repr(case["t1"]), from_repr(case["t2"])
    kn = case["knobs"]
    if not k1_diff_empty(t1, t2, kn.get("report_repetition", False), pairing_on(kn)):
        return False
    s1, s2 = k1_separate(t1, t2)
    return verdict(s1, s2, **kn) is False


def k1_knob_match(case):
    """K1 seen through the knob clause: DeepDiff([{'NONE'}], [{None, 'NONE'}], ignore_order=True, report_repetition=True) is {} with the
    default knobs and reports the two items with max_passes=0.  Accepted only when the collision PREDICTS this very dependence:
    (a) the inputs differ (the non-empty verdicts are the right ones) and the verdicts are exactly {empty, non-empty}, no exception;
    (b) K1 replayed (k1_diff_empty) says non-empty without pairing and empty with it, and every empty verdict was observed under a
        setting that computes pairs (no setting without pairing gave empty);
    (c) with the colliding atoms separated (k1_separate) the implementation gives non-empty under EVERY evaluated setting: the
        dependence disappears, and so it is the collision's; with sharing in the input, the verdicts were those of the copies.
    A knob dependence on an input that merely contains a tag-like str fails (b) or (c)."""
    if not (case.get("tag_like") is True and case.get("spec_equal") is False and case.get("verdicts") == ["False", "True"]
            and case.get("copy_agrees", True) is True):
        return False
    kv = case.get("knob_verdicts")
    if not kv:
        return False
    t1, t2 = from_repr(case["t1"]), from_repr(case["t2"])
    rep = bool(case.get("report_repetition"))
    if any(bool(kn.get("report_repetition", False)) != rep or got not in (True, False) for kn, got in kv):
        return False
    if k1_diff_empty(t1, t2, rep, False) or not k1_diff_empty(t1, t2, rep, True):
        return False
    if any(got is True and not pairing_on(kn) for kn, got in kv):
        return False
    s1, s2 = k1_separate(t1, t2)
    if has_tag_like(s1, s2) or spec_canon(s1, rep) == spec_canon(s2, rep):
        return False
    return all(verdict(s1, s2, **kn) is False for kn, _got in kv)


def k2_match(case):
    if case.get("clause") == "knob_dependence":
        # the verdict depends on the pairing knobs: K2 only where a bool is == a non-bool ([{True:'a'}] vs [{1:'a'}]:
        # BoolObj at the top level of a table lookup, == as a dict key); elsewhere C05_knob_independence_shared_table_partial
        # says it cannot happen
        return (case.get("alias") is True and case.get("bool_sep") is False
                and case.get("spec_equal") is False and case.get("bool_blind_equal") is True)
    # K2 is about the verdict clause only ("different reported as equal"), on an input with ==-aliasing atoms whose difference vanishes modulo ==;
    # inside the guard of C05_verdict_shared_table_partial the wrong verdict must be exactly the one the theorem predicts (cb_equal); outside it
    # (a bool == a number) only where the table / the dict-key matching can conflate the two at all (bool_blind_equal): a bool next to the equal
    # int in a LIST is kept apart by the unchanged code
    return (case.get("clause") == "verdict" and case.get("impl_empty") is True and case.get("spec_equal") is False
            and case.get("alias") is True and case.get("alias_blind_equal") is True
            and (case.get("cb_equal") is True if case.get("bool_sep") else case.get("bool_blind_equal") is True))


MATCHERS = {"C05-K1-tag-collision": k1_match, "C05-K2-memo-alias": k2_match}

import datetime as _dt
SAFE_NS = {"frozenset": frozenset, "set": set, "True": True, "False": False, "None": None, "datetime": _dt}


def from_repr(s):
    return eval(s, {"__builtins__": {}}, dict(SAFE_NS))


def oracle_case(t1, t2, kn, got):
    rep = kn.get("report_repetition", False)
    exp = spec_canon(t1, rep) == spec_canon(t2, rep)
    case = {"t1": repr(t1), "t2": repr(t2), "knobs": kn, "spec_equal": exp,
            "impl_empty": got if isinstance(got, bool) else repr(got),
            "alias": V.contains_alias(t1, t2), "tag_like": has_tag_like(t1, t2)}
    if case["alias"]:
        case["alias_blind_equal"] = alias_blind(t1, rep) == alias_blind(t2, rep)
        case["bool_sep"] = bool_sep(t1, t2)
        case["bool_blind_equal"] = bool_blind(t1, rep) == bool_blind(t2, rep)
        case["cb_equal"] = cb_canon(t1, rep) == cb_canon(t2, rep)
    if case["tag_like"]:
        case["tag_blind_equal"] = tag_blind(t1, rep) == tag_blind(t2, rep)
        case["k1_predicts_empty"] = k1_diff_empty(t1, t2, rep, pairing_on(kn))      # K1 replayed under this setting (matcher only)
    return exp, case


def knob_case(t1, t2, rep, kv, **extra):
    """the record of a knob_dependence failure: kv = [(knob setting, verdict)] of this (pair, rep), every evaluated setting"""
    kv = [(kn, got) for kn, got in kv if bool(kn.get("report_repetition", False)) == bool(rep)]
    case = {"t1": repr(t1), "t2": repr(t2), "report_repetition": rep, "verdicts": sorted(set(repr(g) for _k, g in kv)),
            "alias": V.contains_alias(t1, t2), "tag_like": has_tag_like(t1, t2), "bool_sep": bool_sep(t1, t2),
            "spec_equal": spec_canon(t1, rep) == spec_canon(t2, rep),
            "knob_verdicts": [[kn, got] for kn, got in kv]}
    case.update(extra)
    return case


def check_verdict(ctx, t1, t2, kn, got):
    """the property on the implementation for one knob setting"""
    exp, case = oracle_case(t1, t2, kn, got)
    if isinstance(got, Exception):
        _fail(ctx, "exception", case, "DeepDiff(ignore_order=True) raised %s" % type(got).__name__)
        return False
    if case["alias"] and case["bool_sep"] and not case["tag_like"]:
        # C05_verdict_shared_table_partial observed on the implementation: with ==-aliasing atoms (no bool == a non-bool)
        # the result is empty EXACTLY when the inputs are equal modulo == below the first list level
        ctx.count("oracle:alias_characterisation_checked")
        if got != case["cb_equal"]:
            _fail(ctx, "characterisation", dict(case, characterisation="violated"),
                     "aliasing input: ignore_order result is %s but the inputs are %s modulo Python == (C05_verdict_shared_table_partial predicts the opposite)" % (
                         "empty" if got else "non-empty", "equal" if case["cb_equal"] else "different"))
            return False
    if got != exp:
        _fail(ctx, "verdict", case, "ignore_order result is %s but the inputs are %s as nested %s" % (
            "empty" if got else "non-empty", "equal" if exp else "different",
            "multisets" if kn.get("report_repetition") else "sets"))
        return False
    return True


# ---------------------------------------------------------------------------
# generators
# ---------------------------------------------------------------------------

def rebuild(v, rng, p=0.8):
    """fresh copy with list/tuple item order, dict insertion order and set
    insertion order permuted at every level (probability p per container)"""
    if isinstance(v, (list, tuple)):
        items = [rebuild(x, rng, p) for x in v]
        if rng.random() < p:
            rng.shuffle(items)
        return items if isinstance(v, list) else tuple(items)
    if isinstance(v, dict):
        items = [(k, rebuild(x, rng, p)) for k, x in v.items()]
        if rng.random() < p:
            rng.shuffle(items)
        return dict(items)
    if isinstance(v, (set, frozenset)):
        items = list(v)
        rng.shuffle(items)
        s = set()
        for x in items:
            s.add(x)
        return s if isinstance(v, set) else frozenset(s)
    return v


def seq_positions(v, path=()):
    if isinstance(v, (list, tuple)):
        yield path
        for i, x in enumerate(v):
            yield from seq_positions(x, path + (i,))
    elif isinstance(v, dict):
        for k, x in v.items():
            yield from seq_positions(x, path + (k,))


def set_at(v, path, new):
    if not path:
        return new
    p = path[0]
    if isinstance(v, (list, tuple)):
        c = list(v)
        c[p] = set_at(v[p], path[1:], new)
        return c if isinstance(v, list) else tuple(c)
    c = dict(v)
    c[p] = set_at(v[p], path[1:], new)
    return c


IO_EDITS = ["dup", "dup", "near_dup", "near_dup", "delete", "insert", "replace", "generic", "generic", "swap_kind"]


def io_edit(rng, v, alias=False):
    """one edit aimed at the ignore-order machinery; returns (value, kind|None)"""
    pos = list(seq_positions(v))
    kind = rng.choice(IO_EDITS)
    if kind == "generic" or not pos:
        w, k = V.edit(rng, v, alias=alias, strings=STRS)
        return w, (("generic:" + k) if k else None)
    path = rng.choice(pos)
    seq = V.get_at(v, path)
    items = [copy.deepcopy(x) for x in seq]
    if kind == "dup" and items:
        items.insert(rng.randint(0, len(items)), copy.deepcopy(rng.choice(items)))
    elif kind == "near_dup" and items:
        x = copy.deepcopy(rng.choice(items))
        if isinstance(x, (list, tuple, dict, set, frozenset)):
            for _ in range(4):
                y, k = V.edit(rng, x, alias=alias, strings=STRS)
                if k is not None and type(y) is type(x):
                    x = y
                    break
        else:
            x = V.gen_atom(rng, alias, STRS)
        items.insert(rng.randint(0, len(items)), x)
    elif kind == "delete" and items:
        del items[rng.randrange(len(items))]
    elif kind == "insert":
        items.insert(rng.randint(0, len(items)), V.gen_value(rng, 2, 3, alias, STRS))
    elif kind == "replace" and items:
        items[rng.randrange(len(items))] = V.gen_value(rng, 2, 3, alias, STRS)
    elif kind == "swap_kind":
        new = tuple(items) if isinstance(seq, list) else items
        return set_at(v, path, new), kind
    else:
        return v, None
    new = items if isinstance(seq, list) else tuple(items)
    return set_at(v, path, new), kind


def big_near_dups(rng, alias=False):
    """a list of several similar records (so that pairing really happens):
    items share most of their content"""
    n = rng.randint(3, 6)
    kind = rng.choice(["dict", "list", "tuple", "mixed", "bdict"])

    def record(i):
        if kind == "bdict":      # bytes-keyed dicts as list items (distance of such items raised before 3adbf05)
            return {b"id": i, b"k": rng.choice(STRS), "tags": [rng.randint(0, 3) for _ in range(rng.randint(1, 4))], b"": rng.randint(0, 2) + 0.5}
        if kind == "dict" or (kind == "mixed" and i % 2 == 0):
            return {"id": i, "name": rng.choice(STRS), "tags": [rng.randint(0, 3) for _ in range(rng.randint(1, 4))], "v": rng.randint(0, 2) + 0.5}
        if kind == "tuple":
            return tuple(rng.randint(0, 4) for _ in range(rng.randint(3, 6)))
        return [rng.randint(0, 4) for _ in range(rng.randint(3, 7))]
    items = [record(i) for i in range(n)]
    if rng.random() < 0.5:
        items.append(copy.deepcopy(rng.choice(items)))
    wrap = rng.choice(["list", "dict", "nest"])
    if wrap == "list":
        return items
    if wrap == "dict":
        return {"rows": items, "meta": [1, 2, rng.randint(0, 3)]}
    return [items, [copy.deepcopy(items[0])], rng.choice(STRS)]


def debool(v):
    """bools replaced by the floats they are == to: keeps the int/float aliasing, restores the guard bool_sep"""
    if isinstance(v, bool):
        return 1.0 if v else 0.0
    if isinstance(v, list):
        return [debool(x) for x in v]
    if isinstance(v, tuple):
        return tuple(debool(x) for x in v)
    if isinstance(v, dict):
        out = {}
        for k, x in v.items():
            out.setdefault(debool(k), debool(x))
        return out
    if isinstance(v, (set, frozenset)):
        return type(v)(debool(x) for x in v)
    return v


def gen_pair(rng, alias=False, depth=3):
    r = rng.random()
    if r < 0.35:
        t1 = big_near_dups(rng, alias)
    else:
        t1 = V.gen_value(rng, depth=depth, width=4, alias=alias, strings=STRS, kinds="LLLTTDDSFA")
        if not isinstance(t1, (list, tuple, dict)):
            t1 = [t1, V.gen_value(rng, depth - 1, 3, alias, STRS)]
    t2 = rebuild(t1, rng)
    n = rng.choice([0, 0, 1, 1, 1, 2, 2, 3])
    kinds = []
    for _ in range(n):
        for _try in range(5):
            w, k = io_edit(rng, t2, alias)
            if k is not None:
                t2 = w
                kinds.append(k)
                break
    if rng.random() < 0.5:
        t1, t2 = t2, t1
    return t1, t2, kinds


def nontrivial(t1, t2):
    def has_seq2(v):
        if isinstance(v, (list, tuple)):
            return len(v) >= 2 or any(has_seq2(x) for x in v)
        if isinstance(v, dict):
            return any(has_seq2(x) for x in v.values())
        return False
    return has_seq2(t1) or has_seq2(t2)


FIXED_PAIRS = [
    ([1, 2, 3], [3, 2, 1]),
    ([1, 1, 2], [1, 2, 2]),
    ([1, 1, 2], [2, 1]),
    ([[1, 2, 3], [4, 5]], [[4, 5, 6], [1, 2, 3, 3]]),
    ([[1, 2, 3], [1, 2, 3], [4, 5]], [[4, 5, 6], [1, 2, 3, 3], [1, 2, 3, 3]]),
    ([[1, 2, 3, 4], [1, 2, 3, 4], 9, 8, 7], [9, 8, [1, 2, 3, 5], 7]),
    ([{"a": [1, 2, 3], "b": 2}, {"a": [4, 5], "b": 3}, 5], [5, {"a": [4, 5, 6], "b": 3}, {"a": [3, 2, 1], "b": 2}]),
    ((1, 2, (3, 4)), ((4, 3), 2, 1)),
    ([(1, 2), (1, 2)], [(2, 1)]),
    ([{1, 2}, {3}], [{3}, {2, 1}]),
    ([{b"k": 1, "x": [1, 2]}, {b"k": 2, "x": [3, 4]}, 5, 6, 7], [7, 6, 5, {b"k": 2, "x": [4, 3, 9]}, {b"k": 1, "x": [2, 1]}]),
    ([{b"k": 1, "x": [1, 2]}, 5], [5, {b"k": 3, "x": [2, 1]}]),
    ([[]], [[], []]),
    ([], [[]]),
    ([[1, 2], [2, 1]], [[1, 2]]),
    ({"k": [[1, 2, 3, 4, 5], [1, 2, 3, 4, 6]]}, {"k": [[1, 2, 3, 4, 7], [1, 2, 3, 4, 5], [1, 2, 3, 4, 5]]}),
    ([[1, 2, 3, 4, 5, 6], [1, 2, 3, 4, 5, 6], "x"], ["x", [1, 2, 3, 4, 5, 7], [1, 2, 3, 4, 5, 7]]),
    ([[[1, 2, 3, 4], [5, 6, 7, 8]], [[1, 2, 3, 4], [5, 6, 7, 8]]], [[[5, 6, 7, 9], [1, 2, 3, 4]], [[1, 2, 3, 0], [8, 7, 6, 5]]]),
    # K1 through the pairing (C05_tag_collision_knob_refuted): with report_repetition the colliding members None / 'NONE' are COUNTED in the
    # hash of a set item, so the items differ as list items, and _diff_set sees no difference once they are paired; the model must give
    # both results (recorded pairing: empty; pairing off: added / removed)
    ([{"NONE"}], [{None, "NONE"}]),
    ([False, {"", "NONE"}, {"", "NONE"}], [{"", None, "NONE"}, False]),
]

ALIAS_FIXED = [
    ([1.0, 1], [1]), ([1, 1.0], [1.0]), ([[1, 2], [1.0, 2]], [[2, 1]]), ([True, 1], [1, True]), ([0, False, 0.0], [0.0]),
    ([(1, "a"), (1.0, "a")], [(True, "a")]), ({"a": [1], "b": [1.0, 2]}, {"b": [2, 1], "a": [1.0]}),
    ([{1: "x"}, {1.0: "x"}], [{True: "x"}]), ([{1, 2}, {1.0, 2.0}], [{2, 1}]), ([[1.0], [1]], [[1], [1.0], [True]]),
    # the Coq witnesses of the shared-table theorems
    ([{True: "a"}], [{1: "a"}]), ([{True: "a", "k": [1, 2]}, 5], [5, {1: "a", "k": [2, 1]}]),
    ([1, [2.0, 3], {2: {5.0, 7}}], [{2.0: {7.0, 5}}, [3.0, 2], 1.0, 1]),
    ({"x": 1}, {"x": 1.0}), ([{"x": 1}], [{"x": 1.0}]), ([1, 1.0], [1, 1]), ([(1.0, 2)], [(1, 2.0)]), ({1: [1.0]}, {1.0: [1]}),
]

# times as list items (direct oracle only; 82f0543: the pairing distance kept no microseconds)
_T = _dt.time
FIXED_TIMES = [
    ([[_T(1, 2, 3, 5), "a", "b"], [_T(1, 2, 3, 9), "c", "d"], 7], [7, [_T(1, 2, 3, 9), "d", "c"], [_T(1, 2, 3, 5), "b", "a"]]),
    ([[_T(1, 2, 3, 5), "a", "b", "c"], 7], [7, [_T(1, 2, 3, 6), "a", "b", "c"]]),
    ([_T(1, 2, 3, 5), _T(1, 2, 3, 6)], [_T(1, 2, 3, 6), _T(1, 2, 3, 5), _T(1, 2, 3, 5)]),
    ([{"t": _T(0, 0, 0, 1), "k": [1, 2]}, {"t": _T(0, 0, 0, 2), "k": [1, 2]}], [{"t": _T(0, 0, 0, 2), "k": [2, 1]}, {"t": _T(0, 0, 0, 3), "k": [1, 2]}]),
]

# K1 seen through the knob clause (direct oracle, fixed settings: no draw from the PRNG)
K1_KNOB_PAIRS = [
    ([{"NONE"}], [{None, "NONE"}]),
    ([False, {"", "NONE"}, {"", "NONE"}], [{"", None, "NONE"}, False]),
    ([[1, "int:1", 5], 9], [9, [5, "int:1"]]),                       # list items: counted with report_repetition, one hash without
    ([{"k": frozenset({True, "bool:true"})}, "p"], ["p", {"k": frozenset({"bool:true"})}]),
    ([{"NONE"}, 7], [7, {None, "NONE"}, {None, "NONE", "zz"}]),      # one item more: non-empty whatever the knobs
]
K1_KNOB_SETTINGS = [dict(k, report_repetition=rp) for rp in (False, True)
                    for k in (dict(), dict(max_passes=0), dict(cutoff_intersection_for_pairs=0), dict(max_passes=1),
                              dict(cutoff_distance_for_pairs=0.05, cutoff_intersection_for_pairs=1, cache_size=50),
                              dict(cutoff_distance_for_pairs=1, cutoff_intersection_for_pairs=1, threshold_to_diff_deeper=1))]

FIXED_FINDINGS = [
    ([None], ["NONE"]),
    ([1], ["int:1"]),
    ([[]], ["list:"]),
    ([1], [1.0]),
    ([{"x": 1}], [{"x": 1.0}]),
    ([(1, "a")], [(True, "a")]),
    ({1: "a"}, {1.0: "a"}),
    ([{True: "a"}], [{1: "a"}]),          # K2 where a bool is == an int: the verdict depends on the pairing knobs
]


# ---------------------------------------------------------------------------
# correspondence
# ---------------------------------------------------------------------------

LINE_VARIANTS = [("a\nb", "a\nb\n"), ("a\nb", "a\r\nb"), ("a\nb\n", "a\nb\r\n"), ("x\n", "x"), ("\n", ""), ("a\n\nb", "a\nb"),
                 ("a\nb", "a\nc"), (b"a\nb", b"a\nb\n")]


def bool_pairs(rng, n):
    """a bool next to the equal int / float in a list / tuple / set NESTED inside an item of an order-ignored list (list in list,
    list in dict in list, unhashable tuple): the unchanged code keeps the two apart there (BoolObj), so these are ordinary inputs of the
    property although they are outside the guard bool_sep2"""
    out = []
    for _ in range(n):
        b, z = rng.choice([(True, 1), (False, 0), (True, 1.0), (False, 0.0)])
        rest = [rng.choice([5, 6, "a", "p", None, 2.5]) for _ in range(rng.randint(1, 3))]
        both = [b, z] + rest
        rng.shuffle(both)
        one = [rng.choice([b, z])] + rest
        rng.shuffle(one)
        mk = rng.choice(["list", "list", "dict", "tuple", "set", "deep"])

        def wrap(items):
            if mk == "list":
                return list(items)
            if mk == "dict":
                return {"k": list(items), "n": 1}
            if mk == "tuple":
                return (list(items), "t")                      # unhashable tuple
            if mk == "set":
                return [set(x for x in items), "s"]
            return [[list(items)], 7]
        pad = [rng.choice([9, "z", 8]) for _ in range(rng.randint(1, 2))]
        v = rng.random()
        if v < 0.45:                 # really different: one of the two is missing on the other side
            t1, t2 = [wrap(both)] + pad, list(reversed(pad)) + [wrap(one)]
        elif v < 0.8:                # equal as nested sets, shuffled
            sh = list(both)
            rng.shuffle(sh)
            t1, t2 = [wrap(both)] + pad, list(reversed(pad)) + [wrap(sh)]
        else:                        # bool on one side, the number on the other
            t1, t2 = [wrap([b] + rest)] + pad, list(reversed(pad)) + [wrap([z] + rest)]
        if mk == "set" and len({x for x in both}) != len(both):
            pass                      # {True, 1} is one member in Python: the pair is still a legal input
        if rng.random() < 0.5:
            t1, t2 = t2, t1
        out.append((t1, t2))
    return out


def special_pairs(rng, n):
    """shapes the random generators hit too rarely:
    (a) an atom repeated across nesting levels, [a, [a, b]] against [a, [b]] (and equal variants);
    (b) multi-line strings that differ only in line terminators, at leaves of items that get paired;
    (c) dicts with identical key sets (threshold_to_diff_deeper = 1 must still look inside)"""
    out = []
    atoms = [7, 0, 1, "a", "ab", None, 2.5, True]
    for _ in range(n):
        a = rng.choice(atoms)
        rest = [rng.choice(atoms + [8, 9, "b"]) for _ in range(rng.randint(1, 3))]
        inner1 = [a] + rest
        inner2 = list(rest) if rng.random() < 0.7 else list(reversed(inner1))
        item1, item2 = [a, inner1], [a, inner2]
        if rng.random() < 0.4:
            item1, item2 = (a, tuple(inner1)), (a, tuple(inner2))
        if rng.random() < 0.3:
            item1, item2 = [a, [a, inner1]], [a, [a, inner2]]
        pad = [rng.choice(["p", "q", 3, 4]) for _ in range(rng.randint(0, 3))]
        t1, t2 = [item1] + pad, list(reversed(pad)) + [item2]
        if rng.random() < 0.3:
            t1, t2 = {"k": t1, "n": 1}, {"n": 1, "k": t2}
        out.append((t1, t2))
    for _ in range(n):
        s1, s2 = rng.choice(LINE_VARIANTS)
        if rng.random() < 0.5:
            s1, s2 = s2, s1
        common = [rng.choice(["c", "d", 5, 6, "e"]) for _ in range(rng.randint(2, 4))]
        shape = rng.random()
        if shape < 0.4:
            t1, t2 = [[s1] + common, "z", 9], [9, "z", list(reversed(common)) + [s2]]
        elif shape < 0.6:
            t1, t2 = {"k": s1, "x": common}, {"x": list(reversed(common)), "k": s2}
        elif shape < 0.8:
            t1, t2 = [{"t": s1, "c": common}, 1, 2, 3], [3, 2, 1, {"c": common, "t": s2}]
        else:
            t1, t2 = [(s1, 1, 2, 3), "z"], ["z", (s2, 1, 2, 3)]
        out.append((t1, t2))
    for _ in range(n):
        keys = rng.sample(["a", "b", "c", 1, 2, None, 2.5], rng.randint(2, 4))
        d1 = {k: rng.choice([1, "x", [1, 2, 3], [3, [1, 2]], {"u": 1, "v": [1, 2]}]) for k in keys}
        d2 = {k: rebuild(d1[k], rng) for k in reversed(keys)}
        if rng.random() < 0.4:
            k = rng.choice(keys)
            d2[k] = rng.choice([0, "y", [1, 2, 4]])
        if rng.random() < 0.5:
            out.append((d1, d2))
        else:
            out.append(([d1, 5, 6], [6, d2, 5]))
    return out


FULL_KNOBS = [
    dict(cutoff_intersection_for_pairs=0),
    dict(max_passes=0),
    dict(),
    dict(cutoff_distance_for_pairs=1, cutoff_intersection_for_pairs=1),
    dict(max_passes=1, cutoff_intersection_for_pairs=1, cutoff_distance_for_pairs=0.3),
    dict(max_passes=2, cutoff_distance_for_pairs=0.05, cache_size=50),
    dict(max_passes=2, cutoff_intersection_for_pairs=1, cutoff_distance_for_pairs=1, cache_size=1),
]


def model_expr(t1, t2, rep, thr, tbl, memo=False):
    """run_io: item hashes = hash_pure (the model the C05 theorems are about);
    run_io_m: the shared hashes table threaded through the traversal (DiffIOMemo.v) - the only faithful
    one when atoms that are == but not identical occur (1 / 1.0 / True: finding K2)"""
    return "%s %s %s %s %s %s %s" % ("run_io_m" if memo else "run_io",
        D.coq_udiff_table(D.udiff_table(t1, t2)), D.coq_cfg(False, thr), core.coq_bool(rep),
        coq_pairs_table(tbl), V.to_coq(t1), V.to_coq(t2))


def has_sharing(v):
    """some list / dict object occurs at two positions of v"""
    seen = set()

    def walk(x):
        if isinstance(x, (list, dict)):
            if id(x) in seen:
                return True
            seen.add(id(x))
        if isinstance(x, (list, tuple)):
            return any(walk(y) for y in x)
        if isinstance(x, dict):
            return any(walk(y) for y in x.values())
        return False
    return walk(v)


def _full_task(args):
    """worker: run the implementation for every full-result knob setting.  The model always gets the VALUES (trees);
    when blob is given the implementation gets the pickled objects, in which one list / dict object occurs at two positions"""
    t1r, t2r, blob = args
    t1, t2 = from_repr(t1r), from_repr(t2r)
    i1, i2 = pickle.loads(blob) if blob else (t1, t2)
    out = []
    alias = V.contains_alias(t1, t2)
    for rep in REPS:
        for thr in ((0.33, 1) if alias else (0, 0.33, 1, 1.0)):        # aliasing pairs: the threshold sweep is done on the alias-free ones
            for kn in (FULL_KNOBS if thr in (0, 0.33) and thr is not True else (FULL_KNOBS[:3] if isinstance(thr, int) else FULL_KNOBS[2:4])):
                kw = dict(kn, report_repetition=rep, threshold_to_diff_deeper=thr)
                obs, rec, unmod = run_tree(i1, i2, **kw)
                if isinstance(obs, Exception):
                    out.append((kw, "EXC " + repr(obs), None, True, unmod, None))
                    continue
                tbl, ok = rec
                paired = sum(len(ji) for _p, ji, _x, _y in tbl)
                out.append((kw, obs, coq_pairs_table(tbl), ok, unmod,
                            (model_expr(t1, t2, rep, thr, tbl, memo=alias), coq_valid_arg(tbl), paired, len(tbl))))
                if not alias and not kn and thr == 0.33:
                    # the memo-threading model must agree with the memo-free one where nothing aliases
                    out.append((dict(kw, _memo_model=True), obs, None, ok, unmod, (model_expr(t1, t2, rep, thr, tbl, memo=True), "", 0, len(tbl))))
    return t1r, t2r, out


def correspondence(ctx, pairs, pool):
    cases, vcases = [], []
    jobs = []
    for a, b in pairs:
        sh = has_sharing(a) or has_sharing(b)
        if sh:
            ctx.count("full:pairs_with_a_shared_container_object")
        jobs.append((repr(a), repr(b), pickle.dumps((a, b)) if sh else None))
    res = pool.map(_full_task, jobs, chunksize=2)
    for t1r, t2r, out in res:
        for kw, obs, _tblc, ok, unmod, extra in out:
            tag = {"t1": t1r, "t2": t2r, "knobs": kw}
            if isinstance(obs, str):
                _fail(ctx, "exception", dict(tag, error=obs), "DeepDiff(ignore_order=True) raised: " + obs)
                continue
            if not unmod:
                _fail(ctx, "modified", tag, "DeepDiff(ignore_order=True) modified its inputs")
            expr, varg, paired, nlev = extra
            pairing_off = kw.get("max_passes") == 0 or kw.get("cutoff_intersection_for_pairs") == 0
            if pairing_off and paired:
                ctx.break_("correspondence", dict(tag, what="pairs were computed although max_passes=0 / cutoff_intersection_for_pairs=0"))
            if not ok:
                ctx.break_("correspondence", dict(tag, what="recorded pairing is not a symmetric partial injection between added and removed hashes"))
            if kw.get("_memo_model"):
                ctx.count("full:memo_model_on_alias_free_input")
                cases.append((expr, obs, tag))
                continue
            if V.contains_alias(from_repr(t1r), from_repr(t2r)):
                ctx.count("full:alias_input(memo model)")
            ctx.count("full:pairing_off" if pairing_off else ("full:with_pairs" if paired else "full:pairing_on_no_pairs"))
            ctx.count("full:rep" if kw["report_repetition"] else "full:norep")
            ctx.count("full:empty_result" if obs == [[], []] else "full:nonempty_result")
            if obs[1]:
                ctx.count("full:with_repetition_change")
            cases.append((expr, obs, tag))
            if paired and not V.contains_alias(from_repr(t1r), from_repr(t2r)):     # valid_pairs_at is stated on memo-free hashes
                vcases.append(("run_valid %s %s %s" % (D.coq_cfg(False, kw["threshold_to_diff_deeper"]),
                                                        core.coq_bool(kw["report_repetition"]), varg), True, tag))
    ctx.coq_cases("io_full", HEADER, cases, shard=120, label="full_tree_result")
    ctx.coq_cases("io_valid", HEADER, vcases, shard=200, label="recorded_pairs_valid")


# ---------------------------------------------------------------------------
# direct oracle over the knob product
# ---------------------------------------------------------------------------

def _grid_task(args):
    t1r, t2r, knobs = args
    t1, t2 = from_repr(t1r), from_repr(t2r)
    return t1r, t2r, [(kn, verdict(t1, t2, **kn)) for kn in knobs]


def _enc(got):
    return got if isinstance(got, bool) else ("EXC " + repr(got))


def _grid_task_enc(args):
    t1r, t2r, res = _grid_task(args)
    return t1r, t2r, [(kn, _enc(g)) for kn, g in res]


def oracle_grid(ctx, jobs, pool):
    """jobs: [(t1, t2, knob list)]"""
    res = pool.map(_grid_task_enc, [(repr(a), repr(b), kn) for a, b, kn in jobs], chunksize=1)
    for t1r, t2r, out in res:
        t1, t2 = from_repr(t1r), from_repr(t2r)
        verdicts = {}
        for kn, got in out:
            g = got if isinstance(got, bool) else RuntimeError(got)
            check_verdict(ctx, t1, t2, kn, g)
            ctx.seen((t1r, t2r, sorted(kn.items())), nontrivial=nontrivial(t1, t2))
            verdicts.setdefault(kn.get("report_repetition", False), set()).add(got)
            ctx.count("oracle:empty" if got is True else "oracle:nonempty")
        for rep, vs in verdicts.items():
            if len(vs) > 1:
                _fail(ctx, "knob_dependence", knob_case(t1, t2, rep, out,
                          alias_blind_equal=alias_blind(t1, rep) == alias_blind(t2, rep),
                          bool_blind_equal=bool_blind(t1, rep) == bool_blind(t2, rep)),
                         "the empty/non-empty verdict depends on the pairing knobs")
        for rep in (False, True):
            eq = spec_canon(t1, rep) == spec_canon(t2, rep)
            ctx.count("pairs:equal_%s" % ("multiset" if rep else "set") if eq else "pairs:different_%s" % ("multiset" if rep else "set"))



# ---------------------------------------------------------------------------
# inputs that share objects ACROSS t1 and t2 (direct oracle only)
# ---------------------------------------------------------------------------
# t2 is described by a recipe over t1:  ["ref", path] = the very object found in t1 at path,
# ["list"|"tuple", [recipes]], ["dict", [[key_repr, recipe]...]], ["lit", repr] (a fresh value).
# t1 itself stays a tree and t2 never occurs inside t1, so there is no cycle; as VALUES the two
# are ordinary nested values, and the verdict may not depend on who shares what with whom.

def build_shared(t1, recipe):
    tag = recipe[0]
    if tag == "ref":
        return V.get_at(t1, [from_repr(k) if isinstance(k, str) else k for k in recipe[1]])
    if tag == "lit":
        return from_repr(recipe[1])
    if tag == "list":
        return [build_shared(t1, r) for r in recipe[1]]
    if tag == "tuple":
        return tuple(build_shared(t1, r) for r in recipe[1])
    if tag == "dict":
        return {from_repr(k): build_shared(t1, r) for k, r in recipe[1]}
    raise ValueError(recipe)


def _enc_path(path):
    return [p if isinstance(p, int) and not isinstance(p, bool) else repr(p) for p in path]


def _dec_ok(path):
    # dict keys travel as reprs, list indexes as ints: a str key 'x' is "'x'" and never an int
    return True


def mirror(rng, v, path, p_ref=0.25, p_shuffle=0.6):
    """recipe rebuilding v with fresh containers (order permuted), where some sub-values are
    taken from t1 by reference"""
    if isinstance(v, (list, tuple, dict)) and path and rng.random() < p_ref:
        return ["ref", _enc_path(path)]
    if isinstance(v, (list, tuple)):
        items = [mirror(rng, x, path + (i,), p_ref, p_shuffle) for i, x in enumerate(v)]
        if rng.random() < p_shuffle:
            rng.shuffle(items)
        return ["list" if isinstance(v, list) else "tuple", items]
    if isinstance(v, dict):
        items = [[repr(k), mirror(rng, x, path + (k,), p_ref, p_shuffle)] for k, x in v.items()]
        if rng.random() < p_shuffle:
            rng.shuffle(items)
        return ["dict", items]
    return ["lit", repr(v)]


def recipe_positions(r, pos=()):
    yield pos, r
    if r[0] in ("list", "tuple"):
        for i, x in enumerate(r[1]):
            yield from recipe_positions(x, pos + (i,))
    elif r[0] == "dict":
        for i, (_k, x) in enumerate(r[1]):
            yield from recipe_positions(x, pos + (i,))


def recipe_set(r, pos, new):
    if not pos:
        return new
    r = [r[0], list(r[1])]
    i = pos[0]
    if r[0] == "dict":
        r[1][i] = [r[1][i][0], recipe_set(r[1][i][1], pos[1:], new)]
    else:
        r[1][i] = recipe_set(r[1][i], pos[1:], new)
    return r


SHARED_EDITS = ["wrap_dict", "wrap_dict", "wrap_list", "self_item", "ancestor_ref", "cross_ref", "dup_ref", "none"]


def gen_shared(rng, depth=3):
    """(t1, recipe, kinds): t2 = build_shared(t1, recipe) re-uses pieces of t1 by reference"""
    for _try in range(6):
        t1 = V.gen_value(rng, depth=depth, width=4, alias=False, strings=STRS, kinds="LLLTDDDA")
        if isinstance(t1, (list, tuple, dict)) and len(t1) >= 2 and not V.contains_alias(t1):
            break
    else:
        t1 = [V.gen_atom(rng, False, STRS), {"k": 5, "n": 1}, [1, 2]]
    cont = [p for p in V.positions(t1) if isinstance(V.get_at(t1, p), (list, tuple, dict))]
    rec = mirror(rng, t1, ())
    kinds = []
    for _ in range(rng.choice([1, 1, 2])):
        kind = rng.choice(SHARED_EDITS)
        pos_list = [(pos, r) for pos, r in recipe_positions(rec)]
        pos, r = rng.choice(pos_list)
        tp = rng.choice(cont)                 # a container of t1
        tv = V.get_at(t1, tp)
        ref = ["ref", _enc_path(tp)]
        if kind == "wrap_dict":
            # the new element wraps the old one under one of ITS OWN keys (history / prev style records)
            if isinstance(tv, dict) and tv:
                keys = list(tv)
                k0 = rng.choice(keys)
                items = [[repr(k), (ref if k == k0 else ["lit", repr(tv[k])])] for k in keys]
            else:
                items = [[repr("k"), ref], [repr("n"), ["lit", "1"]]]
            new = ["dict", items]
            # put it where the wrapped object is mirrored if possible, else anywhere
            target = [ps for ps, rr in pos_list if rr == ref or ps == ()]
            pos = rng.choice(target) if target and rng.random() < 0.7 else pos
        elif kind == "wrap_list":
            new = ["list", [ref, ["lit", repr(V.gen_atom(rng, False, STRS))]]]
        elif kind == "self_item":
            new = rng.choice([["list", [["ref", []], r]], ["dict", [[repr("k"), ["ref", []]], [repr("n"), ["lit", "1"]]]]])
        elif kind == "ancestor_ref":
            new = ["ref", _enc_path(tp[:rng.randint(0, len(tp))])]
        elif kind == "cross_ref":
            new = ref
        elif kind == "dup_ref":
            new = ["list", [ref, ref]]
        else:
            continue
        rec = recipe_set(rec, pos, new)
        kinds.append(kind)
    if rec[0] == "ref" and rec[1] == []:
        rec = ["list", [rec]]
    return t1, rec, kinds


SHARED_FIXED = [
    ("[{'k': 5, 'n': 1}, 7]", ["list", [["lit", "7"], ["dict", [["'k'", ["ref", [0]]], ["'n'", ["lit", "1"]]]]]]),
    ("{'k': 5, 'n': 1}", ["dict", [["'k'", ["ref", []]], ["'n'", ["lit", "1"]]]]),
    ("[[{'k': 5, 'n': 1}, 7], 7]", ["list", [["lit", "7"], ["list", [["lit", "7"], ["dict", [["'k'", ["ref", [0, 0]]], ["'n'", ["lit", "1"]]]]]]]]),
    ("[[1, 2], [3, 4]]", ["list", [["ref", [1]], ["ref", [0]]]]),
    ("[[1, 2], [3, 4]]", ["list", [["ref", [1]], ["ref", [0]], ["ref", []]]]),
    ("{'a': [1, {'a': 2}]}", ["dict", [["'a'", ["ref", []]]]]),
]

SHARED_KNOBS = [dict(), dict(max_passes=0), dict(cutoff_intersection_for_pairs=0), dict(max_passes=1),
                dict(cutoff_distance_for_pairs=1, cutoff_intersection_for_pairs=1), dict(cache_size=50, max_passes=2)]


def verdict_shared(t1, t2, **kw):
    """like verdict(), but on the objects as given (no copies: sharing is the point)"""
    from deepdiff import DeepDiff
    try:
        return len(DeepDiff(t1, t2, ignore_order=True, **kw)) == 0
    except Exception as e:  # noqa
        return e


def shared_case(t1r, recipe, knobs):
    """the property on one shared pair: [(knobs, verdict shared, verdict deep-copied)]"""
    out = []
    for kn in knobs:
        t1 = from_repr(t1r)
        t2 = build_shared(t1, recipe)
        snap = (V.canon(t1), V.canon(copy.deepcopy(t2)))
        got = verdict_shared(t1, t2, **kn)
        unmod = (V.canon(t1), V.canon(copy.deepcopy(t2))) == snap
        ref = verdict(t1, t2, **kn)          # verdict() deep-copies both sides separately: no sharing left
        out.append((kn, _enc(got), _enc(ref), unmod))
    return out


def _shared_task(args):
    seed, n, extra = args
    rng = random.Random(seed)
    res = []
    todo = [(a, r, ["fixed"]) for a, r in extra]
    for _ in range(n):
        t1, rec, kinds = gen_shared(rng, depth=rng.choice([2, 3, 3]))
        todo.append((repr(t1), rec, kinds))
    for t1r, rec, kinds in todo:
        try:
            t2r = repr(build_shared(from_repr(t1r), rec))
        except Exception as e:  # noqa  (a recipe that does not apply: generator defect, reported)
            res.append((t1r, rec, kinds, None, "recipe failed: %r" % (e,)))
            continue
        knobs = [dict(k, report_repetition=rp, threshold_to_diff_deeper=th) for k in SHARED_KNOBS for rp in REPS
                 for th in ((0.33,) if k else (0, 0.33))]
        knobs += rng.sample(ALL_KNOBS, 6)
        res.append((t1r, rec, kinds, t2r, shared_case(t1r, rec, knobs)))
    return res


def oracle_shared(ctx, pool, n_tasks, per_task):
    seeds = [ctx.rng.randrange(1 << 30) for _ in range(n_tasks)]
    jobs = [(sd, per_task, SHARED_FIXED if i == 0 else []) for i, sd in enumerate(seeds)]
    npairs = 0
    for res in pool.map(_shared_task, jobs, chunksize=1):
        for t1r, rec, kinds, t2r, out in res:
            if t2r is None:
                ctx.break_("harness", {"what": out, "t1": t1r, "recipe": rec})
                continue
            npairs += 1
            for k in kinds or ["mirror_only"]:
                ctx.count("shared:" + k)
            t1 = from_repr(t1r)
            t2v = from_repr(t2r)              # the VALUE of t2 (sharing forgotten) for the specification
            verdicts = {}
            for kn, got, ref, unmod in out:
                base = {"t1": t1r, "t2": t2r, "t2_recipe": rec, "knobs": kn, "shared": True}
                g = got if isinstance(got, bool) else RuntimeError(got)
                ctx.seen((t1r, repr(rec), sorted(kn.items())), nontrivial=True)
                exp, case = oracle_case(t1, t2v, kn, g)
                case.update(base)
                if isinstance(g, Exception):
                    _fail(ctx, "exception", case, "DeepDiff(ignore_order=True) raised on inputs that share objects: " + got)
                elif g != exp:
                    _fail(ctx, "verdict", case, "t2 re-uses objects of t1: ignore_order result is %s but the inputs are %s as nested %s" % (
                        "empty" if g else "non-empty", "equal" if exp else "different",
                        "multisets" if kn.get("report_repetition") else "sets"))
                elif got != ref:
                    _fail(ctx, "copy_differs", dict(case, deep_copied_verdict=ref), "the verdict for t2 sharing objects with t1 differs from the verdict for a deep copy of the same values")
                if not unmod:
                    _fail(ctx, "modified", case, "DeepDiff(ignore_order=True) modified its inputs (shared objects)")
                verdicts.setdefault(kn.get("report_repetition", False), set()).add(got)
                ctx.count("shared:empty" if got is True else "shared:nonempty")
            for rep, vs in verdicts.items():
                if len(vs) > 1:
                    _fail(ctx, "knob_dependence", knob_case(t1, t2v, rep, [(kn, got) for kn, got, _r, _u in out], t2_recipe=rec, shared=True,
                              copy_agrees=all(got == ref for _k, got, ref, _u in out)),
                             "t2 re-uses objects of t1: the empty/non-empty verdict depends on the pairing knobs")
    ctx.count("shared:pairs", npairs)


# ---------------------------------------------------------------------------
# ONE container object referenced several times INSIDE t1 (direct oracle only)
# ---------------------------------------------------------------------------
# YAML anchors, structures built up programmatically, equal tuple constants of one code object and
# the () singleton all give values in which the same list / dict / tuple OBJECT sits at several
# positions.  As a VALUE such a t1 is an ordinary nested value; the verdict may not depend on the
# sharing.  t1 = build_shared(base, recipe): base is a tree [x, a, b], the recipe refers to x
# ([ "ref", [0] ]) more than once inside ONE element of an order-ignored list, across nesting levels
# ([x, [x, a]]), as a plain repeat ([x, x, a]), under dict values, inside tuples; t2 is a fresh,
# unshared, shuffled value: the same value, or the one in which one occurrence of x is dropped.

INNER_X = ["[1, 2]", "['a', 'b']", "{'k': 1}", "(1, 2)", "()", "[[3], 4]", "{'k': [1, 2], 'n': 0}", "[]", "({'u': 1}, 2)"]
INNER_SHAPES = ["nested_later", "nested_later", "nested_dict", "nested_tuple", "repeat", "repeat", "repeat_deep", "dict_values", "three_levels"]
INNER_WRAPS = ["list", "list", "list2", "dict", "tuple"]
INNER_KNOBS = [dict(), dict(max_passes=0), dict(cutoff_intersection_for_pairs=0),
               dict(cutoff_intersection_for_pairs=1, cutoff_distance_for_pairs=1, cache_size=5000),
               dict(threshold_to_diff_deeper=0, cache_size=1, max_passes=2)]


def unshare(v):
    """the same value with every container a distinct object (() stays the singleton it is)"""
    if isinstance(v, list):
        return [unshare(x) for x in v]
    if isinstance(v, tuple):
        return tuple([unshare(x) for x in v])
    if isinstance(v, dict):
        return {k: unshare(x) for k, x in v.items()}
    if isinstance(v, (set, frozenset)):
        return type(v)(v)
    return v


def gen_inner(rng):
    """(base repr, recipe of t1, recipe of the value t2 is made from, kind)"""
    X = ["ref", [0]]
    xr = rng.choice(INNER_X)
    a, b = rng.sample([5, 6, 7, "p", "q", None, 2.5], 2)
    A, B = ["lit", repr(a)], ["lit", repr(b)]
    shape = rng.choice(INNER_SHAPES)
    if shape == "nested_later":
        rec, less = ["list", [X, ["list", [X, A]]]], ["list", [X, ["list", [A]]]]
    elif shape == "nested_dict":
        rec, less = ["list", [X, ["dict", [["'k'", X], ["'n'", A]]]]], ["list", [X, ["dict", [["'n'", A]]]]]
    elif shape == "nested_tuple":
        rec, less = ["tuple", [X, ["tuple", [A, X]]]], ["tuple", [X, ["tuple", [A]]]]
    elif shape == "repeat":
        rec, less = ["list", [X, X, A]], ["list", [X, A]]
    elif shape == "repeat_deep":
        rec, less = ["list", [["list", [X, X, A]], B]], ["list", [["list", [X, A]], B]]
    elif shape == "dict_values":
        rec, less = ["dict", [["'p'", X], ["'q'", ["list", [X, A]]]]], ["dict", [["'p'", X], ["'q'", ["list", [A]]]]]
    else:
        rec, less = ["list", [X, ["list", [A, ["list", [X, B]]]]]], ["list", [X, ["list", [A, ["list", [B]]]]]]
    pad = [["lit", repr(rng.choice([0, 1, "z", 9, "tail"]))] for _ in range(rng.randint(1, 3))]
    if rng.random() < 0.3:
        pad.append(["list", [A, B]])

    def wrap(r, w):
        items = [r] + pad
        if w == "list":
            return ["list", items]
        if w == "tuple":
            return ["tuple", items]
        if w == "list2":
            return ["list", [["list", items], B]]
        return ["dict", [["'id'", ["lit", "7"]], ["'rows'", ["list", items]]]]
    w = rng.choice(INNER_WRAPS)
    return repr([from_repr(xr), a, b]), wrap(rec, w), wrap(less, w), shape + "/" + w + "/" + xr


def build_inner(src):
    """t1 with its sharing, from a replayable description: a recipe over a tree, or a pickle"""
    if "t1_pickle" in src:
        return pickle.loads(base64.b64decode(src["t1_pickle"]))
    return build_shared(from_repr(src["base"]), src["t1_recipe"])


def inner_case(src, t2r, knobs):
    """[(knobs, verdict with sharing, verdict for the unshared copy of t1, inputs unmodified)]"""
    out = []
    for kn in knobs:
        t1 = build_inner(src)
        t2 = unshare(from_repr(t2r))
        snap = (V.canon(unshare(t1)), V.canon(t2))
        got = verdict_shared(t1, t2, **kn)
        unmod = (V.canon(unshare(t1)), V.canon(t2)) == snap
        ctl = verdict_shared(unshare(t1), unshare(from_repr(t2r)), **kn)
        out.append((kn, _enc(got), _enc(ctl), unmod))
    return out


def _inner_task(args):
    seed, n = args
    rng = random.Random(seed)
    res = []
    for _ in range(n):
        src = None
        if rng.random() < 0.3:
            # any generated value in which V.share makes one list / dict object occur at a second position
            v = V.gen_value(rng, depth=3, width=3, alias=False, strings=V.STR_POOL, kinds="LLLDDT")
            sv, ok = V.share(rng, [v, rng.choice([0, "z", 9]), V.gen_value(rng, 2, 3, False, V.STR_POOL, kinds="LD")])
            if ok:
                src, kind = {"t1_pickle": base64.b64encode(pickle.dumps(sv)).decode("ascii")}, "random_share/any/any"
                v1 = unshare(sv)
                ed = v1
                for _try in range(5):
                    w, k = io_edit(rng, v1)
                    if k is not None:
                        ed = w
                        break
                variants = [("same", rebuild(v1, rng)), ("self_copy", v1), ("edited", rebuild(unshare(ed), rng))]
        if src is None:
            baser, rec1, rec_less, kind = gen_inner(rng)
            src = {"base": baser, "t1_recipe": rec1}
            base = from_repr(baser)
            v1 = unshare(build_shared(base, rec1))
            variants = [("same", rebuild(v1, rng)), ("self_copy", v1), ("one_occurrence_less", rebuild(unshare(build_shared(base, rec_less)), rng))]
        for vk, t2 in (variants if rng.random() < 0.5 else rng.sample(variants, 2)):
            knobs = [dict(k, report_repetition=rp) for k in INNER_KNOBS for rp in REPS] + rng.sample(ALL_KNOBS, 4) + rng.sample(SHAPE_KNOBS, 1)
            res.append((src, repr(v1), repr(t2), kind + "/" + vk, inner_case(src, repr(t2), knobs)))
    return res


def check_inner(ctx, src, t1r, t2r, out):
    """the property on one (t1 with internal sharing, t2) pair for the evaluated knob settings"""
    t1v, t2v = from_repr(t1r), from_repr(t2r)
    verdicts = {}
    for kn, got, ctl, unmod in out:
        g = got if isinstance(got, bool) else RuntimeError(got)
        exp, case = oracle_case(t1v, t2v, kn, g)
        case.update(dict(src, internal=True))
        ctx.seen(("inner", repr(sorted(src.items())), t2r, sorted(kn.items())), nontrivial=True)
        if isinstance(g, Exception):
            _fail(ctx, "exception", case, "DeepDiff(ignore_order=True) raised on a t1 that references one container object several times: " + got)
        elif g != exp:
            _fail(ctx, "verdict", case, "t1 references one container object several times: ignore_order result is %s but the inputs are %s as nested %s" % (
                "empty" if g else "non-empty", "equal" if exp else "different", "multisets" if kn.get("report_repetition") else "sets"))
        elif got != ctl:
            _fail(ctx, "copy_differs", dict(case, unshared_verdict=ctl), "the verdict for a t1 that references one container object several times differs from the verdict for the value-identical unshared copy")
        if not unmod:
            _fail(ctx, "modified", case, "DeepDiff(ignore_order=True) modified its inputs (t1 with internal sharing)")
        verdicts.setdefault(kn.get("report_repetition", False), set()).add(got)
        ctx.count("inner:empty" if got is True else "inner:nonempty")
    for rep, vs in verdicts.items():
        if len(vs) > 1:
            _fail(ctx, "knob_dependence", dict(knob_case(t1v, t2v, rep, [(kn, got) for kn, got, _c, _u in out], internal=True,
                                                         copy_agrees=all(got == ctl for _k, got, ctl, _u in out)), t1=t1r, t2=t2r, **src),
                     "t1 references one container object several times: the empty/non-empty verdict depends on the pairing knobs")


def oracle_inner(ctx, pool, n_tasks, per_task):
    seeds = [ctx.rng.randrange(1 << 30) for _ in range(n_tasks)]
    npairs = 0
    for res in pool.map(_inner_task, [(sd, per_task) for sd in seeds], chunksize=1):
        for src, t1r, t2r, kind, out in res:
            npairs += 1
            ctx.count("inner:" + kind.split("/")[0])
            ctx.count("inner:t2_" + kind.rsplit("/", 1)[1])
            check_inner(ctx, src, t1r, t2r, out)
    ctx.count("inner:pairs", npairs)


def replay_witnesses(ctx):
    """the Coq _refuted witnesses on the implementation (an exception is a failing input, never a crash of the check)"""
    w = []

    def probe(name, t1, t2, stale_if_nonempty, detail, **kw):
        got = verdict(t1, t2, **kw)
        w.append(name)
        if isinstance(got, Exception):
            _fail(ctx, "exception", {"t1": repr(t1), "t2": repr(t2), "knobs": kw, "impl_empty": repr(got)}, "DeepDiff(ignore_order=True) raised %s on a theorem witness" % type(got).__name__)
        elif got is not stale_if_nonempty:
            ctx.break_("correspondence", {"name": name, "detail": detail})
    probe("C05_verdict_tag_refuted([None] vs ['NONE'])", [None], ["NONE"], True,
          "[None] vs ['NONE'] is now reported as different: the model (K1 collision) is stale")
    probe("C05_tag_collision_knob_refuted([{'NONE'}] vs [{None,'NONE'}], report_repetition, paired)", [{"NONE"}], [{None, "NONE"}], True,
          "[{'NONE'}] vs [{None,'NONE'}] with report_repetition is now reported as different with the default knobs: the model (K1 collision inside _diff_set) is stale",
          report_repetition=True)
    probe("C05_tag_collision_knob_refuted([{'NONE'}] vs [{None,'NONE'}], report_repetition, max_passes=0)", [{"NONE"}], [{None, "NONE"}], False,
          "[{'NONE'}] vs [{None,'NONE'}] with report_repetition is now reported as equal without pairing: the model (colliding member hashes counted) is stale",
          report_repetition=True, max_passes=0)
    probe("C05_tag_collision_knob_refuted([{'NONE'}] vs [{None,'NONE'}], sets)", [{"NONE"}], [{None, "NONE"}], True,
          "[{'NONE'}] vs [{None,'NONE'}] is now reported as different as nested sets: the model (K1 collision) is stale", max_passes=0)
    probe("C05_verdict_alias_refuted([1] vs [1.0], shared hashes table)", [1], [1.0], True,
          "[1] vs [1.0] is now reported as different: the memo-threading model (table keyed by ==) is stale")
    probe("C05_verdict_key_alias_refuted({1:'a'} vs {1.0:'a'})", {1: "a"}, {1.0: "a"}, True,
          "{1:'a'} vs {1.0:'a'} is now reported as different: the model (keys matched by ==) is stale")
    probe("C05_bool_alias_knob_refuted([{True:'a'}] vs [{1:'a'}], paired)", [{True: "a"}], [{1: "a"}], True,
          "[{True:'a'}] vs [{1:'a'}] is now reported as different with the default knobs: the model (BoolObj in the table, == on dict keys) is stale")
    probe("C05_bool_alias_knob_refuted([{True:'a'}] vs [{1:'a'}], max_passes=0)", [{True: "a"}], [{1: "a"}], False,
          "[{True:'a'}] vs [{1:'a'}] is now reported as equal without pairing: the model is stale", max_passes=0)
    for rp in REPS:
        probe("C05_alias_family_refuted([{'x':1}] vs [{'x':1.0}], rep=%s)" % rp, [{"x": 1}], [{"x": 1.0}], True,
              "[{'x':1}] vs [{'x':1.0}] is now reported as different: the memo-threading model is stale", report_repetition=rp)
        probe("C05_alias_family_refuted([(1,'a')] vs [(True,'a')], rep=%s)" % rp, [(1, "a")], [(True, "a")], True,
              "[(1,'a')] vs [(True,'a')] is now reported as different: the memo-threading model is stale", report_repetition=rp)
        probe("C05_verdict_relation_exact({'x':1} vs {'x':1.0}, rep=%s)" % rp, {"x": 1}, {"x": 1.0}, False,
              "{'x':1} vs {'x':1.0} is now reported as equal: the model (scalars under dicts keep their type) is stale", report_repetition=rp)
    probe("C05_alias_family_refuted([1,1.0] vs [1,1], report_repetition)", [1, 1.0], [1, 1], True,
          "[1,1.0] vs [1,1] is now reported as different with report_repetition: the memo-threading model is stale", report_repetition=True)
    ex1, ex2 = [1, [2.0, 3], {2: {5.0, 7}}], [{2.0: {7.0, 5}}, [3.0, 2], 1.0, 1]
    probe("C05_shared_table_guards_satisfiable(sets)", ex1, ex2, True, "the aliasing example is no longer equal as nested sets modulo ==")
    probe("C05_shared_table_guards_satisfiable(multisets)", ex1, ex2, False, "the aliasing example is no longer different as nested multisets",
          report_repetition=True)
    d = {"a": 1, "b": 2}
    probe("C05_threshold_above_one_refuted({'a':1,'b':2} vs itself, threshold 2)", d, dict(d), False,
          "threshold_to_diff_deeper=2 no longer reports equal dicts as changed", threshold_to_diff_deeper=2)
    ctx.note("refuted_witnesses_replayed", w)


# ---------------------------------------------------------------------------
# source tie `iopairs`: hook of core.source_tie_step
# ---------------------------------------------------------------------------

TIE_PAIRS = []      # concrete (t1, t2) on which the regenerated selection deviates: head of the correspondence and of the oracle grid

# pairing-rich inputs: several candidates per item, equal distances, more added than removed and vice versa, nested levels
TIE_INPUTS = [
    ([[1, 2, 3], [1, 2, 4]], [[1, 2, 5]]),
    ([[1, 2, 5]], [[1, 2, 3], [1, 2, 4]]),
    ([[1, 2, 3, 4], [5, 6, 7, 8]], [[5, 6, 7, 10], [1, 2, 3, 9]]),
    ([[1, 2, 3, 4], [1, 2, 3, 5], [1, 2, 3, 6]], [[1, 2, 3, 7], [1, 2, 3, 8]]),
    ([[1, 2, 3, 7], [1, 2, 3, 8]], [[1, 2, 3, 4], [1, 2, 3, 5], [1, 2, 3, 6]]),
    ([{"a": 1, "b": 2, "c": 3}, {"a": 1, "b": 2, "c": 4}, 7], [{"a": 1, "b": 2, "c": 5}, 7, {"a": 1, "b": 9, "c": 9}]),
    ([[1, 2, 3, 4, 5, 6], [10, 11, 12], [20, 21, 22, 23], "x"], [[20, 21, 22, 24], [1, 2, 3, 4, 5, 7], "x", [10, 11, 13], [30, 31]]),
    ([[[1, 2, 3], [4, 5, 6]], [[7, 8, 9], [1, 1, 2]]], [[[7, 8, 0], [1, 1, 2]], [[1, 2, 3], [4, 5, 0]]]),
    ([(1, 2, 3), (1, 2, 4), (9, 9, 9)], [(1, 2, 5), (1, 2, 6), (9, 9, 8)]),
    ([{1, 2, 3}, {1, 2, 4}], [{1, 2, 5}, {1, 2, 6}, {1, 2, 7}]),
    ([[1, 2, 3], [1, 2, 3], [1, 2, 4]], [[1, 2, 5], [1, 2, 5], [1, 2, 6], [1, 2, 6]]),
]
TIE_KNOBS = [dict(), dict(cutoff_distance_for_pairs=1, cutoff_intersection_for_pairs=1), dict(report_repetition=True, cutoff_intersection_for_pairs=1),
             dict(cutoff_distance_for_pairs=0.05, cutoff_intersection_for_pairs=1)]

_tie_tls = threading.local()


def float_bits(x):
    """the IEEE bit pattern of a non-negative distance as an int: orders like the float"""
    import struct
    f = float(x)
    if f != f or f < 0:
        return None
    return struct.unpack(">q", struct.pack(">d", f + 0.0))[0]


def install_tie_recorder():
    """every call of _get_most_in_common_pairs_in_iterables (root and nested instances) made while a recording is active in this
    thread: hashes_added, hashes_removed, the cut-off, every rough distance it obtained (computed, cached or pre-calculated by numpy),
    the returned dictionary"""
    from deepdiff.diff import DeepDiff
    if getattr(DeepDiff, "_verif_tie_recorder", False):
        return
    orig_pairs = DeepDiff._get_most_in_common_pairs_in_iterables
    orig_dist = DeepDiff._get_rough_distance_of_hashed_objs
    orig_pre = getattr(DeepDiff, "_precalculate_numpy_arrays_distance", None)

    def w_pairs(self, hashes_added, hashes_removed, *a, **k):
        st = getattr(_tie_tls, "stack", None)
        if st is None:
            return orig_pairs(self, hashes_added, hashes_removed, *a, **k)
        node = {"added": list(hashes_added), "removed": list(hashes_removed), "cutoff": self.cutoff_distance_for_pairs, "dist": {}, "pre": {}}
        st.append(node)
        try:
            out = orig_pairs(self, hashes_added, hashes_removed, *a, **k)
            node["items"] = list(out.items())
            _tie_tls.calls.append(node)
            return out
        finally:
            st.pop()

    def w_dist(self, added_hash, removed_hash, *a, **k):
        out = orig_dist(self, added_hash, removed_hash, *a, **k)
        st = getattr(_tie_tls, "stack", None)
        if st:
            st[-1]["dist"][(added_hash, removed_hash)] = out
        return out

    def w_pre(self, *a, **k):
        out = orig_pre(self, *a, **k)
        st = getattr(_tie_tls, "stack", None)
        if st and out:
            st[-1]["pre"] = dict(out)
        return out
    DeepDiff._get_most_in_common_pairs_in_iterables = w_pairs
    DeepDiff._get_rough_distance_of_hashed_objs = w_dist
    if orig_pre is not None:
        DeepDiff._precalculate_numpy_arrays_distance = w_pre
    DeepDiff._verif_tie_recorder = True


def tie_record(t1, t2, **kw):
    """-> (recorded pairs calls, exception or None)"""
    from deepdiff import DeepDiff
    install_tie_recorder()
    _tie_tls.stack, _tie_tls.calls = [], []
    err = None
    try:
        DeepDiff(copy.deepcopy(t1), copy.deepcopy(t2), ignore_order=True, **kw)
    except Exception as e:  # noqa
        err = repr(e)
    finally:
        calls = _tie_tls.calls
        _tie_tls.stack = None
        _tie_tls.calls = None
    return calls, err


def _tie_call_case(n):
    """one recorded call as a Coq `tie_case` expression (None when it has nothing to select from / a distance is not a number)"""
    adds, rems = n["added"], n["removed"]
    if not adds or not rems or "items" not in n:
        return None
    num = {h: k for k, h in enumerate(adds + [r for r in rems if r not in adds])}
    tab = []
    for a in adds:
        for r in rems:
            d = n["dist"].get((a, r))
            if d is None:
                d = n["pre"].get("{}--{}".format(a, r))
            if d is None:
                continue
            b = float_bits(d)
            if b is None:
                return None
            tab.append("(%d, %d, %d)" % (num[a], num[r], b))
    cut = float_bits(n["cutoff"])
    if cut is None or any(k not in num or v not in num for k, v in n["items"]):
        return None
    zl = lambda l: core.coq_list("%d" % num[h] for h in l)     # noqa
    return "tie_case g__get_most_in_common_pairs_in_iterables %d %s %s %s %s" % (
        cut, zl(adds), zl(rems), core.coq_list(tab), core.coq_list("(%d, %d)" % (num[k], num[v]) for k, v in n["items"]))


def _tie_coq(ctx, name, body):
    """compile one differencing file against the REGENERATED model of this run; returns the text between BEGIN / END or None"""
    import os
    import re
    gen_dir = os.path.join(ctx.scratch, "srctie")
    fn = os.path.join(gen_dir, name + ".v")
    with open(fn, "w") as f:
        f.write("From Coq Require Import List String ZArith NArith Bool.\nImport ListNotations.\n"
                "From DD Require Import Base.Sx DiffIO.MemoPairs DiffIO.DiffIOSelect DiffIO.DiffIOSelectShow.\n"
                "From DDGen Require Import DiffIOGen.\nLocal Open Scope Z_scope.\n" + body)
    rc, out = core.sh(["coqc", "-Q", core.THEORIES, "DD", "-Q", gen_dir, "DDGen", fn], timeout=900, cwd=gen_dir)
    m = re.search(r'"BEGIN\n(.*)END"', out, re.S)
    if rc != 0 or not m:
        return None, out[-800:]
    return m.group(1).replace('""', '"'), None


def on_source_tie_break(ctx, name, rec):
    """core.source_tie_step calls this when the tie `iopairs` is not intact.  Search for a concrete input:
    (1) the implementation's _get_most_in_common_pairs_in_iterables is RECORDED (hashes, every rough distance, the returned
        dictionary; root and nested instances) on pairing-rich inputs (TIE_INPUTS, the module's near-duplicate record lists and
        generated pairs, four knob settings);
    (2) inside Coq, against the regenerated model: on every recorded distance table the generated selection must equal the hand
        model's `select`, reproduce the recorded dictionary, and satisfy the hand predicate (symmetric partial injection between
        added and removed hashes below the cut-off); plus a bounded-exhaustive sweep over all 2x3 / 3x2 / 3x3 distance tables;
    (3) every input with a deviating call goes to TIE_PAIRS: run() puts those at the head of the full-result correspondence
        (model with the recorded pairings vs implementation, recorded pairings valid) and of the direct oracle (verdict =
        specification under the whole knob product, no exception, knob independence), where they are judged like any case."""
    import os
    out = {"tie_status": rec.get("status")}
    gen_vo = os.path.join(ctx.scratch, "srctie", "DiffIOGen.vo")
    if rec.get("status") in ("translator-rejected", "generated-model-does-not-compile") or not os.path.exists(gen_vo):
        out["searched"] = ("nothing inside Coq: no generated model to evaluate (%s); the full-result correspondence and the oracle streams of this run "
                           "use their thorough-size budgets and the pairing-rich inputs are added to both" % rec.get("status"))
        TIE_PAIRS.extend(TIE_INPUTS)
        return out
    rc, blog = core.build_coq(target="theories/DiffIO/DiffIOSelectShow.vo")
    if rc != 0:
        out["searched"] = "nothing: DiffIOSelectShow.v does not build: " + blog[-300:]
        TIE_PAIRS.extend(TIE_INPUTS)
        return out
    rng = random.Random(50505)
    inputs = list(TIE_INPUTS)
    for _ in range(10):        # near-duplicate record lists with two or three edits: several added and removed items per level
        base = big_near_dups(rng)
        other = rebuild(base, rng)
        for _e in range(rng.choice([2, 3])):
            other = io_edit(rng, other)[0]
        inputs.append((base, other))
    while len(inputs) < len(TIE_INPUTS) + 30:
        a, b, _k = gen_pair(rng, alias=False, depth=3)
        inputs.append((a, b))
    cases, owner, errors = [], [], []
    for idx, (a, b) in enumerate(inputs):
        for kn in TIE_KNOBS:
            calls, err = tie_record(a, b, **kn)
            if err:
                errors.append((idx, kn, err))
            for n in calls:
                e = _tie_call_case(n)
                if e is not None:
                    cases.append(e)
                    owner.append((idx, kn, len(n["added"]), len(n["removed"])))
    out["inputs_recorded"] = len(inputs)
    out["pairs_calls_recorded"] = len(cases)
    out["implementation_raised_on"] = len(errors)
    body = ("Local Open Scope string_scope.\nDefinition cases : list (sx * sx) := [\n%s\n].\nEval vm_compute in run_cases cases.\n"
            % ";\n".join('(%s,\n SL [SA "T"; SA "T"; SA "T"; SA "T"])' % e for e in cases))
    syn = ("Local Open Scope string_scope.\nEval vm_compute in (\"BEGIN\" ++ nl ++ show_sx (SL ["
           "sx_synthetic g__get_most_in_common_pairs_in_iterables 4%Z [0; 1]%Z [10; 11; 12]%Z [1; 2; 4]%Z; "
           "sx_synthetic g__get_most_in_common_pairs_in_iterables 4%Z [0; 1; 2]%Z [10; 11]%Z [1; 4; 5]%Z; "
           "sx_synthetic g__get_most_in_common_pairs_in_iterables 4%Z [0; 1; 2]%Z [10; 11; 12]%Z [1; 5]%Z; "
           "sx_decision g__diff_iterable_with_deephash_pairs]) ++ nl ++ \"END\").\n")
    from concurrent.futures import ThreadPoolExecutor
    with ThreadPoolExecutor(max_workers=2) as ex:
        (ra, ea), (rb, eb) = ex.map(lambda x: _tie_coq(ctx, *x), [("search_recorded", body), ("search_synthetic", syn)])
    out["synthetic_tables(2x3,3x2 over 3 distances incl. one equal to the cut-off; 3x3 over 2): [#generated<>hand, first, #predicate fails, first, witness]; "
        "pairs decision: [settings (cutoff_intersection, max_passes, pass counter, #added, #removed) enumerated, #generated<>hand, first]"] = \
        rb.strip() if rb is not None else "the differencing file did not compile against the regenerated model: " + str(eb)
    import re as _re
    m_dec = _re.search(r"\((\d+) (\d+) \([^()]*(?:\([^()]*\)[^()]*)*\)\)\)\s*$", rb.strip()) if rb is not None else None
    decision_differs = bool(m_dec and int(m_dec.group(2)) > 0)
    out["pairs_decision_differs"] = decision_differs if rb is not None else "unknown"
    hit = []
    if ra is None:
        out["recorded_search"] = "the differencing file did not compile against the regenerated model: " + str(ea)
        hit = [i for i, _k, _e in errors]
    else:
        devs = []
        for line in ra.splitlines():
            if line.strip():
                i, _, txt = line.partition("\t")
                devs.append((int(i), txt))
        out["recorded_calls_deviating"] = len(devs)
        out["deviations(first 5): [generated=hand, generated=recorded, predicate(generated), predicate(recorded)]"] = [
            {"input": [repr(x) for x in inputs[owner[i][0]]], "knobs": owner[i][1], "added": owner[i][2], "removed": owner[i][3], "flags": txt}
            for i, txt in devs[:5]]
        hit = [owner[i][0] for i, _t in devs] + [i for i, _k, _e in errors]
    seen_ = set()
    for i in hit:
        if i not in seen_:
            seen_.add(i)
            TIE_PAIRS.append(inputs[i])
    if decision_differs or rb is None:
        # the decision whether pairs are computed deviates: the pairing-rich inputs go through every full-result knob setting
        # (pairing off by max_passes=0 / cutoff_intersection_for_pairs=0, one or two passes, both cut-offs at 1)
        for pr in TIE_INPUTS[:8]:
            if pr not in TIE_PAIRS:
                TIE_PAIRS.append(pr)
    del TIE_PAIRS[12:]
    out["inputs_fed_to_correspondence_and_oracle"] = [[repr(a), repr(b)] for a, b in TIE_PAIRS]
    if not TIE_PAIRS:
        out["searched"] = ("%d recorded pairs calls on %d inputs and the bounded-exhaustive tables: the regenerated selection and the hand model "
                           "agree on all of them; thorough-size budgets for this run" % (len(cases), len(inputs)))
    return out


def run(ctx):
    rng = ctx.rng
    sys.setrecursionlimit(10000)
    escalate = ctx.thorough or ctx.tie_broken("iopairs")       # a broken source tie: thorough-size budgets for the streams that exercise the pairing
    n_full = 160 if escalate else 17
    n_grid = 60 if escalate else 5
    n_rand = 1500 if escalate else 180
    replay_witnesses(ctx)
    gen = []
    while len(gen) < n_full + n_rand:
        t1, t2, kinds = gen_pair(rng, alias=False, depth=rng.choice([2, 3, 3, 4]))
        if V.contains_alias(t1, t2):
            continue
        gen.append((t1, t2, kinds))
    for t1, t2, kinds in gen:
        for k in kinds or ["shuffle_only"]:
            ctx.count("edit:" + k.split(":")[0])
    full = list(FIXED_PAIRS) + [(a, b) for a, b, _k in gen[:n_full]]
    full += [p for p in TIE_PAIRS]      # inputs found by on_source_tie_break (empty unless the source tie is broken)
    # inputs with ==-aliasing atoms: only the memo-threading model describes them
    alias_full = [(a, b) for a, b in FIXED_FINDINGS if V.contains_alias(a, b)] + list(ALIAS_FIXED)
    n_fixed_alias = len(alias_full)
    while len(alias_full) < n_fixed_alias + (48 if ctx.thorough else 6):
        a, b, _k = gen_pair(rng, alias=True, depth=rng.choice([2, 3]))
        if len(alias_full) % 2:
            a, b = debool(a), debool(b)
        if V.contains_alias(a, b):
            alias_full.append((a, b))
    full += alias_full
    specials = special_pairs(rng, 24 if ctx.thorough else 4)
    full += specials          # pairs with ==-aliasing atoms are compared with the memo-threading model
    bools = bool_pairs(rng, 60 if ctx.thorough else 14)
    full += bools[:(20 if ctx.thorough else 4)]
    # one list / dict object at two positions of t1 (or t2) in ~13 % of the generated pairs: the model gets the unfolded tree
    cand = list(range(len(FIXED_PAIRS), len(full)))
    rng.shuffle(cand)
    n_sh, want = 0, max(3, int(0.13 * len(full)))
    for i in cand:
        if n_sh >= want:
            break
        a, b = full[i]
        for side in rng.sample([0, 1], 2):
            x2, ok = V.share(rng, (a, b)[side])
            if ok:
                full[i] = (x2, b) if side == 0 else (a, x2)
                n_sh += 1
                break
    for a, b in full[:2] + full[len(FIXED_PAIRS):len(FIXED_PAIRS) + 2]:
        ctx.sample({"t1": repr(a), "t2": repr(b)})
    import time as _time
    phase, t_last = {}, [_time.time()]

    def lap(name):
        now = _time.time()
        phase[name] = round(now - t_last[0], 1)
        t_last[0] = now
    with mp.get_context("fork").Pool(core.NCPU) as pool:
        correspondence(ctx, full, pool)
        lap("correspondence")
        # --- direct oracle: the complete knob product on some pairs, a random slice of it on many
        jobs = [(a, b, ALL_KNOBS) for a, b in list(TIE_PAIRS) + FIXED_PAIRS[:4] + [(x, y) for x, y, _k in gen[:n_grid]]]
        for a, b, _k in gen[n_grid:]:
            jobs.append((a, b, rng.sample(ALL_KNOBS, 24) + rng.sample(SHAPE_KNOBS, 2)))
        # guard-boundary inputs (aliasing atoms, tag-like strings): every failure must be a known finding
        for a, b in FIXED_FINDINGS + FIXED_TIMES:
            jobs.append((a, b, rng.sample(ALL_KNOBS, 12)))
        thr1 = [k for k in ALL_KNOBS if k["threshold_to_diff_deeper"] == 1]
        for a, b in specials + special_pairs(rng, 40 if ctx.thorough else 10):
            jobs.append((a, b, rng.sample(ALL_KNOBS, 10) + rng.sample(thr1, 4) + [dict(threshold_to_diff_deeper=1.0), dict(threshold_to_diff_deeper=1.0, report_repetition=True)]))
        for a, b in bools + [([[1, True, 5], 9], [[1, 5], 9]), ([[True, 1, 5], 9], [9, [5, 1, True]]), ([{"k": [0, False]}, 3], [3, {"k": [False]}])]:
            jobs.append((a, b, [dict(), dict(max_passes=0), dict(cutoff_intersection_for_pairs=0), dict(report_repetition=True)] + rng.sample(ALL_KNOBS, 6)))
        ctx.count("oracle:bool_next_to_equal_number_pairs", len(bools) + 3)
        n_alias = 0
        while n_alias < (300 if ctx.thorough else 60):
            a, b, _k = gen_pair(rng, alias=True, depth=3)
            if n_alias % 3:                   # two thirds without bools: inside the guard of C05_verdict_shared_table_partial
                a, b = debool(a), debool(b)
            if V.contains_alias(a, b):
                n_alias += 1
                jobs.append((a, b, rng.sample(ALL_KNOBS, 8)))
        ctx.count("oracle:alias_pairs", n_alias)
        for a, b in K1_KNOB_PAIRS:
            jobs.append((a, b, K1_KNOB_SETTINGS))
        oracle_grid(ctx, jobs, pool)
        lap("oracle_grid")
        # --- objects shared across t1 and t2 (t2 built from pieces of t1 by reference)
        oracle_shared(ctx, pool, core.NCPU, 40 if ctx.thorough else 8)
        lap("oracle_shared")
        # --- one container object at several positions INSIDE t1 (t2 fresh)
        oracle_inner(ctx, pool, core.NCPU, 36 if ctx.thorough else 8)
        lap("oracle_inner")
    ctx.note("phase_wall_s", phase)
    ctx.note("knob_product", {"cutoff_distance_for_pairs": CUT_DIST, "cutoff_intersection_for_pairs": CUT_INTER, "max_passes": MAX_PASSES,
                              "cache_size": CACHE, "threshold_to_diff_deeper": THRS, "report_repetition": REPS, "size": len(ALL_KNOBS)})


def replay(ctx, data):
    case = data.get("case", {})
    if "t1" not in case:
        return run(ctx)
    if case.get("internal"):
        knobs = [case["knobs"]] if "knobs" in case else ([kn for kn, _g in case["knob_verdicts"]] if case.get("knob_verdicts") else [dict(k, report_repetition=rp) for k in INNER_KNOBS for rp in REPS])
        src = {k: case[k] for k in ("base", "t1_recipe", "t1_pickle") if k in case}
        out = inner_case(src, case["t2"], knobs)
        for kn, got, ctl, _u in out:
            ctx.evaluations += 1
            print("replay (t1 references one container object several times): t1=%s t2=%s knobs=%r -> shared %s, unshared copy %s" % (case["t1"], case["t2"], kn, got, ctl))
        check_inner(ctx, src, case["t1"], case["t2"], out)
        return
    if case.get("shared"):
        knobs = [case["knobs"]] if "knobs" in case else ([kn for kn, _g in case["knob_verdicts"]] if case.get("knob_verdicts") else [dict(k, report_repetition=rp) for k in SHARED_KNOBS for rp in REPS])
        t2v = from_repr(case["t2"])
        vs = {}
        sout = shared_case(case["t1"], case["t2_recipe"], knobs)
        for kn, got, ref, unmod in sout:
            ctx.evaluations += 1
            print("replay (t2 shares objects with t1): knobs=%r -> shared %s, deep-copied %s" % (kn, got, ref))
            g = got if isinstance(got, bool) else RuntimeError(got)
            exp, c2 = oracle_case(from_repr(case["t1"]), t2v, kn, g)
            c2.update({"t2_recipe": case["t2_recipe"], "shared": True})
            if isinstance(g, Exception) or g != exp:
                _fail(ctx, "verdict", c2, "t2 re-uses objects of t1: ignore_order verdict is wrong (%s, specification says %s)" % (got, "empty" if exp else "non-empty"))
            elif got != ref:
                _fail(ctx, "copy_differs", c2, "the verdict for t2 sharing objects with t1 differs from the verdict for a deep copy of the same values")
            vs.setdefault(kn.get("report_repetition", False), set()).add(got)
        for rep, s_ in vs.items():
            if len(s_) > 1:
                _fail(ctx, "knob_dependence", knob_case(from_repr(case["t1"]), t2v, rep, [(kn, got) for kn, got, _r, _u in sout], t2_recipe=case["t2_recipe"],
                          shared=True, copy_agrees=all(got == ref for _k, got, ref, _u in sout)),
                      "t2 re-uses objects of t1: the empty/non-empty verdict depends on the pairing knobs")
        return
    t1, t2 = from_repr(case["t1"]), from_repr(case["t2"])
    # a knob_dependence record carries the settings it was observed under: those are replayed; otherwise the whole product
    knobs = [case["knobs"]] if "knobs" in case else ([kn for kn, _g in case["knob_verdicts"]] if case.get("knob_verdicts") else ALL_KNOBS)
    out = []
    for kn in knobs:
        got = verdict(t1, t2, **kn)
        out.append((kn, _enc(got)))
        ctx.evaluations += 1
        print("replay: t1=%r t2=%r knobs=%r -> %s" % (t1, t2, kn, "empty" if got is True else ("non-empty" if got is False else repr(got))))
        check_verdict(ctx, t1, t2, kn, got)
    if "knobs" not in case:
        for rep in REPS:
            if len({g for kn, g in out if bool(kn.get("report_repetition", False)) == rep}) > 1:
                _fail(ctx, "knob_dependence", knob_case(t1, t2, rep, out,
                          alias_blind_equal=alias_blind(t1, rep) == alias_blind(t2, rep),
                          bool_blind_equal=bool_blind(t1, rep) == bool_blind(t2, rep)),
                      "the empty/non-empty verdict depends on the pairing knobs")

"""C13 - exclude_paths / exclude_regex_paths / include_paths act as pure filters.

proof:           coq/theories/Filter/*.v, Properties/C13.v
correspondence:  generated pairs x path filters built from every position of either
                 input (literal singletons / sets of <= 3, anchored and sibling-class
                 regexes, SETS of regexes mixing plain strings and pre-compiled patterns
                 with flags, literal + regex together, include_paths, un-rooted spellings)
                 x the object-dependent branches of _skip_this (exclude_types, the four
                 callbacks) alone and combined with a path option x every accepted
                 argument shape (list / tuple / set / bare item) x positional / default
                 mode x threshold 0 / 0.33 / 0.9: the full tree-view observable of the
                 filtered run against the model `run_full` (the options stay strings in
                 the model; the `re` engine and the callbacks enter as truth tables).
                 Pairs on the boundaries of the input-level guards (shortcut ratio at the
                 threshold +-1 key; one container among atoms in a sequence; sibling keys
                 differing only in case).  The exact characterisation
                 C13_exclude_threshold_exact is OBSERVED: in positional mode the filter
                 equation holds on the implementation iff the guard (re-stated on Python
                 values) holds - a disagreement is a correspondence break.
direct oracle:   set algebra on the implementation's own results, no model:
                 (a) tree view: filtered == [e in unrestricted | no prefix of e.path excluded]
                     resp. [e | e.path at/below/above an included path]
                 (b) text view (verbose_level=2): the same with string prefixes
                 (c) independence: rewriting / deleting the content under an excluded
                     path leaves the (kind, path) list of the filtered result unchanged
"""
import ast
import copy
import json
import multiprocessing as mp
import random
import re
import sys
import time

from harness import core, values as V, diffcommon as D

THEOREM_FILE = "Properties/C13.v"
COQCHK = ["Properties.C13"]
RULE = ("a case = (t1, t2, filter option(s) incl. object-dependent options and argument shapes, mode, threshold); t1 random nested value (depth<=3, width<=4, dict keys of every "
        "hashable atom type except bytes), t2 an edit script of 1-3 edits of t1 or an independent value; the filter paths are "
        "drawn from the positions of t1 and t2 (every depth, keys and indexes); non-trivial = the filter removed at least one "
        "entry of the unrestricted result and kept at least one; distinct = distinct (t1, t2, options)")
TRUSTED = ["the `re` engine is an oracle: the harness evaluates the patterns on the rendered string of every position and hands "
           "the model the truth table",
           "DeepHash-side exclusion of set members (deephash.py:378-396: _skip_this on the pseudo-path <set path>[iteration index], "
           "consulted only for members that are not memoised yet) is modelled for exclude_paths / exclude_regex_paths with a memo table "
           "per compared pair of sets (diffh / run_filtered_h, compared in every case); the table shared by the whole run is not threaded "
           "through the model: hit cases where an atom is a member of two compared pairs, and members dropped by include_paths "
           "(startswith test), are kept out of the correspondence, counted, and judged by the direct oracle only (known finding K13c)",
           "exclude_types / exclude_obj_callback(_strict) / include_obj_callback(_strict) ARE in the model (Filter/FilterModelV.v, run_full); "
           "callbacks are oracles value -> bool: the generated callbacks ignore their path argument and answer False on notpresent, "
           "the model gets their truth table over every sub-value occurrence of the two inputs; the DeepHash side of exclude_types / "
           "exclude_obj_callback on set members is not modelled separately (a member dropped there is also dropped by the report-side test)"]
ASSUMPTIONS = ["inputs without cycles (a container referenced from several positions is generated on purpose: the result must be that of the unshared value), no bytes dict keys (the path printer raises on them)",
               "no two ==-equal set members of different type, no set member str containing ':' or equal to 'NONE' (C06/C07 findings)"]

HDR = ("From DD Require Import Base.PyStr Base.Value Diff.Tree Diff.DiffModel Diff.DiffShow "
       "Path.PathModel Filter.FilterModel Filter.FilterModelV Filter.FilterShow.")

THRS = (0, 0.33, 0.9)
EXTRA_STR = ["a\nb", "__p", "it's", 'q"t', "root[0]", "a']['b", "xroot[1]", "root"]


# --------------------------------------------------------------------------
# paths: canonical lists [["x", i] | ["k", canon_atom]] (harness.diffcommon)
# --------------------------------------------------------------------------

def cpositions(v, path=()):
    yield list(path)
    if isinstance(v, (list, tuple)):
        for i, x in enumerate(v):
            yield from cpositions(x, path + (["x", i],))
    elif isinstance(v, dict):
        for k, x in v.items():
            yield from cpositions(x, path + (["k", V.canon_atom(k)],))


def render_elem(e):
    """what DiffLevel.path() appends for one level (independent re-statement of
    stringify_param / stringify_element with quote_str="'{}'")"""
    if e[0] == "x":
        return "[%d]" % e[1]
    k = D.uncanon_atom(e[1])
    if isinstance(k, str):
        if "'" in k:
            return '["%s"]' % k
        return "['%s']" % k
    return "[%s]" % repr(k)


def render(cp):
    return "root" + "".join(render_elem(e) for e in cp)


def is_prefix(q, p):
    return len(q) <= len(p) and p[:len(q)] == q


def all_positions(t1, t2):
    seen, out = set(), []
    for t in (t1, t2):
        for p in cpositions(t):
            key = json.dumps(p)
            if key not in seen:
                seen.add(key)
                out.append(p)
    return out


def rooted(s):
    """add_root_to_paths, as the documentation describes it"""
    if s.startswith("root"):
        return [s]
    if s.isdigit():
        return ["root['%s']" % s, "root[%s]" % s]
    if s[0].isdigit():
        return ["root['%s']" % s]
    return ["root.%s" % s, "root['%s']" % s]


# --------------------------------------------------------------------------
# the object-dependent branches of _skip_this: exclude_types, exclude_obj_callback(_strict),
# include_obj_callback(_strict).  Callbacks are JSON-able specs (replayable); they ignore the
# path argument and answer False on notpresent - the model gets their truth table over every
# sub-value occurrence of the two inputs.
# --------------------------------------------------------------------------

TYPES = {"int": (int, "TInt"), "float": (float, "TFloat"), "str": (str, "TStr"), "bool": (bool, "TBool"),
         "NoneType": (type(None), "TNone"), "list": (list, "TList"), "tuple": (tuple, "TTuple"),
         "dict": (dict, "TDict"), "set": (set, "TSet"), "frozenset": (frozenset, "TFrozen"), "bytes": (bytes, "TBytes")}
VALUE_KEYS = ("ty", "cb", "cbs", "icb", "icbs")
CB_ARGS = {"cb": "exclude_obj_callback", "cbs": "exclude_obj_callback_strict",
           "icb": "include_obj_callback", "icbs": "include_obj_callback_strict"}
CONTAINERS = (list, tuple, dict, set, frozenset)


def cb_eval(spec, obj):
    kind = spec[0]
    if kind == "vals":
        try:
            return V.canon(obj) in spec[1]
        except (TypeError, AssertionError):
            return False
    if kind == "str_has":
        return isinstance(obj, str) and spec[1] in obj
    if kind == "int_mod":
        return type(obj) is int and obj % spec[1] == spec[2]
    if kind == "num_ge":
        return type(obj) in (int, float) and obj >= spec[1]
    if kind == "len_ge":
        return isinstance(obj, CONTAINERS) and len(obj) >= spec[1]
    if kind == "cont_or":
        return isinstance(obj, CONTAINERS) or cb_eval(spec[1], obj)
    raise ValueError(spec)


def make_cb(spec):
    np_ = D.notpresent()

    def f(obj, path=None):
        if obj is np_:
            return False
        return bool(cb_eval(spec, obj))
    return f


def subvalues(v):
    """every occurrence of a sub-value that can be an object of a level (dict keys never are)"""
    yield v
    if isinstance(v, (list, tuple)):
        for x in v:
            yield from subvalues(x)
    elif isinstance(v, dict):
        for x in v.values():
            yield from subvalues(x)
    elif isinstance(v, (set, frozenset)):
        for x in v:
            yield x


def cb_table(spec, a, b):
    """the truth table of a callback: Coq terms of the sub-value occurrences it accepts"""
    seen, out = set(), []
    for t in (a, b):
        for v in subvalues(t):
            if cb_eval(spec, v):
                c = V.to_coq(v)
                if c not in seen:
                    seen.add(c)
                    out.append(c)
    return out


def crx(r):
    """one element of exclude_regex_paths: a pattern string, or [pattern, flags] = a PRE-COMPILED pattern
    re.compile(pattern, flags) - every pattern means what it says, with its own flags"""
    return re.compile(r) if isinstance(r, str) else re.compile(r[0], r[1])


def value_opts(opt):
    return {k: opt[k] for k in VALUE_KEYS if opt.get(k)}


# --------------------------------------------------------------------------
# the specification of the three options on key sequences
# --------------------------------------------------------------------------

class Spec:
    """which entries of the unrestricted result a filter option must keep"""

    def __init__(self, P, ex=(), rx=(), inc=()):
        self.P = P
        self.rend = {json.dumps(p): render(p) for p in P}
        exs = set(s for a in ex for s in rooted(a))
        incs = set(s for a in inc for s in rooted(a))
        self.ex_paths = [p for p in P if self.rend[json.dumps(p)] in exs]
        self.inc_paths = [p for p in P if self.rend[json.dumps(p)] in incs]
        self.inc_given = bool(inc)
        self.rxs = [crx(r) for r in rx]
        self.rx_hit = {}

    def rx_match(self, p):
        key = json.dumps(p)
        if key not in self.rx_hit:
            s = self.rend.get(key) or render(p)
            self.rx_hit[key] = any(r.search(s) for r in self.rxs)
        return self.rx_hit[key]

    def excluded(self, p):
        """p is at or below an excluded path"""
        if any(is_prefix(q, p) for q in self.ex_paths):
            return True
        if self.rxs:
            return any(self.rx_match(p[:n]) for n in range(len(p) + 1))
        return False

    def included(self, p):
        if not self.inc_given:
            return True
        return any(is_prefix(q, p) or is_prefix(p, q) for q in self.inc_paths)

    def keep(self, p):
        return (not self.excluded(p)) and self.included(p)

    def rx_table(self):
        return [p for p in self.P if self.rxs and self.rx_match(p)]


# --------------------------------------------------------------------------
# running the implementation
# --------------------------------------------------------------------------

SHAPES = ("list", "list", "tuple", "set", "bare")


def shaped(items, shape):
    """every accepted shape of a path / regex / type argument: list, tuple, set, or the bare item when there is one"""
    items = list(items)
    if shape == "bare" and len(items) == 1:
        return items[0]
    if shape == "tuple":
        return tuple(items)
    if shape == "set":
        try:
            return set(items)
        except TypeError:
            return items
    return items


def dd_kwargs(opt):
    kw = dict(zip_ordered_iterables=opt["zip"], threshold_to_diff_deeper=opt["thr"])
    sh = opt.get("shape") or {}
    if opt.get("ex"):
        kw["exclude_paths"] = shaped(opt["ex"], sh.get("ex"))
    if opt.get("rx"):
        rs = [r if isinstance(r, str) else crx(r) for r in opt["rx"]]
        kw["exclude_regex_paths"] = shaped(rs, sh.get("rx") if sh.get("rx") != "set" else "tuple")   # order matters to a merge
    if opt.get("inc"):
        kw["include_paths"] = shaped(opt["inc"], sh.get("inc"))
    if opt.get("io"):
        kw["ignore_order"] = True
    if opt.get("ty"):
        kw["exclude_types"] = shaped([TYPES[n][0] for n in opt["ty"]], sh.get("ty") if sh.get("ty") != "bare" else "list")
    for k, name in CB_ARGS.items():
        if opt.get(k):
            kw[name] = make_cb(opt[k])
    return kw


def run_tree(t1, t2, opt, objs=None):
    """DeepDiff on fresh copies (tree view); `objs`, when given, receives the two objects that
    were really diffed (the iteration order of THEIR sets is what DeepHash enumerates)"""
    from deepdiff import DeepDiff
    a, b = copy.deepcopy(t1), copy.deepcopy(t2)
    sa, sb = D.snapshot(a), D.snapshot(b)
    if objs is not None:
        objs[:] = [a, b]
    try:
        r = DeepDiff(a, b, view="tree", verbose_level=2, **dd_kwargs(opt))
    except Exception as e:  # noqa
        return ("EXC", type(e).__name__ + ": " + str(e)[:200]), (D.snapshot(a) == sa and D.snapshot(b) == sb)
    return D.tree_obs(r), (D.snapshot(a) == sa and D.snapshot(b) == sb)


def srepr(x):
    """order-insensitive, type-revealing text of a text-view payload"""
    if isinstance(x, dict):
        return "{" + ",".join(sorted(repr(k) + ":" + srepr(v) for k, v in x.items())) + "}"
    if isinstance(x, (list, tuple)):
        return type(x).__name__ + "(" + ",".join(srepr(v) for v in x) + ")"
    if isinstance(x, (set, frozenset)):
        return type(x).__name__ + "(" + ",".join(sorted(srepr(v) for v in x)) + ")"
    return repr(x)


def flat_text(r):
    """text-view result -> sorted [(kind, path string, text of the payload)]"""
    out = []
    for kind, body in r.items():
        if isinstance(body, dict):
            for p, val in body.items():
                out.append((kind, p, srepr(val)))
        else:
            for p in body:
                out.append((kind, p, ""))
    return sorted(out)


def run_text(t1, t2, opt):
    r, _ = D.run_deepdiff(t1, t2, verbose_level=2, **dd_kwargs(opt))
    if isinstance(r, Exception):
        return ("EXC", type(r).__name__ + ": " + str(r)[:200])
    return flat_text(r)


def text_keep(spec, path_string, kind):
    """string-level reading of at/below/above on a text-view path"""
    def below(s, q):       # s is q or extends q by whole bracket groups
        return s == q or (s.startswith(q) and s[len(q)] == "[")
    for q in spec.ex_paths:
        if below(path_string, spec.rend[json.dumps(q)]):
            return False
    if spec.inc_given:
        ok = False
        for q in spec.inc_paths:
            qs = spec.rend[json.dumps(q)]
            if below(path_string, qs) or below(qs, path_string):
                ok = True
        if not ok:
            return False
    return True


# --------------------------------------------------------------------------
# analysis used by the matchers of the known findings
# --------------------------------------------------------------------------

def private(k):
    return isinstance(k, str) and k.startswith("__")


def shortcut(inter, ulen, thr):
    return bool(thr) and ulen > 1 and inter / ulen < thr


def dict_pairs(t1, t2, path=()):
    """every dict-vs-dict position reachable by following common keys / indexes"""
    if type(t1) is not type(t2):
        return
    if isinstance(t1, dict):
        yield list(path), t1, t2
        for k in t1:
            if k in t2:
                k2 = [q for q in t2 if q == k][0]
                yield from dict_pairs(t1[k], t2[k], path + (["k", V.canon_atom(k2)],))
    elif isinstance(t1, (list, tuple)):
        for i, (x, y) in enumerate(zip(t1, t2)):
            yield from dict_pairs(x, y, path + (["x", i],))


def threshold_sensitive(t1, t2, thr, keepkey):
    """some compared dict whose whole-dict shortcut (threshold_to_diff_deeper)
    is decided differently on the filtered key sets than on the full ones;
    keepkey(path_of_child) -> the filter leaves that key in place"""
    if not thr:
        return False
    for p, d1, d2 in dict_pairs(t1, t2):
        k1 = [k for k in d1 if not private(k)]
        k2 = [k for k in d2 if not private(k)]
        inter = [k for k in k2 if k in d1 and not private(k)]
        union = k2 + [k for k in k1 if k not in d2]
        full = shortcut(len(inter), len(union), thr)
        kept = [k for k in union if keepkey(p + [["k", V.canon_atom(k)]])]
        kinter = [k for k in inter if keepkey(p + [["k", V.canon_atom(k)]])]
        # the implementation: exclude_paths shrink the union only; include_paths shrink both
        for a, b in ((len(inter), len(kept)), (len(kinter), len(kept))):
            if shortcut(a, b, thr) != full:
                return True
    return False


def set_member_hit(t1, t2, opt, spec=None):
    """a pattern / path / include set that DeepHash applies to the pseudo-path
    <set path>[iteration index] of a member of two compared sets (at a level the
    filter keeps, so that the sets are really compared)"""
    exs = set(s for a in opt.get("ex", ()) for s in rooted(a))
    incs = [s for a in opt.get("inc", ()) for s in rooted(a)]
    rxs = [crx(r) for r in opt.get("rx", ())]
    if spec is None:
        spec = Spec(all_positions(t1, t2), opt.get("ex", ()), opt.get("rx", ()), opt.get("inc", ()))

    def walk(a, b, path):
        if type(a) is not type(b) or not spec.keep(list(path)):
            return False
        if isinstance(a, (set, frozenset)):
            base = render(list(path))
            for i in range(max(len(a), len(b))):
                s = "%s[%d]" % (base, i)
                if s in exs or any(r.search(s) for r in rxs):
                    return True
                if incs and s not in incs and not any(s.startswith(q) for q in incs):
                    return True
            return False
        if isinstance(a, dict):
            return any(walk(a[k], b[k], path + (["k", V.canon_atom([q for q in b if q == k][0])],)) for k in a if k in b)
        if isinstance(a, (list, tuple)):
            return any(walk(x, y, path + (["x", i],)) for i, (x, y) in enumerate(zip(a, b)))
        return False
    return walk(t1, t2, ())


def set_hits(t1, t2, opt, spec):
    """the DeepHash side on compared sets: (table of (set path, member index) a pattern matches,
    some exclude string / pattern hits a member of a pair the filter keeps,
    include_paths drop a member (not modelled),
    an atom is a member of two compared pairs that are kept (shared memo table: not modelled))"""
    exs = set(s for a in opt.get("ex", ()) for s in rooted(a))
    incs = [s for a in opt.get("inc", ()) for s in rooted(a)]
    rxs = [crx(r) for r in opt.get("rx", ())]
    table, flags, members = [], {"hit": False, "inc": False}, []

    def walk(a, b, path, kept):
        if type(a) is not type(b):
            return
        kept = kept and spec.keep(list(path))
        if isinstance(a, (set, frozenset)):
            base = render(list(path))
            for i in range(max(len(a), len(b))):
                sidx = "%s[%d]" % (base, i)
                if any(r.search(sidx) for r in rxs):
                    table.append((list(path), i))
                    flags["hit"] = flags["hit"] or kept
                if sidx in exs:
                    flags["hit"] = flags["hit"] or kept
                if kept and incs and sidx not in incs and not any(sidx.startswith(q) for q in incs):
                    flags["inc"] = True
            if kept:
                members.append(list(a) + list(b))
        elif isinstance(a, dict):
            for k in a:
                if k in b:
                    walk(a[k], b[k], path + (["k", V.canon_atom([q for q in b if q == k][0])],), kept)
        elif isinstance(a, (list, tuple)):
            for i, (x, y) in enumerate(zip(a, b)):
                walk(x, y, path + (["x", i],), kept)
    walk(t1, t2, (), True)
    shared = False
    seen = []
    for ms in members:
        if any(any(m == q for q in seen) for m in ms):
            shared = True
        seen += ms
    return table, flags["hit"], flags["inc"], shared


def simple_str_key(e):
    """the key spellings for which "{}['{}']".format(path, key) IS the rendered path"""
    if e[0] == "x":
        return True       # list levels never go through _skip_this_key
    k = D.uncanon_atom(e[1])
    return isinstance(k, str) and "'" not in k


def pyval(s):
    import datetime
    from decimal import Decimal
    return eval(s, {"__builtins__": {}}, {"set": set, "frozenset": frozenset, "datetime": datetime, "Decimal": Decimal})


def analyse(case):
    """re-derive everything the matchers need from the replayable part of a case"""
    t1, t2 = rebuild(case)
    opt = case["opt"]
    P = all_positions(t1, t2)
    spec = Spec(P, opt.get("ex", ()), opt.get("rx", ()), opt.get("inc", ()))
    return t1, t2, opt, P, spec


def flip_positions(t1, t2, thr, keepkey, exclude_only=False):
    """the dict-vs-dict positions whose whole-dict shortcut is decided differently on the filtered key sets"""
    out = []
    if not thr:
        return out
    for p, d1, d2 in dict_pairs(t1, t2):
        k1 = [k for k in d1 if not private(k)]
        k2 = [k for k in d2 if not private(k)]
        inter = [k for k in k2 if k in d1 and not private(k)]
        union = k2 + [k for k in k1 if k not in d2]
        full = shortcut(len(inter), len(union), thr)
        kept = [k for k in union if keepkey(p + [["k", V.canon_atom(k)]])]
        kinter = [k for k in inter if keepkey(p + [["k", V.canon_atom(k)]])]
        # exclude_paths leave the intersection alone and shrink the union; include_paths shrink both
        variants = ((len(inter), len(kept)),) if exclude_only else ((len(inter), len(kept)), (len(kinter), len(kept)))
        if any(shortcut(a, b, thr) != full for a, b in variants):
            out.append(p)
    return out


def tree_clause(case):
    """the failing clause is the tree-view filter equation (not: text view, modified inputs, an exception)"""
    return ("extra" in case and "missing" in case and case.get("view") != "text" and "error" not in case)


def m_threshold(case):
    """K13a: threshold_to_diff_deeper > 0, the failing clause is the tree-view equation (or the independence
    variant), the filter flips the whole-dict shortcut of some compared dict AND every wrong entry lies at or
    below such a dict (its own values_changed, or what is reported instead)"""
    t1, t2, opt, P, spec = analyse(case)
    if not opt["thr"]:
        return False
    if opt.get("rx") and not opt.get("ex") and not opt.get("inc"):
        return False          # regex exclusion never touches the union
    if "t1b" in case:        # independence variant: the two variants decide differently
        t1b, t2b = pyval(case["t1b"]), pyval(case["t2b"])
        specb = Spec(all_positions(t1b, t2b), opt.get("ex", ()), opt.get("rx", ()), opt.get("inc", ()))
        return (threshold_sensitive(t1, t2, opt["thr"], spec.keep) or threshold_sensitive(t1b, t2b, opt["thr"], specb.keep) or
                shortcut_profile(t1, t2, opt["thr"], spec) != shortcut_profile(t1b, t2b, opt["thr"], specb))
    if not tree_clause(case):
        return False
    only_ex = not opt.get("inc")
    flips = flip_positions(t1, t2, opt["thr"], spec.keep, exclude_only=only_ex)
    wrong = [m[1] for m in case["extra"] + case["missing"]]
    if not flips or not wrong:
        return False
    if only_ex:
        # the finding predicts the direction (C13_exclude_threshold_monotone): the unrestricted run reports the whole
        # dictionary at the flip position, the filtered run goes deeper - never the other way round
        lost = [m[1] for m in case["missing"] if m[0] == "values_changed"]
        return all(any(is_prefix(f, w) and f in lost for f in flips) for w in wrong)
    return all(any(is_prefix(f, w) for f in flips) for w in wrong)


def shortcut_profile(t1, t2, thr, spec):
    out = []
    for p, d1, d2 in dict_pairs(t1, t2):
        if spec.excluded(p):
            continue
        k1 = [k for k in d1 if not private(k)]
        k2 = [k for k in d2 if not private(k)]
        inter = [k for k in k2 if k in d1]
        union = [k for k in k2 + [k for k in k1 if k not in d2] if not spec.excluded(p + [["k", V.canon_atom(k)]])]
        out.append((json.dumps(p), shortcut(len(inter), len(union), thr)))
    return out


def related_to(p, Q):
    return any(is_prefix(q, p) or is_prefix(p, q) for q in Q)


def m_include_key_format(case):
    """K10: an include path that "{}['{}']".format does not spell like the path
    printer (a non-str dict key, or a str key containing a single quote) and the
    failure consists of MISSING entries at / below / above such a path"""
    t1, t2, opt, P, spec = analyse(case)
    if not opt.get("inc") or not tree_clause(case):
        return False
    ns = [q for q in spec.inc_paths if not all(simple_str_key(e) for e in q)]
    missing = [m[1] for m in case.get("missing", [])]
    extra = [m[1] for m in case.get("extra", [])]
    # nothing may be reported that should not be - except what K13d explains when exclude_paths are given too
    if extra and not (opt.get("ex") and all(any(is_prefix(q, p) for q in spec.ex_paths) for p in extra)):
        return False
    return bool(ns) and bool(missing) and all(related_to(m, ns) for m in missing)


def m_set_member(case):
    """K13c: the option hits <set path>[i] inside DeepHash, the failing clause is the tree-view equation (or the
    independence variant) and every wrong entry is a set item"""
    t1, t2, opt, P, spec = analyse(case)
    if not set_member_hit(t1, t2, opt):
        return False
    if "t1b" in case:
        return True
    if not tree_clause(case):
        return False
    wrong = case["extra"] + case["missing"]
    return bool(wrong) and all(m[0] in ("set_item_added", "set_item_removed") for m in wrong)


def include_flip_directions(t1, t2, thr, keepkey):
    """include_paths only (the key filter shrinks BOTH key sets of _diff_dict): the dict-vs-dict positions whose
    whole-dict shortcut is decided differently on the filtered key sets, with the decision of the UNRESTRICTED
    run: [(position, the unrestricted run reports the dictionary whole)]"""
    out = []
    if not thr:
        return out
    for p, d1, d2 in dict_pairs(t1, t2):
        k1 = [k for k in d1 if not private(k)]
        k2 = [k for k in d2 if not private(k)]
        inter = [k for k in k2 if k in d1]
        union = k2 + [k for k in k1 if k not in d2]
        full = shortcut(len(inter), len(union), thr)
        kept = [k for k in union if keepkey(p + [["k", V.canon_atom(k)]])]
        kinter = [k for k in inter if keepkey(p + [["k", V.canon_atom(k)]])]
        if shortcut(len(kinter), len(kept), thr) != full:
            out.append((p, full))
    return out


def substring_with_threshold(case, t1, t2, opt, spec, incs):
    """K13b next to K13a (seed 7: include_paths=["root[1]['root[0]']"], threshold 0.9 - the KEY TEXT 'root[0]' makes
    the sibling level root[0] pass `level_path in prefix`, and at root[1] the key filter flips the whole-dict
    shortcut): include_paths alone, threshold > 0.  Every wrong entry is attributed to exactly one mechanism:
      * at / below an OUTERMOST dict position f whose shortcut the key filter flips (K13a, include variant), in the
        predicted direction: the unrestricted run reports f whole -> `values_changed f` is the one missing entry
        there and everything unexpected lies strictly below f; the filtered run reports f whole -> the reverse;
      * elsewhere: an UNEXPECTED entry (never a missing one) that the unrestricted run with the same mode and
        threshold reports, at a position unrelated to every include path as a key sequence, EVERY level of which
        from the first unrelated one on passes the substring test of _skip_this (`prefix in level_path or level_path
        in prefix`) - K13b where it acts.
    Both parts must be present (either mechanism alone is the business of its own matcher)."""
    if not opt["thr"] or opt.get("ex") or opt.get("rx") or value_opts(opt) or opt.get("io"):
        return False
    flips = include_flip_directions(t1, t2, opt["thr"], spec.keep)
    if not flips:
        return False

    def outermost(p):
        fs = [(f, full) for f, full in flips if is_prefix(f, p)]
        return min(fs, key=lambda x: len(x[0])) if fs else None

    def a_ok(kind, p, is_missing):
        f, full = outermost(p)
        at_f = (kind == "values_changed" and p == f)
        # full: unrestricted = values_changed f only (missing), filtered goes deeper (extras strictly below f)
        return at_f if (is_missing == full) else (len(p) > len(f))

    def b_ok(p):
        for n in range(1, len(p) + 1):
            if not spec.included(p[:n]):
                return all(any(render(p[:m]) in q or q in render(p[:m]) for q in incs) for m in range(n, len(p) + 1))
        return False
    base = None
    na = nb = 0
    for is_missing, entries in ((False, case.get("extra", [])), (True, case.get("missing", []))):
        for kind, p in entries:
            if outermost(p) is not None:
                if not a_ok(kind, p, is_missing):
                    return False
                na += 1
                continue
            if is_missing or not b_ok(p):
                return False
            if base is None:
                got, _ = run_tree(t1, t2, {"zip": opt["zip"], "thr": opt["thr"]})
                if isinstance(got, tuple):
                    return False
                base = [json.loads(json.dumps(list(e[:2]))) for e in got]
            if [kind, p] not in base:
                return False
            nb += 1
    return na > 0 and nb > 0


def m_include_substring(case):
    """K13b: an unexpected entry at or below a level that is unrelated (as a key
    sequence) to every include path but whose rendered path contains an include
    string or is contained in one; nothing may be missing - except, at a positive threshold, what K13a explains
    at a dictionary whose shortcut the key filter flips (`substring_with_threshold`)"""
    t1, t2, opt, P, spec = analyse(case)
    if not opt.get("inc") or not tree_clause(case):
        return False
    incs = set(s for a in opt["inc"] for s in rooted(a))
    extra = [m[1] for m in case.get("extra", [])]

    def explained(p):
        for n in range(1, len(p) + 1):
            if not spec.included(p[:n]):
                s = render(p[:n])
                return any(s in q or q in s for q in incs)
        return False
    if not case.get("missing") and bool(extra) and all(explained(p) for p in extra):
        return True
    return substring_with_threshold(case, t1, t2, opt, spec, incs)


def m_exclude_under_include(case):
    """K13d: exclude_paths and include_paths together: the unexpected entries lie at
    or below an excluded path that is not itself an include string but contains
    one / is contained in one"""
    t1, t2, opt, P, spec = analyse(case)
    if not (opt.get("ex") and opt.get("inc")) or not tree_clause(case):
        return False
    incs = set(s for a in opt["inc"] for s in rooted(a))
    bad = [q for q in spec.ex_paths if render(q) not in incs and any(i in render(q) or render(q) in i for i in incs)]
    extra = [m[1] for m in case.get("extra", [])]
    # nothing may be missing - except what K10 explains (an include path that the key filter mis-spells)
    ns = [q for q in spec.inc_paths if not all(simple_str_key(e) for e in q)]
    missing = [m[1] for m in case.get("missing", [])]
    if missing and not (ns and all(related_to(m, ns) for m in missing)):
        return False
    return bool(extra) and all(any(is_prefix(q, p) for q in bad) for p in extra)


def alias_norm(p):
    """numeric / bool dict keys identified up to == (1 / True / 1.0)"""
    out = []
    for tag, x in p:
        if tag == "k" and isinstance(D.uncanon_atom(x), (bool, int, float)):
            out.append(["k", ["num", float(D.uncanon_atom(x))]])
        else:
            out.append([tag, x])
    return out


def m_alias_key(case):
    """K13e: the excluded path goes through a numeric / bool dict key whose ==-alias
    of another type (1 / True / 1.0) is the spelling the other input uses at that place; the failing clause is
    the independence variant, or the tree-view equation with every wrong entry at or below the ALIAS spelling
    of an excluded path"""
    t1, t2, opt, P, spec = analyse(case)
    if not opt.get("ex") or not alias_feature(case, t1, t2, spec):
        return False
    if "t1b" in case:
        return True
    if not tree_clause(case):
        return False
    wrong = [m[1] for m in case["extra"] + case["missing"]]
    exn = [alias_norm(q) for q in spec.ex_paths]
    return bool(wrong) and all(any(is_prefix(q, alias_norm(w)) for q in exn) for w in wrong)


def alias_feature(case, t1, t2, spec):
    for q in spec.ex_paths:
        for n, e in enumerate(q):
            if e[0] != "k":
                continue
            k = D.uncanon_atom(e[1])
            if not isinstance(k, (bool, int, float)):
                continue
            for t in (t1, t2) + tuple(pyval(case[x]) for x in ("t1b", "t2b") if x in case):
                cur = t
                ok = True
                for tag, x in q[:n]:
                    try:
                        if tag == "x" and isinstance(cur, (list, tuple)):
                            cur = cur[x]
                        elif tag == "k" and isinstance(cur, dict):
                            cur = cur[D.uncanon_atom(x)]
                        else:
                            ok = False
                    except (KeyError, IndexError):
                        ok = False
                    if not ok:
                        break
                if ok and isinstance(cur, dict) and any(kk == k and type(kk) is not type(k) for kk in cur):
                    return True
    return False


def _core_only(m):
    """cases of the extended-key stream (dict keys outside the Coq universe; no canonical positions) are never
    attributed to a known finding"""
    def f(case):
        return False if case.get("ext") else m(case)
    return f


MATCHERS = {"K13a-threshold-shortcut": _core_only(m_threshold),
            "K13e-alias-key-spelling": _core_only(m_alias_key),
            "K13d-exclude-under-include": _core_only(m_exclude_under_include),
            "K13b-include-substring": _core_only(m_include_substring),
            "K10-include-key-format": _core_only(m_include_key_format),
            "K13c-set-member-index": _core_only(m_set_member)}


# --------------------------------------------------------------------------
# generation
# --------------------------------------------------------------------------

def keygen(rng):
    r = rng.random()
    if r < 0.55:
        return rng.choice(V.STR_POOL[:8])
    if r < 0.65:
        return rng.choice(EXTRA_STR)
    if r < 0.85:
        return rng.randint(-1, 4)
    if r < 0.9:
        return rng.choice([True, False, None])
    return rng.randint(-2, 4) + 0.5


def gen_pair(rng):
    strings = V.STR_POOL + ["a\nb", "a\nc\n"]
    for _ in range(50):
        kinds = rng.choice(["LTDSFA", "DDLA", "DDDLTA", "DLS"])
        t1 = V.gen_value(rng, depth=3, width=4, strings=strings, kinds=kinds, keygen=keygen)
        if not isinstance(t1, (list, tuple, dict)):
            continue
        if rng.random() < 0.15:
            t2 = V.gen_value(rng, depth=3, width=4, strings=strings, kinds=kinds, keygen=keygen)
        else:
            vals, _k = V.edit_script(rng, t1, rng.randint(2, 6), strings=strings)
            t2 = vals[-1]
        if D.set_alias(t1, t2) or D.tag_unsafe(t1, t2):
            continue
        if len(all_positions(t1, t2)) < 3:
            continue
        return t1, t2
    return {"a": 1}, {"a": 2}


def gen_dld(rng):
    """dict -> dict -> list / tuple -> dict with the differences in the innermost dicts"""
    strings = V.STR_POOL[:8]

    def inner():
        return {k: rng.randint(0, 9) for k in rng.sample(strings, rng.randint(1, 3))}
    ks = rng.sample(strings, 4)
    seq = rng.choice([list, tuple])
    t1 = {ks[0]: {ks[1]: seq([inner() for _ in range(rng.randint(1, 3))]), ks[2]: inner()},
          ks[1]: [inner(), (inner(),)], ks[3]: rng.randint(0, 5)}
    t2 = copy.deepcopy(t1)
    leaves = [p for p in cpositions(t2) if p and isinstance(_at(t2, p), dict) and p[-1][0] == "x"]
    for p in rng.sample(leaves, min(len(leaves), rng.randint(1, 3))):
        d = dict(_at(t2, p))
        c = rng.random()
        if c < 0.5 and d:
            d[rng.choice(list(d))] = rng.randint(10, 19)
        elif c < 0.8:
            d[rng.choice(strings)] = rng.randint(10, 19)
        elif d:
            del d[rng.choice(list(d))]
        t2 = V.set_at(t2, D.py_path(p), d)
    return t1, t2


def gen_pair_records(rng):
    """string-keyed records: dict -> dict / list of dicts -> dict ..., differences deep inside"""
    if rng.random() < 0.4:
        return gen_dld(rng)
    strings = V.STR_POOL[:8]
    for _ in range(30):
        t1 = V.gen_value(rng, depth=4, width=3, strings=strings, kinds=rng.choice(["DDL", "DLD", "DLDT"]),
                         keygen=lambda r: r.choice(strings))
        if not isinstance(t1, dict) or len(all_positions(t1, t1)) < 6:
            continue
        vals, _k = V.edit_script(rng, t1, rng.randint(3, 7), strings=strings,
                                 kinds=["replace_atom", "replace_atom", "dict_add", "dict_del", "list_insert"])
        t2 = vals[-1]
        if D.set_alias(t1, t2) or D.tag_unsafe(t1, t2):
            continue
        return t1, t2
    return gen_pair(rng)


def gen_boundary_pair(rng):
    # no object is referenced twice (share_pair plants sharing on its own and must not close a cycle)
    a, b = _gen_boundary_pair(rng)
    return pyval(repr(a)), pyval(repr(b))


def _gen_boundary_pair(rng):
    """pairs sitting on the boundaries of the input-level guards:
    (a) two dicts whose shared / union key counts are at the whole-dict shortcut of threshold_to_diff_deeper
        (0.33 and 0.9) give or take one key - excluding or including one key of the union flips it or just not;
        plain, below a sibling, or below a key that is likely to be excluded itself;
    (b) default alignment: sequences of atoms with ONE container among them (pairwise pass) next to all-atom
        sequences (difflib pass) of the same shape"""
    keys = rng.sample(["a", "b", "c", "d", "e", "f", "g", "h", "i", "j", 1, 2, 3, None], 12)
    if rng.random() < 0.3:
        # (c) keys that differ only in case / contain a newline or a blank, side by side, all changed: a regex
        #     meant for one of them must not catch its twin (patterns keep their OWN compile flags)
        ks = rng.sample(["id", "ID", "Id", "a", "A", "ab", "aB", "x y", "xy", "a\nb", "b", "tmp_x", "Tmp_c", "zz"], rng.randint(4, 8))
        row1 = {k: rng.randint(0, 3) for k in ks}
        row2 = {k: v + rng.randint(1, 3) for k, v in row1.items()}
        if rng.random() < 0.5:
            return row1, row2
        return {"rows": [row1], "k": dict(row1)}, {"rows": [row2], "k": dict(row2)}
    if rng.random() < 0.6:
        thr = rng.choice([0.33, 0.33, 0.9])
        u = rng.randint(2, 7)
        i = max(0, min(u, int(thr * u) + rng.choice([-1, 0, 0, 1, 1, 2])))
        common, rest = keys[:i], keys[i:u]
        cut = rng.randint(0, len(rest))
        d1 = {k: rng.randint(0, 3) for k in common + rest[:cut]}
        d2 = {k: (d1[k] if rng.random() < 0.5 else rng.randint(4, 7)) for k in common}
        d2.update({k: rng.randint(0, 3) for k in rest[cut:]})
        if rng.random() < 0.3 and common:
            k = rng.choice(common)
            d1[k], d2[k] = {"a": 1, "b": 2}, {"a": 1, "x": 2, "y": 3}
        r = rng.random()
        if r < 0.4:
            return d1, d2
        if r < 0.7:
            return {"k": d1, "z": 1, "w": [1, 2]}, {"k": d2, "z": rng.choice([1, 2]), "w": [1, 3]}
        return [d1, {"p": d1, "q": 0}], [d2, {"p": d2, "q": rng.choice([0, 1])}]
    n = rng.randint(2, 5)
    xs = [rng.randint(0, 4) for _ in range(n)]
    ys = list(xs)
    for _ in range(rng.randint(1, 3)):
        c = rng.random()
        if c < 0.4 and ys:
            ys[rng.randrange(len(ys))] = rng.randint(5, 9)
        elif c < 0.7:
            ys.insert(rng.randint(0, len(ys)), rng.randint(5, 9))
        elif ys:
            del ys[rng.randrange(len(ys))]
    if rng.random() < 0.55:
        j = rng.randrange(n)
        xs[j] = {"a": 1, "b": [1, 2]}
        if j < len(ys):
            ys[j] = rng.choice([{"a": 2, "b": [1, 2]}, {"a": 1, "b": [2, 2]}, 7])
    if rng.random() < 0.5:
        return xs, ys
    return {"l": xs, "m": {"l": xs}}, {"l": ys, "m": {"l": ys if rng.random() < 0.7 else xs}}


def share_pair(rng, t1, t2):
    """ONE container object at two positions of t1 and likewise ONE object at the same two positions
    of t2 (Python identity).  Returns (t1, t2, [p, q]) or None.  The model sees values, so sharing is
    invisible to it - and must be invisible in the implementation's result as well."""
    t1, t2 = copy.deepcopy(t1), copy.deepcopy(t2)
    P = [p for p in all_positions(t1, t2) if p]
    cand = [p for p in P if isinstance(_at(t1, p), (list, dict)) and type(_at(t1, p)) is type(_at(t2, p))
            and V.canon(_at(t1, p)) != V.canon(_at(t2, p))]
    rng.shuffle(cand)
    for p in cand:
        targets = [q for q in P if not is_prefix(p, q) and not is_prefix(q, p)
                   and has_pos(t1, q) and has_pos(t2, q)
                   and isinstance(_at(t1, q[:-1]), (list, dict)) and isinstance(_at(t2, q[:-1]), (list, dict))]
        if not targets:
            continue
        q = rng.choice(targets)
        side = rng.choice(["both", "both", "t1", "t2"])      # also ONE side only: the rest of the pair is fresh
        if side in ("both", "t1"):
            plant_shared(t1, p, q)
        if side in ("both", "t2"):
            plant_shared(t2, p, q)
        return t1, t2, [p, q, side]
    return None


def plant_shared(t, p, q):
    """t[q] = t[p] (the same object)"""
    obj = _at(t, p)
    parent = _at(t, q[:-1])
    tag, x = q[-1]
    if tag == "x":
        parent[x] = obj
    else:
        key = [k for k in parent if V.canon_atom(k) == x][0]
        parent[key] = obj


def rebuild(case):
    """the inputs of a case, with the recorded object sharing re-established"""
    t1, t2 = pyval(case["t1"]), pyval(case["t2"])
    sh = case.get("opt", {}).get("share")
    if sh:
        side = sh[2] if len(sh) > 2 else "both"
        if side in ("both", "t1"):
            plant_shared(t1, sh[0], sh[1])
        if side in ("both", "t2"):
            plant_shared(t2, sh[0], sh[1])
    return t1, t2


def rx_escape(s):
    return re.escape(s)


def _at(t, q):
    """the sub-value of t at the typed position q, or None"""
    for tag, x in q:
        if tag == "x":
            if not isinstance(t, (list, tuple)) or not (0 <= x < len(t)):
                return None
            t = t[x]
        else:
            if not isinstance(t, dict):
                return None
            hit = [k for k in t if V.canon_atom(k) == x]
            if not hit:
                return None
            t = t[hit[0]]
    return t


def gen_value_opt(rng, t1, t2, P, hot):
    """one object-dependent option of _skip_this: {key: spec}"""
    pos = [p for p in (hot or P)] or P
    vals = []
    for p in pos:
        for t in (t1, t2):
            if has_pos(t, p):
                vals.append(_at(t, p))
    for t in (t1, t2):
        for v in subvalues(t):
            if isinstance(v, (set, frozenset)):
                vals.extend(v)
    tynames = sorted(set(n for v in vals for n, (ty, _c) in TYPES.items() if type(v) is ty)) or ["int"]

    def pred():
        r = rng.random()
        if r < 0.4 and vals:
            return ["vals", [V.canon(v) for v in rng.sample(vals, min(len(vals), rng.randint(1, 3)))]]
        if r < 0.55:
            return ["str_has", rng.choice(["a", "b", "", "x"])]
        if r < 0.7:
            return ["int_mod", 2, rng.randint(0, 1)]
        if r < 0.85:
            return ["num_ge", rng.choice([0, 1, 2, 2.5])]
        return ["len_ge", rng.randint(0, 3)]
    k = rng.choice(["ty", "ty", "cb", "cb", "cbs", "icb", "icbs"])
    if k == "ty":
        return {"ty": sorted(rng.sample(tynames, min(len(tynames), rng.randint(1, 2))))}
    if k in ("icb", "icbs"):
        # an include callback that rejects containers skips nearly everything: mostly accept them
        return {k: ["cont_or", pred()] if rng.random() < 0.7 else pred()}
    return {k: pred()}


def gen_options(rng, t1, t2, P, n, hot=()):
    """n filter options for one pair; `hot` = positions at / above / next to an
    entry of the unrestricted result (chosen more often, so that the filter bites)"""
    nonroot = [p for p in P if p] or [[]]
    hot = [p for p in hot if p]
    keypaths = [p for p in nonroot if p and p[-1][0] == "k"] or nonroot
    strpaths = [p for p in nonroot if p and all(simple_str_key(e) for e in p)] or nonroot

    def casefold_twin(p):
        if not p or p[-1][0] != "k" or not isinstance(D.uncanon_atom(p[-1][1]), str):
            return False
        me = D.uncanon_atom(p[-1][1])
        for q in P:
            if len(q) == len(p) and q[:-1] == p[:-1] and q[-1][0] == "k" and q != p:
                other = D.uncanon_atom(q[-1][1])
                if isinstance(other, str) and other != me and other.lower() == me.lower():
                    return True
        return False
    twins = [p for p in nonroot if casefold_twin(p)]
    special = [p for p in nonroot if p[-1][0] == "k" and D.uncanon_atom(p[-1][1]) in ("a\nb", "x y")]
    out = []
    for _ in range(n):
        kind = rng.choice(["lit1", "lit1", "lit1", "lit3", "lit3", "rx_prefix", "rx_exact", "rx_class",
                           "inc1", "inc1", "inc2", "inc_any", "unrooted", "lit_rx", "ex_inc", "spelling", "set_idx",
                           "val", "val_lit", "val_lit", "val_rx", "val_inc", "rx_flags", "rx_flags", "multi"])
        if (twins or special) and rng.random() < 0.3:
            kind = "rx_flags"         # sibling keys that differ only in case / hold a newline or a blank: flags matter
        zip_ = rng.random() < 0.6
        pool = nonroot if zip_ or rng.random() < 0.25 else keypaths
        if hot and rng.random() < 0.65:
            hp = [p for p in hot if zip_ or p[-1][0] == "k"]
            pool = hp or pool
        opt = {"kind": kind, "zip": zip_, "thr": rng.choice(THRS)}
        incpool = [p for p in pool if p and all(simple_str_key(e) for e in p)] or strpaths
        if kind == "lit1":
            q = rng.choice(pool) if rng.random() < 0.97 else []
            opt["ex"] = [render(q)]
        elif kind == "lit3":
            opt["ex"] = sorted(set(render(rng.choice(pool)) for _ in range(rng.randint(2, 3))))
        elif kind == "rx_prefix":
            opt["rx"] = ["^" + rx_escape(render(rng.choice(pool)))]
        elif kind == "rx_exact":
            opt["rx"] = ["^" + rx_escape(render(rng.choice(pool))) + "$"]
            if rng.random() < 0.3:
                opt["rx"].append("^" + rx_escape(render(rng.choice(pool))) + "$")
        elif kind == "rx_class":
            q = rng.choice(pool) or [["x", 0]]
            base = rx_escape(render(q[:-1]))
            opt["rx"] = [rng.choice([
                "^" + base + r"\[\d+\]",                 # every index / int key below the parent
                "^" + base + r"\['[a-b]+'\]$",            # sibling string keys
                rx_escape(render_elem(q[-1])) + "$",      # this last element anywhere
                r"\[[01]\]",                              # unanchored
                "^" + base + r"\[[^\]]*\]$",              # all children of the parent
            ])]
        elif kind == "lit_rx":
            opt["ex"] = [render(rng.choice(pool))]
            opt["rx"] = ["^" + rx_escape(render(rng.choice(pool))) + "$"]
        elif kind == "rx_flags":
            # SETS of 2-3 patterns mixing plain strings and PRE-COMPILED patterns with flags (re.I / re.S / re.M / re.X):
            # a plain, flag-less pattern next to a compiled one must keep ITS reading - case-sensitive against a
            # sibling key that differs only in case, '.' not matching a newline inside a key, '^' only at the start,
            # a literal blank
            flag = rng.choice([re.I, re.I, re.I, re.S, re.M, re.X])
            if twins and not special:
                flag = re.I
            elif special and not twins and flag == re.I:
                flag = rng.choice([re.S, re.M, re.X])
            plain = []
            if flag == re.I or rng.random() < 0.3:
                q = rng.choice(twins) if twins and rng.random() < 0.85 else rng.choice(pool)
                plain.append(rng.choice(["^" + rx_escape(render(q)) + "$", rx_escape(render_elem(q[-1])) + "$" if q else "^root$"]))
            if flag == re.S:
                plain.append(r"\['a.b'\]")                   # '.' is not a newline unless DOTALL leaks in
            if flag == re.M:
                plain.append(r"^b'\]")                        # matches nothing unless MULTILINE leaks in (key 'a\nb')
            if flag == re.X:
                plain.append(r"\['x y'\]")                   # the blank is literal unless VERBOSE leaks in
            q2 = rng.choice(pool)
            compiled = [rng.choice(["^" + rx_escape(render(q2)) + "$", r"\['tmp_\w+'\]", r"\['zz+'\]$"]), int(flag)]
            pats = plain + [compiled]
            if rng.random() < 0.3:
                pats.append("^" + rx_escape(render(rng.choice(pool))) + "$")
            rng.shuffle(pats)
            opt["rx"] = pats
        elif kind == "multi":
            # sets of several paths mixing literal and regex exclusion
            opt["ex"] = sorted(set(render(rng.choice(pool)) for _ in range(rng.randint(1, 3))))
            opt["rx"] = ["^" + rx_escape(render(rng.choice(pool))) + rng.choice(["", "$"]) for _ in range(rng.randint(1, 2))]
        elif kind in ("val", "val_lit", "val_rx", "val_inc"):
            # the object-dependent branches of _skip_this, alone or under / over a path option
            opt.update(gen_value_opt(rng, t1, t2, P, hot))
            if rng.random() < 0.25:
                opt.update(gen_value_opt(rng, t1, t2, P, hot))
            if kind == "val_lit":
                opt["ex"] = sorted(set(render(rng.choice(pool)) for _ in range(rng.randint(1, 2))))
            elif kind == "val_rx":
                opt["rx"] = ["^" + rx_escape(render(rng.choice(pool))) + rng.choice(["", "$"])]
            elif kind == "val_inc":
                opt["inc"] = [render(rng.choice(incpool))]
        elif kind == "set_idx":
            # the DeepHash side: the pseudo-path <set path>[i] of a member of a set (K13c)
            sets = [p for p in P if isinstance(_at(t1, p), (set, frozenset)) or isinstance(_at(t2, p), (set, frozenset))]
            if not sets:
                opt["kind"] = "lit1"
                opt["ex"] = [render(rng.choice(pool))]
            else:
                q = rng.choice(sets)
                i = rng.randint(0, 2)
                if rng.random() < 0.5:
                    opt["rx"] = [rng.choice([r"\[%d\]$" % i, "^" + rx_escape(render(q)) + r"\[[0-%d]\]$" % i])]
                else:
                    opt["ex"] = ["%s[%d]" % (render(q), i)]
        elif kind == "spelling":
            # what add_root_to_paths / the set really contain: another spelling of an existing path never matches
            q = rng.choice(pool)
            alt = render(q).replace("'", '"') if rng.random() < 0.5 else render(q).replace("root", "", 1).lstrip("[").rstrip("]").strip("'")
            if not alt:
                alt = "0"
            if rng.random() < 0.5:
                opt["ex"] = [alt]
            else:
                opt["inc"] = [alt]
        elif kind == "ex_inc":
            opt["inc"] = [render(rng.choice(strpaths))]
            opt["ex"] = [render(rng.choice(pool))]
        elif kind == "inc1":
            opt["inc"] = [render(rng.choice(incpool))]
        elif kind == "inc2":
            opt["inc"] = sorted(set(render(rng.choice(incpool)) for _ in range(rng.randint(2, 3))))
        elif kind == "inc_any":
            opt["inc"] = [render(rng.choice(nonroot))]
        elif kind == "unrooted":
            tops = [p for p in nonroot if len(p) == 1 and p[0][0] == "k" and isinstance(D.uncanon_atom(p[0][1]), str)
                    and D.uncanon_atom(p[0][1]) and "'" not in D.uncanon_atom(p[0][1]) and not D.uncanon_atom(p[0][1]).startswith("root")]
            if not tops:
                opt["kind"] = "lit1"
                opt["ex"] = [render(rng.choice(pool))]
            else:
                key = D.uncanon_atom(rng.choice(tops)[0][1])
                if rng.random() < 0.6:
                    opt["ex"] = [key]
                else:
                    opt["inc"] = [key]
        opt["shape"] = {k: rng.choice(SHAPES) for k in ("ex", "rx", "inc", "ty") if opt.get(k)}
        out.append(opt)
    return out


def is_basic(x):
    return not isinstance(x, CONTAINERS)


def common_children(a, b, path):
    """the child levels the diff recurses into: (child path, x, y)"""
    if isinstance(a, dict):
        for k in a:
            if private(k) or k not in b:
                continue
            k2 = [q for q in b if q == k][0]
            yield path + [["k", V.canon_atom(k2)]], a[k], b[k2]
    elif isinstance(a, (list, tuple)):
        for i, (x, y) in enumerate(zip(a, b)):
            yield path + [["x", i]], x, y


def leaf_split(t1, t2, spec):
    """default alignment mode: some pair of all-basic sequences at a kept level whose index children
    0 .. max(len)-1 are neither all kept nor all dropped (the difflib pass then sees what the filter hides)"""
    def walk(a, b, path):
        if type(a) is not type(b) or not spec.keep(path):
            return False
        if isinstance(a, (list, tuple)) and all(is_basic(x) for x in a) and all(is_basic(x) for x in b):
            ks = [spec.keep(path + [["x", i]]) for i in range(max(len(a), len(b)))]
            return any(ks) and not all(ks)
        return any(walk(x, y, q) for q, x, y in common_children(a, b, path))
    return walk(t1, t2, [])


def in_quantifier(opt, spec, t1, t2):
    """where the filter equation is asserted on the implementation: positional mode for arbitrary
    paths; default alignment mode unless the filter splits the index children of a pair of all-basic
    sequences (the input-level guard of C13_exclude_guarded / C13_include_guarded: wider than the
    property's "paths made of dictionary keys" - an index of a sequence holding a container is fine)"""
    if spec.inc_given and not spec.inc_paths:
        return False          # an include string that names no position of either input
    if opt["zip"]:
        return True
    return not leaf_split(t1, t2, spec)


def xguard_py(t1, t2, opt, spec):
    """the guard of C13_exclude_threshold_exact re-stated on Python values: at every pair of dicts the
    FILTERED run reaches, subtracting the excluded keys (spelled f"{path}[{key!r}]") from the union flips
    no whole-dict shortcut; at every pair of all-basic sequences it reaches in default mode the index
    children are kept or dropped together"""
    thr = opt["thr"]
    exs = set(s for a in opt.get("ex", ()) for s in rooted(a))

    def walk(a, b, path):
        if type(a) is not type(b):
            return True
        if isinstance(a, dict):
            k1 = [k for k in a if not private(k)]
            k2 = [k for k in b if not private(k)]
            inter = [k for k in k2 if k in k1]
            union = k2 + [k for k in k1 if k not in k2]
            base = render(path)
            ulen = len([k for k in union if "%s[%r]" % (base, k) not in exs])
            full = shortcut(len(inter), len(union), thr)
            if shortcut(len(inter), ulen, thr) != full:
                return False
            if full:
                return True
        elif isinstance(a, (list, tuple)):
            if not opt["zip"] and all(is_basic(x) for x in a) and all(is_basic(x) for x in b):
                ks = [spec.keep(path + [["x", i]]) for i in range(max(len(a), len(b)))]
                return all(ks) or not any(ks)
        return all(walk(x, y, q) for q, x, y in common_children(a, b, path) if spec.keep(q))
    return spec.excluded([]) or walk(t1, t2, [])


def has_pos(t, q):
    """the typed position q exists in t"""
    for tag, x in q:
        if tag == "x":
            if not isinstance(t, (list, tuple)) or not (0 <= x < len(t)):
                return False
            t = t[x]
        else:
            if not isinstance(t, dict):
                return False
            hit = [k for k in t if V.canon_atom(k) == x]
            if not hit:
                return False
            t = t[hit[0]]
    return True


def perturb(rng, t1, t2, q):
    """rewrite or delete the content at position q (where it exists) on one or both sides"""
    py = D.py_path(q)
    out = []
    for t in (t1, t2):
        t = copy.deepcopy(t)
        if has_pos(t, q) and rng.random() < 0.7:
            parent = V.get_at(t, py[:-1])
            if isinstance(parent, dict) and rng.random() < 0.4:
                new = dict(parent)
                del new[py[-1]]
                t = V.set_at(t, py[:-1], new)
            else:
                t = V.set_at(t, py, V.gen_value(rng, 2, 3))
        out.append(t)
    return out


# --------------------------------------------------------------------------
# one pair: correspondence cases + direct oracle
# --------------------------------------------------------------------------

def case_dict(t1, t2, opt, **more):
    d = {"t1": repr(t1), "t2": repr(t2), "opt": {k: v for k, v in opt.items()}}
    d.update(more)
    return d


def oracle_one(t1, t2, opt, base_tree, base_text, rng, do_text=True, do_indep=True):
    """the property on the implementation for one (pair, option).  Returns
    (list of (case, what), nontrivial, filtered tree observable, flags)"""
    fails = []
    P = all_positions(t1, t2)
    spec = Spec(P, opt.get("ex", ()), opt.get("rx", ()), opt.get("inc", ()))
    objs = []
    got, unmod = run_tree(t1, t2, opt, objs)
    vo = value_opts(opt)
    # object-dependent options: `base_*` is the run with the same object-dependent options and no path option.
    # Not asserted (outside the property; correspondence only): include_paths shadow every other branch of
    # _skip_this, and an include_obj_callback overwrites the verdict of the literal exclude_paths test
    outside_value = bool(vo) and (bool(opt.get("inc")) or (bool(opt.get("icb") or opt.get("icbs")) and bool(opt.get("ex"))))
    inq = in_quantifier(opt, spec, t1, t2) and not outside_value
    if vo:
        do_text = do_indep = False
    flags = {"inq": inq, "objs": objs, "outside_value": outside_value}
    if not unmod:
        fails.append((case_dict(t1, t2, opt), "DeepDiff modified its inputs"))
    if isinstance(got, tuple):
        if not isinstance(base_tree, tuple):
            fails.append((case_dict(t1, t2, opt, error=got[1]), "the filtered run raises " + got[1] + " although the unrestricted run does not"))
        return fails, False, got, flags
    if isinstance(base_tree, tuple):
        return fails, False, got, flags
    want = [e for e in base_tree if spec.keep(e[1])]
    nontrivial = 0 < len(want) < len(base_tree)
    tree_ok = True
    if (opt["zip"] and not vo and not opt.get("inc") and (opt.get("ex") or opt.get("rx")) and not opt.get("share")
            and not set_member_hit(t1, t2, opt, spec)):
        # the exact characterisation (C13_exclude_threshold_exact) observed on the real run
        g = xguard_py(t1, t2, opt, spec)
        flags["exact"] = "guard_holds" if g else "guard_fails"
        if g != (got == want):
            flags["exact_break"] = {"name": "C13_exclude_threshold_exact not observed", "case": case_dict(t1, t2, opt),
                                    "guard": g, "equation_holds": got == want}
    flags["eq_holds"] = (got == want)
    if (not opt["zip"] and not vo and not opt.get("inc") and (opt.get("ex") or opt.get("rx")) and not opt.get("share")
            and not set_member_hit(t1, t2, opt, spec)):
        flags["exact_d"] = True
    if inq and got != want:
        tree_ok = False
        extra = [e[:2] for e in got if e not in want]
        missing = [e[:2] for e in want if e not in got]
        fails.append((case_dict(t1, t2, opt, extra=extra, missing=missing),
                      "filtered result is not the unrestricted result restricted to the kept paths: unexpected %r, missing %r" % (extra[:3], missing[:3])))
    if inq and tree_ok and do_text and not isinstance(base_text, tuple):
        gt = run_text(t1, t2, opt)
        if isinstance(gt, tuple):
            fails.append((case_dict(t1, t2, opt, error=gt[1]), "text view of the filtered run raises " + gt[1]))
        elif not spec.rxs:
            wt = [x for x in base_text if text_keep(spec, x[1], x[0])]
            if gt != wt:
                fails.append((case_dict(t1, t2, opt, view="text", extra=[x[:2] for x in gt if x not in wt][:3], missing=[x[:2] for x in wt if x not in gt][:3]),
                              "text view: filtered result is not the unrestricted text result restricted to the kept path strings"))
    if inq and tree_ok and do_indep and spec.ex_paths and not opt.get("inc"):
        q = rng.choice(spec.ex_paths)
        if q:
            t1b, t2b = perturb(rng, t1, t2, q)
            gb, _ = run_tree(t1b, t2b, opt)
            if not isinstance(gb, tuple):
                a = [e[:3] for e in got]
                b = [e[:3] for e in gb]
                if a != b:
                    fails.append((case_dict(t1, t2, opt, t1b=repr(t1b), t2b=repr(t2b), changed_under=render(q)),
                                  "content under the excluded path %s changes the entries elsewhere: %r vs %r" % (
                                      render(q), [x for x in a if x not in b][:3], [x for x in b if x not in a][:3])))
                flags["indep"] = True
                if not set_member_hit(t1, t2, opt, spec) and not set_member_hit(t1b, t2b, opt):
                    flags["indep_case"] = (t1b, t2b, a == b)
    return fails, nontrivial, got, flags


def model_expr(t1, t2, opt, spec, hits=()):
    def tbl(k):
        return core.coq_list(cb_table(opt[k], t1, t2)) if opt.get(k) else "[]"

    def otbl(k):
        return "(Some %s)" % core.coq_list(cb_table(opt[k], t1, t2)) if opt.get(k) else "None"
    return "c13_case_v %s %s %s %s %s %s %s %s %s %s %s %s %s %s" % (
        D.coq_udiff_table(D.udiff_table(t1, t2)), D.coq_ops_table(D.opcode_table(t1, t2)),
        core.coq_list(D.coq_pathc(p) for p in spec.rx_table()),
        core.coq_list("(%s, %d)" % (D.coq_pathc(p), i) for p, i in hits),
        core.coq_list(core.coq_pystr(s) for s in opt.get("ex", ())),
        core.coq_list(core.coq_pystr(s) for s in opt.get("inc", ())),
        core.coq_list(TYPES[n][1] for n in opt.get("ty", ())), tbl("cb"), tbl("cbs"), otbl("icb"), otbl("icbs"),
        D.coq_cfg(opt["zip"], opt["thr"]), V.to_coq(t1), V.to_coq(t2))


def _work(args):
    seed, npairs, nopts = args
    sys.path.insert(0, core.REPO)
    rng = random.Random(seed)
    cases, fails, counts, seen, samples, breaks, gcases = [], [], {}, [], [], [], []

    def cnt(k, n=1):
        counts[k] = counts.get(k, 0) + n
    for _ in range(npairs):
        r = rng.random()
        if r < 0.3:
            t1, t2 = gen_pair_records(rng)
        elif r < 0.48:
            t1, t2 = gen_boundary_pair(rng)
            cnt("pairs_on_guard_boundaries")
            if D.set_alias(t1, t2) or len(all_positions(t1, t2)) < 3:
                t1, t2 = gen_pair(rng)
        else:
            t1, t2 = gen_pair(rng)
        shared_obj = None
        if rng.random() < 0.5:
            sp = share_pair(rng, t1, t2)
            if sp:
                t1, t2, shared_obj = sp
                cnt("pairs_with_shared_object")
        P = all_positions(t1, t2)
        base = {}
        b0 = run_tree(t1, t2, {"zip": True, "thr": 0})[0]
        hot = []
        if not isinstance(b0, tuple):
            keys = set()
            for e in b0:
                for n in range(1, len(e[1]) + 1):
                    keys.add(json.dumps(e[1][:n]))
                    # the siblings of every level on the way
                    keys.update(json.dumps(p) for p in P if len(p) == n and p[:n - 1] == e[1][:n - 1])
            hot = [p for p in P if json.dumps(p) in keys]
            base[(True, 0)] = (b0, run_text(t1, t2, {"zip": True, "thr": 0}))
        for opt in gen_options(rng, t1, t2, P, nopts, hot):
            if shared_obj:
                opt["share"] = shared_obj
            vo = value_opts(opt)
            bk = (opt["zip"], opt["thr"]) if not vo else (opt["zip"], opt["thr"], json.dumps(vo, sort_keys=True))
            if bk not in base:
                bopt = dict(vo, zip=opt["zip"], thr=opt["thr"])
                base[bk] = (run_tree(t1, t2, bopt)[0], None if vo else run_text(t1, t2, bopt))
            bt, bx = base[bk]
            fs, nontriv, got, flags = oracle_one(t1, t2, opt, bt, bx, rng)
            fails += fs
            seen.append((repr((repr(t1), repr(t2), sorted(opt.items()))), nontriv))
            cnt("opt:" + opt["kind"])
            cnt("mode:" + ("positional" if opt["zip"] else "default"))
            cnt("thr:%s" % opt["thr"])
            cnt("in_quantifier" if flags["inq"] else "outside_quantifier(correspondence only)")
            for k in vo:
                cnt("value_option:" + k)
            if flags.get("outside_value"):
                cnt("value_option_shadowed_or_overriding(correspondence only)")
            if flags.get("exact"):
                cnt("exactness_observed:" + flags["exact"])
            if flags.get("exact_break"):
                breaks.append(flags["exact_break"])
            if nontriv:
                cnt("filter_removed_some_kept_some")
            if flags.get("indep"):
                cnt("independence_variants")
            cnt("positions<=8" if len(P) <= 8 else "positions<=20" if len(P) <= 20 else "positions>20")
            if isinstance(got, tuple):
                cnt("raised")
                continue
            spec = Spec(P, opt.get("ex", ()), opt.get("rx", ()), opt.get("inc", ()))
            a, b = flags["objs"]
            hits, hit, inc_hit, shared = set_hits(a, b, opt, spec)
            if inc_hit:
                cnt("set_member_dropped_by_include(no correspondence)")
                continue
            if hit and shared:
                cnt("set_member_hit_with_shared_memo(no correspondence)")
                continue
            if hit:
                cnt("set_member_hit(in correspondence)")
            cases.append((model_expr(a, b, opt, spec, hits), got, case_dict(t1, t2, opt)))
            # the hypotheses of the guarded theorems as Coq booleans on the inputs of this real run
            if flags.get("exact") and "eq_holds" in flags:
                gcases.append(("c13_xguard %s %s %s %s %s" % (
                    core.coq_list(D.coq_pathc(p) for p in spec.rx_table()),
                    core.coq_list(core.coq_pystr(s) for s in opt.get("ex", ())),
                    D.coq_cfg(opt["zip"], opt["thr"]), V.to_coq(a), V.to_coq(b)),
                    flags["eq_holds"], case_dict(t1, t2, opt, theorem="C13_exclude_threshold_exact")))
                cnt("coq_xguard_evaluated:" + ("equation_holds" if flags["eq_holds"] else "equation_fails"))
            if flags.get("indep_case") and not vo:
                t1b, t2b, same = flags["indep_case"]
                gcases.append(("c13_indep_implies %s %s %s %s %s %s %s %s" % (
                    core.coq_list(D.coq_pathc(p) for p in spec.rx_table()),
                    core.coq_list(core.coq_pystr(s) for s in opt.get("ex", ())),
                    D.coq_cfg(opt["zip"], opt["thr"]), V.to_coq(t1), V.to_coq(t2), V.to_coq(t1b), V.to_coq(t2b), core.coq_bool(same)),
                    True, case_dict(t1, t2, opt, t1b=repr(t1b), t2b=repr(t2b), theorem="C13_exclude_independent_guarded")))
                cnt("coq_independence_hypotheses_evaluated")
            if flags.get("exact_d") and "eq_holds" in flags:
                gcases.append(("c13_xguard_any %s %s %s %s %s %s" % (
                    core.coq_list(D.coq_pathc(p) for p in spec.rx_table()),
                    core.coq_list(core.coq_pystr(s) for s in opt.get("ex", ())),
                    D.coq_cfg(opt["zip"], opt["thr"]), V.to_coq(a), V.to_coq(b), core.coq_bool(flags["eq_holds"])),
                    True, case_dict(t1, t2, opt, theorem="C13_exclude_threshold_exact_any_mode")))
                cnt("coq_xguard_default_mode_evaluated:" + ("equation_holds" if flags["eq_holds"] else "equation_fails"))
            if flags.get("exact") and "eq_holds" in flags:
                pass
            elif (opt.get("inc") and not opt.get("ex") and not opt.get("rx") and not vo and not hit and "eq_holds" in flags
                  and all(x.startswith("root") for x in opt["inc"]) and len(spec.inc_paths) == len(set(opt["inc"]))):
                gcases.append(("c13_iguard_implies %s %s %s %s %s" % (
                    core.coq_list(D.coq_pathc(q) for q in spec.inc_paths),
                    D.coq_cfg(opt["zip"], opt["thr"]), V.to_coq(a), V.to_coq(b), core.coq_bool(flags["eq_holds"])),
                    True, case_dict(t1, t2, opt, theorem="C13_include_guarded")))
                cnt("coq_iguard_evaluated:" + ("equation_holds" if flags["eq_holds"] else "equation_fails"))
            if len(samples) < 2 and nontriv:
                samples.append(case_dict(t1, t2, opt, filtered_entries=len(got), unrestricted_entries=len(bt)))
    return cases, fails, counts, seen, samples, breaks, gcases


# --------------------------------------------------------------------------
# fixed witnesses: the Coq _refuted witnesses replayed on the implementation
# --------------------------------------------------------------------------

WITNESSES = [
    # (name, t1, t2, opt, expected filtered text result)
    ("C13_include_nonstring_refuted", {1: 5, 'a': 1}, {1: 6, 'a': 2},
     {"zip": True, "thr": 0, "inc": ["root[1]"], "kind": "witness"}, {}),
    ("C13_exclude_threshold_refuted", {'a': 1, 'b': 2}, {'a': 1, 'x': 2, 'y': 3},
     {"zip": True, "thr": 0.33, "ex": ["root['y']"], "kind": "witness"},
     {'dictionary_item_added': ["root['x']"], 'dictionary_item_removed': ["root['b']"]}),
    ("C13_exclude_default_index_refuted", [1, 2], [2, 3],
     {"zip": False, "thr": 0, "ex": ["root[0]"], "kind": "witness"},
     {'iterable_item_added': {'root[1]': 3}}),
    ("C13_include_default_index_refuted", [1, 2], [2, 3],
     {"zip": False, "thr": 0, "inc": ["root[1]"], "kind": "witness"},
     {'iterable_item_added': {'root[1]': 3}}),
    ("C13_include_substring_refuted", [{'xroot[1]': 1}, 5], [{'xroot[1]': 2}, 6],
     {"zip": True, "thr": 0, "inc": ["root[0]['xroot[1]']"], "kind": "witness"},
     {'values_changed': {"root[0]['xroot[1]']": {'new_value': 2, 'old_value': 1}, 'root[1]': {'new_value': 6, 'old_value': 5}}}),
    ("C13_exclude_independence_threshold_refuted (with the excluded key)", {'a': 1, 'b': 2}, {'a': 1, 'c': 2},
     {"zip": True, "thr": 0.33, "ex": ["root['a']"], "kind": "witness"},
     {'dictionary_item_added': ["root['c']"], 'dictionary_item_removed': ["root['b']"]}),
    ("C13_exclude_independence_threshold_refuted (without it)", {'b': 2}, {'c': 2},
     {"zip": True, "thr": 0.33, "ex": ["root['a']"], "kind": "witness"},
     {'values_changed': {'root': {'new_value': {'c': 2}, 'old_value': {'b': 2}}}}),
    ("C13_exclude_independent_alias_refuted (dict under key 1)", {1: {'x': 1}}, {True: {'x': 2}},
     {"zip": True, "thr": 0, "ex": ["root[1]"], "kind": "witness"},
     {'values_changed': {"root[True]['x']": {'new_value': 2, 'old_value': 1}}}),
    ("exclude_under_include_witness (K13d)", {'a': {'b': 1, 'c': 2}}, {'a': {'b': 2, 'c': 3}},
     {"zip": True, "thr": 0, "ex": ["root['a']['b']"], "inc": ["root['a']"], "kind": "witness"},
     {'values_changed': {"root['a']['b']": {'new_value': 2, 'old_value': 1}, "root['a']['c']": {'new_value': 3, 'old_value': 2}}}),
    ("C13_set_member_index_refuted (K13c)", {1, 2}, {2, 3},
     {"zip": True, "thr": 0, "rx": [r"\[0\]$"], "kind": "witness"},
     {'set_item_added': ['root[3]']}),
    ("include_substring_sibling_refuted", {"xroot['a']": 1, 'a': 1, 'b': 1}, {"xroot['a']": 2, 'a': 2, 'b': 2},
     {"zip": True, "thr": 0, "inc": ["root[\"xroot['a']\"]"], "kind": "witness"},
     {'values_changed': {"root['a']": {'new_value': 2, 'old_value': 1}}}),
    # round 3: the guard examples (the guard holds: the filter equation is met) and the new refutations
    ("xguard_below_excluded_example", {'k': {'a': 1, 'b': 2}, 'z': 1, 'w': 3}, {'k': {'a': 1, 'x': 2, 'y': 3}, 'z': 2, 'w': 3},
     {"zip": True, "thr": 0.33, "ex": ["root['k']", "root['k']['y']"], "kind": "witness"},
     {'values_changed': {"root['z']": {'new_value': 2, 'old_value': 1}}}),
    ("xguard_default_index_example", [{'a': 1}, 2, 3], [{'a': 2}, 3, 4],
     {"zip": False, "thr": 0.33, "ex": ["root[1]"], "kind": "witness"},
     {'values_changed': {"root[0]['a']": {'new_value': 2, 'old_value': 1}, 'root[2]': {'new_value': 4, 'old_value': 3}}}),
    ("iguard_example", {'a': [{'b': 1, 'c': 2}, 7], 'z': 1}, {'a': [{'b': 2, 'c': 3}, 8], 'z': 2},
     {"zip": False, "thr": 0.33, "inc": ["root['a'][0]['b']"], "kind": "witness"},
     {'values_changed': {"root['a'][0]['b']": {'new_value': 2, 'old_value': 1}}}),
    ("C13_include_threshold_refuted", {'a': 1, 'b': 2, 'c': 3}, {'a': 2, 'x': 2, 'y': 3},
     {"zip": True, "thr": 0.33, "inc": ["root['a']"], "kind": "witness"},
     {'values_changed': {"root['a']": {'new_value': 2, 'old_value': 1}}}),
    ("C13_include_shadows_types_refuted", {'a': {'b': 1, 'c': 'x'}}, {'a': {'b': 2, 'c': 'y'}},
     {"zip": True, "thr": 0, "inc": ["root['a']"], "ty": ["int"], "kind": "witness"},
     {'values_changed': {"root['a']['b']": {'new_value': 2, 'old_value': 1}, "root['a']['c']": {'new_value': 'y', 'old_value': 'x'}}}),
    ("ignore_order (outside the quantifier, not modelled): an exclusion changes the item hashes, hence the pairing - root[1]['n'] is NOT an entry of the unrestricted ignore-order run",
     [{'id': 1, 'v': 1, 'n': 'a'}, {'id': 2, 'v': 2, 'n': 'b'}], [{'id': 2, 'v': 2, 'n': 'B'}, {'id': 1, 'v': 9, 'n': 'a'}],
     {"zip": False, "thr": 0.33, "io": True, "rx": [r"\['v'\]$"], "kind": "witness"},
     {'values_changed': {"root[1]['n']": {'new_value': 'B', 'old_value': 'b'}}}),
    ("C13_value_exclusion_default_refuted", [1, 'a'], ['a', 'b'],
     {"zip": False, "thr": 0, "ty": ["int"], "kind": "witness"},
     {'iterable_item_added': {'root[1]': 'b'}}),
    ("include_callback_overrides_exclude_witness", {'a': 1, 'b': 's'}, {'a': 2, 'b': 't'},
     {"zip": True, "thr": 0, "ex": ["root['a']"], "icb": ["int_mod", 1, 0], "kind": "witness"},
     {'values_changed': {"root['a']": {'new_value': 2, 'old_value': 1}}}),
]


def witnesses(ctx):
    from deepdiff import DeepDiff
    for name, t1, t2, opt, expected in WITNESSES:
        r = DeepDiff(copy.deepcopy(t1), copy.deepcopy(t2), **dd_kwargs(opt))
        ctx.evaluations += 1
        if dict(r) != expected and {k: (list(v) if not isinstance(v, dict) else v) for k, v in r.items()} != expected:
            ctx.break_("correspondence", {"name": "witness " + name, "impl": repr(r), "expected_defective_result": repr(expected),
                                          "meaning": "the implementation no longer shows the defect the Coq witness records: the model is stale here"})


# --------------------------------------------------------------------------
# dict keys of the extended kinds (date, datetime, Decimal, tuple): outside the Coq universe, so no
# correspondence - the property itself, on the implementation's OWN path strings (level.path() of every
# reported level and of its ancestors): literal / regex exclusion of such a string removes exactly the
# entries at or below it
# --------------------------------------------------------------------------

def ext_keys():
    import datetime
    from decimal import Decimal
    return [datetime.date(2020, 1, 1), datetime.date(2020, 1, 2), datetime.datetime(2020, 1, 1, 10, 0),
            datetime.datetime(2020, 1, 1, 10, 0, 5), Decimal("1.5"), Decimal("2"), (1, 2), ("a", 1), (1,),
            "a", "b", "it's", 1, 2.5, None, True]


def gen_ext_pair(rng):
    ks = ext_keys()

    def val(d):
        r = rng.random()
        if d > 0 and r < 0.35:
            return {k: val(d - 1) for k in rng.sample(ks, rng.randint(1, 3))}
        if d > 0 and r < 0.5:
            return [val(d - 1) for _ in range(rng.randint(1, 3))]
        return rng.randint(0, 5)

    def edit(v):
        if isinstance(v, dict):
            out = {}
            for k, x in v.items():
                r = rng.random()
                if r < 0.12:
                    continue
                out[k] = edit(x) if r < 0.75 else x
            if rng.random() < 0.25:
                out[rng.choice(ks)] = rng.randint(6, 9)
            return out
        if isinstance(v, list):
            out = [edit(x) if rng.random() < 0.6 else x for x in v]
            if rng.random() < 0.2:
                out.append(rng.randint(6, 9))
            return out
        return v + rng.randint(1, 3) if rng.random() < 0.8 else v
    t1 = {k: val(2) for k in rng.sample(ks, rng.randint(2, 5))}
    return t1, edit(t1)


def ext_entries(t1, t2, opt):
    """[(kind, path string, [path strings of the level and its ancestors], repr t1, repr t2)]"""
    from deepdiff import DeepDiff
    r = DeepDiff(copy.deepcopy(t1), copy.deepcopy(t2), view="tree", **dd_kwargs(opt))
    out = []
    for kind in D.KINDS:
        for lv in r.get(kind, []) or []:
            chain, x = [], lv
            while x is not None:
                chain.append(x.path())
                x = x.up
            out.append((kind, lv.path(), chain, repr(lv.t1), repr(lv.t2)))
    return sorted(out, key=repr)


def ext_check(t1, t2, opt, base=None):
    """-> (what or None, nontrivial, candidate path strings)"""
    if base is None:
        base = ext_entries(t1, t2, {"zip": opt["zip"], "thr": 0})
    exs = set(opt.get("ex", ()))
    rxs = [crx(r) for r in opt.get("rx", ())]
    want = [e for e in base if not any(p in exs or any(r.search(p) for r in rxs) for p in e[2])]
    try:
        got = ext_entries(t1, t2, opt)
    except Exception as e:  # noqa
        return "the filtered run raises %s: %s" % (type(e).__name__, str(e)[:150]), False
    if [e[:2] + e[3:] for e in got] != [e[:2] + e[3:] for e in want]:
        return ("extended dict keys: filtered result is not the unrestricted result minus the entries at or below the excluded "
                "path strings: unexpected %r, missing %r" % ([e[:2] for e in got if e not in want][:3], [e[:2] for e in want if e not in got][:3])), False
    return None, 0 < len(want) < len(base)


def ext_stream(ctx, n):
    rng = random.Random(ctx.rng.randrange(1 << 30))
    for _ in range(n):
        t1, t2 = gen_ext_pair(rng)
        zip_ = rng.random() < 0.5
        try:
            base = ext_entries(t1, t2, {"zip": zip_, "thr": 0})
        except Exception:  # noqa
            ctx.count("ext_keys:unrestricted_run_raises")
            continue
        cand = sorted(set(p for e in base for p in e[2] if p != "root" and (zip_ or not re.search(r"\[\d+\]$", p))))
        if not cand:
            continue
        for _k in range(3):
            kind = rng.choice(["lit1", "lit1", "lit2", "rx_exact", "rx_prefix", "lit_rx"])
            opt = {"kind": "ext_" + kind, "zip": zip_, "thr": 0}
            if kind in ("lit1", "lit2", "lit_rx"):
                opt["ex"] = sorted(set(rng.choice(cand) for _i in range(2 if kind == "lit2" else 1)))
            if kind in ("rx_exact", "lit_rx"):
                opt["rx"] = ["^" + re.escape(rng.choice(cand)) + "$"]
            if kind == "rx_prefix":
                opt["rx"] = ["^" + re.escape(rng.choice(cand))]
            opt["shape"] = {k: rng.choice(SHAPES) for k in ("ex", "rx") if opt.get(k)}
            what, nontriv = ext_check(t1, t2, opt, base)
            ctx.evaluations += 1
            ctx.count("ext_keys:" + kind)
            ctx.seen(repr((repr(t1), repr(t2), sorted(opt.items(), key=repr))), nontrivial=nontriv)
            if what:
                ctx.fail({"ext": True, "t1": repr(t1), "t2": repr(t2), "opt": opt}, what)


# --------------------------------------------------------------------------
# ignore_order=True: OUTSIDE the property's quantifier (positional and default alignment mode) and outside the
# model.  The filter equation is evaluated and COUNTED as an extension: under ignore_order an exclusion also
# changes the DeepHash of every container above the excluded position, hence which items are equal / paired -
# entries appear that the unrestricted run does not have (fixed witness below).
# --------------------------------------------------------------------------

def io_stream(ctx, n):
    rng = random.Random(ctx.rng.randrange(1 << 30))
    for _ in range(n):
        t1, t2 = gen_pair_records(rng) if rng.random() < 0.5 else gen_pair(rng)
        P = all_positions(t1, t2)
        for opt in gen_options(rng, t1, t2, P, 2):
            if value_opts(opt) or opt["kind"] in ("set_idx", "rx_flags"):
                continue
            opt = dict(opt, io=True, zip=False, thr=0)
            spec = Spec(P, opt.get("ex", ()), opt.get("rx", ()), opt.get("inc", ()))
            base = run_tree(t1, t2, {"zip": False, "thr": 0, "io": True})[0]
            got = run_tree(t1, t2, opt)[0]
            ctx.evaluations += 1
            if isinstance(base, tuple) or isinstance(got, tuple):
                ctx.count("ignore_order:raised")
                continue
            want = [e for e in base if spec.keep(e[1])]
            ctx.count("ignore_order:equation_holds" if got == want else "ignore_order:equation_fails")
            if got != want:
                ctx.fail(case_dict(t1, t2, opt), "ignore_order=True: the filtered result is not the unrestricted ignore-order result restricted to the kept paths")


# --------------------------------------------------------------------------
# source tie (round 5): DeepDiff._skip_this / _skip_this_key, DeepHash._skip_this, add_root_to_paths and
# convert_item_or_items_into_set_else_none are re-translated from the CURRENT source on every run
# (harness/translate/skipthis.py -> DDGen.FilterGen) and proved equal to the hand-written model
# (coq/srctie/FilterGenEquiv.v).  When that tie is not intact: the run assembled from the generated parts and
# the hand-written run are evaluated INSIDE Coq on a directed family + random cases; the first cases on which
# they differ are judged by the ordinary correspondence comparison and the direct oracle on the real DeepDiff.
# --------------------------------------------------------------------------

SOURCE_TIES = [{
    "name": "skipthis", "translator": "skipthis", "gen_module": "FilterGen", "equiv": ["FilterGenEquiv"],
    "needs": ["Filter.FilterModelV", "Filter.FilterTie", "Filter.FilterTieFacts", "Filter.FilterExact", "Filter.FilterVPath",
              "Filter.FilterInclude", "Filter.FilterExclude", "Filter.FilterWitness", "Filter.FilterHash", "Filter.FilterGuard"],
    "sources": ["deepdiff/diff.py", "deepdiff/deephash.py", "deepdiff/helper.py"],
    "fragment": ("DeepDiff._skip_this, DeepDiff._skip_this_key (diff.py); DeepHash._skip_this (deephash.py); add_root_to_paths, "
                 "convert_item_or_items_into_set_else_none (helper.py); frame check of the assignments of the modelled options in "
                 "DeepDiff.__init__ / DeepHash.__init__"),
}]

TIE_HDR = (HDR[:-1] + " Filter.FilterTie.\nFrom DDGen Require Import FilterGen.\n" + r"""
Definition tie_strs (t : list path) (s : pystr) : bool := existsb (fun q => pystr_eqb s (render q)) t.
Definition tie_hit_strs (t : list (path * nat)) (s : pystr) : bool :=
  existsb (fun x => pystr_eqb s (render (fst x) ++ [cLB] ++ p_of_Z (Z.of_nat (snd x)) ++ [cRB])) t.
Definition tie_tbl (o : option (list value)) : list value := match o with Some l => l | None => [] end.
(* (the run assembled from the GENERATED definitions, the hand-written run) on the same arguments *)
Definition c13_tie_pair (ud : list (pystr * pystr * pystr)) (ot : list (path * list opcode))
    (rx_given : bool) (rxt : list path) (rxht : list (path * nat)) (exarg incarg : paths_arg) (ex inc : list pystr)
    (TY : list ty) (cbo cbso icbo icbso : option (list value)) (c : cfg) (t1 t2 : value) : sx * sx :=
  let RXS := if rx_given then [fun s => tie_strs rxt s || tie_hit_strs rxht s] else [] in
  let EX := g_init_paths exarg in
  let INC := g_init_paths incarg in
  let CB := option_map tbl_values cbo in let CBS := option_map tbl_values cbso in
  let ICB := option_map tbl_values icbo in let ICBS := option_map tbl_values icbso in
  (sx_entries (run_diffv hatom_simple (tbl_udiff ud) (tbl_ops ot)
     (fun p a b => g__skip_this RXS EX INC TY CB CBS ICB ICBS (mkLevel p a b))
     (excl_this EX)
     (fun p k => g__skip_this_key INC (mkLevel p None None) k)
     (fun p i => g_DeepHash__skip_this RXS EX [] [] None None (render p ++ [cLB] ++ p_of_Z (Z.of_nat i) ++ [cRB]))
     c t1 t2),
   c13_case_v ud ot rxt rxht ex inc TY (tie_tbl cbo) (tie_tbl cbso) icbo icbso c t1 t2).
(* WHICH generated function differs from its hand-written counterpart, and where: evaluated on the positions P / dict keys K
   of one case, every function on the SAME (hand-normalised) option values *)
Definition tie_where (rx_given : bool) (rxt : list path) (rxht : list (path * nat)) (exarg incarg : paths_arg) (ex inc : list pystr)
    (TY : list ty) (cbo cbso icbo icbso : option (list value)) (P : list path) (K : list atom) (t1 t2 : value) : sx :=
  let RXS := if rx_given then [fun s => tie_strs rxt s || tie_hit_strs rxht s] else [] in
  let EX := add_root_to_paths ex in
  let INC := add_root_to_paths inc in
  let CB := option_map tbl_values cbo in let CBS := option_map tbl_values cbso in
  let ICB := option_map tbl_values icbo in let ICBS := option_map tbl_values icbso in
  let strs_eqb := fun a b : list pystr => sx_eqb (sx_list sx_str a) (sx_list sx_str b) in
  let objs := fun p => [(sub t1 p, sub t2 p); (sub t1 p, None); (None, sub t2 p)] in
  SL ((if strs_eqb (g_init_paths exarg) EX then [] else
         [SL [SA "__init__/add_root_to_paths/convert_item_or_items_into_set_else_none: self.exclude_paths ="; sx_list sx_str (g_init_paths exarg);
              SA "hand model:"; sx_list sx_str EX]])
   ++ (if strs_eqb (g_init_paths incarg) INC then [] else
         [SL [SA "__init__/add_root_to_paths/convert_item_or_items_into_set_else_none: self.include_paths ="; sx_list sx_str (g_init_paths incarg);
              SA "hand model:"; sx_list sx_str INC]])
   ++ flat_map (fun p => flat_map (fun ab =>
         let g := g__skip_this RXS EX INC TY CB CBS ICB ICBS (mkLevel p (fst ab) (snd ab)) in
         let h := skip_full (rx_of RXS) EX INC TY (cb_of CB) (cb_of CBS) ICB ICBS p (fst ab) (snd ab) in
         if Bool.eqb g h then [] else
           [SL [SA "DeepDiff._skip_this at level"; sx_str (render p); SA "t1 present:"; sx_bool (if fst ab then true else false);
                SA "t2 present:"; sx_bool (if snd ab then true else false); SA "code says skip ="; sx_bool g; SA "hand model:"; sx_bool h]]) (objs p)) P
   ++ flat_map (fun p => flat_map (fun k =>
         let g := g__skip_this_key INC (mkLevel p None None) k in
         let h := skip_this_key INC p k in
         if Bool.eqb g h then [] else
           [SL [SA "DeepDiff._skip_this_key at level"; sx_str (render p); SA "key"; sx_str (str_atom k); SA "code says skip ="; sx_bool g;
                SA "hand model:"; sx_bool h]]) K) P
   ++ flat_map (fun p => flat_map (fun i =>
         let g := g_DeepHash__skip_this RXS EX [] [] None None (render p ++ [cLB] ++ p_of_Z (Z.of_nat i) ++ [cRB]) in
         let h := hit_this (rxh_of RXS) EX p i in
         if Bool.eqb g h then [] else
           [SL [SA "DeepHash._skip_this on the set member pseudo-path"; sx_str (render p ++ [cLB] ++ p_of_Z (Z.of_nat i) ++ [cRB]);
                SA "code says skip ="; sx_bool g; SA "hand model:"; sx_bool h]]) [0; 1; 2]) P).
""").replace("Filter.FilterTie.\nFrom DDGen", "Filter.FilterVPath Filter.FilterTie.\nFrom DDGen")


def coq_paths_arg(items, shape):
    items = list(items or ())
    if shape == "bare" and len(items) == 1:
        return "(PBare %s)" % core.coq_pystr(items[0])
    return "(PItems %s)" % core.coq_list(core.coq_pystr(s) for s in items)


def tie_expr(t1, t2, opt):
    """Coq term of type sx * sx: (generated run, hand-written run) of one case"""
    P = all_positions(t1, t2)
    spec = Spec(P, opt.get("ex", ()), opt.get("rx", ()), opt.get("inc", ()))
    hits = set_hits(t1, t2, opt, spec)[0]
    sh = opt.get("shape") or {}

    def otbl(k):
        return "(Some %s)" % core.coq_list(cb_table(opt[k], t1, t2)) if opt.get(k) else "None"
    return "c13_tie_pair %s %s %s %s %s %s %s %s %s %s %s %s %s %s %s %s %s" % (
        D.coq_udiff_table(D.udiff_table(t1, t2)), D.coq_ops_table(D.opcode_table(t1, t2)),
        core.coq_bool(bool(opt.get("rx"))),
        core.coq_list(D.coq_pathc(p) for p in spec.rx_table()),
        core.coq_list("(%s, %d)" % (D.coq_pathc(p), i) for p, i in hits),
        coq_paths_arg(opt.get("ex"), sh.get("ex")), coq_paths_arg(opt.get("inc"), sh.get("inc")),
        core.coq_list(core.coq_pystr(s) for s in opt.get("ex", ())),
        core.coq_list(core.coq_pystr(s) for s in opt.get("inc", ())),
        core.coq_list(TYPES[n][1] for n in opt.get("ty", ())), otbl("cb"), otbl("cbs"), otbl("icb"), otbl("icbs"),
        D.coq_cfg(opt["zip"], opt["thr"]), V.to_coq(t1), V.to_coq(t2))


TIE_PAIRS = [
    ({'a': {'b': 1, 'c': 2}, 'd': [1, {'e': 1}], 'f': 'x'}, {'a': {'b': 2, 'c': 3}, 'd': [2, {'e': 2}], 'f': 'y'}),
    ({'s': {1, 2}, 'k': 1, 'a': {'k': 1}}, {'s': {2, 3}, 'k': 2, 'a': {'k': 2, 'n': 1}}),
    ([1, 'a', None, {'x': 1, 1: 2}], ['a', 2, 3, {'x': 2, 'y': 1, 1: 3}]),
    ({'a': 1, 'ab': {'a': 1}, '1': 5, 2: 6}, {'a': 2, 'ab': {'a': 2}, '1': 6, 2: 7}),
]
TIE_CBS = [["int_mod", 2, 0], ["int_mod", 1, 0], ["str_has", ""], ["cont_or", ["int_mod", 2, 1]], ["len_ge", 0], ["num_ge", 2]]


def tie_directed():
    """a small, deterministic family aimed at every branch of the if / elif chain of _skip_this, at _skip_this_key,
    at the normalisation of the two path options and at the DeepHash side: every position of a few pairs whose
    leaves all differ x every single option x pairs of options (the chain's precedence)"""
    out = []
    for t1, t2 in TIE_PAIRS:
        P = [p for p in all_positions(t1, t2)]
        strs = [render(p) for p in P]
        inc_ok = [render(p) for p in P if p]
        singles = []
        for s in strs:
            singles.append({"ex": [s]})
            singles.append({"rx": ["^" + re.escape(s) + "$"]})
            singles.append({"rx": ["^" + re.escape(s)]})
        for s in inc_ok:
            singles.append({"inc": [s]})
        for n in ("int", "str", "dict", "list", "NoneType", "set"):
            singles.append({"ty": [n]})
        for k in ("cb", "cbs", "icb", "icbs"):
            for spec in TIE_CBS:
                singles.append({k: spec})
        tops = [D.uncanon_atom(p[0][1]) for p in P if len(p) == 1 and p[0][0] == "k" and isinstance(D.uncanon_atom(p[0][1]), str)]
        for k in tops:                                  # un-rooted spellings: add_root_to_paths
            singles.append({"ex": [k]})
            singles.append({"inc": [k]})
        singles.append({"ex": ["1"]})
        singles.append({"ex": ["2"]})
        singles.append({"ex": ["1b"]})
        for i in range(3):                              # the DeepHash side: pseudo-paths of set members
            for p in P:
                if isinstance(_at(t1, p), (set, frozenset)):
                    singles.append({"ex": ["%s[%d]" % (render(p), i)]})
                    singles.append({"rx": [r"\[%d\]$" % i]})
        pairs = []
        some = strs[1:6]
        for s in inc_ok[:6]:
            for q in some:
                pairs.append({"inc": [s], "ex": [q]})
                pairs.append({"inc": [s], "rx": ["^" + re.escape(q) + "$"]})
            for n in ("int", "str", "dict"):
                pairs.append({"inc": [s], "ty": [n]})
            for k in ("cb", "cbs", "icb", "icbs"):
                pairs.append({"inc": [s], k: TIE_CBS[0]})
                pairs.append({"inc": [s], k: TIE_CBS[3]})
        for q in some:
            for n in ("int", "str"):
                pairs.append({"ex": [q], "ty": [n]})
                pairs.append({"rx": ["^" + re.escape(q) + "$"], "ty": [n]})
            for k in ("cb", "cbs", "icb", "icbs"):
                pairs.append({"ex": [q], k: TIE_CBS[0]})
                pairs.append({"ex": [q], k: TIE_CBS[3]})
                pairs.append({"rx": ["^" + re.escape(q)], k: TIE_CBS[3]})
        for a, b in (("ty", "cb"), ("ty", "icb"), ("cb", "cbs"), ("cb", "icb"), ("cbs", "icbs"), ("icb", "icbs")):
            va = ["int"] if a == "ty" else TIE_CBS[0]
            pairs.append({a: va, b: TIE_CBS[3]})
            pairs.append({a: va, b: TIE_CBS[1]})
        for j, o in enumerate(singles + pairs):
            opt = dict(o, kind="tie_directed", zip=(j % 5 != 4), thr=(0 if j % 7 else 0.33))
            shapes = ("list", "bare", "set", "tuple")
            opt["shape"] = {k: shapes[(j + i) % 4] for i, k in enumerate(("ex", "rx", "inc", "ty")) if opt.get(k)}
            if D.set_alias(t1, t2):
                continue
            out.append((t1, t2, opt))
    return out


def tie_random(rng, npairs, nopts):
    out = []
    for _ in range(npairs):
        r = rng.random()
        t1, t2 = gen_pair_records(rng) if r < 0.3 else gen_boundary_pair(rng) if r < 0.45 else gen_pair(rng)
        if D.set_alias(t1, t2) or D.tag_unsafe(t1, t2):
            continue
        P = all_positions(t1, t2)
        if len(P) < 3 or len(P) > 40:
            continue
        for opt in gen_options(rng, t1, t2, P, nopts):
            out.append((t1, t2, opt))
    return out


def tie_difference(ctx, cases, shard=120):
    """evaluate (generated run, hand-written run) inside Coq; -> (indices of the cases on which they differ, error or None)"""
    from concurrent.futures import ThreadPoolExecutor
    import os
    ctx.ensure_built(HDR[:-1] + " Filter.FilterVPath Filter.FilterTie.")
    gen_dir = os.path.join(ctx.scratch, "srctie")
    files = []
    for k in range(0, len(cases), shard):
        fn = os.path.join(ctx.scratch, "tiediff_%d.v" % (k // shard))
        with open(fn, "w") as f:
            f.write("From Coq Require Import List String ZArith NArith Bool.\nImport ListNotations.\nFrom DD Require Import Base.Sx.\n")
            f.write(TIE_HDR + "\nLocal Open Scope string_scope.\nDefinition cases : list (sx * sx) := [\n")
            f.write(";\n".join("(%s)" % tie_expr(t1, t2, opt) for (t1, t2, opt) in cases[k:k + shard]))
            f.write("\n].\nEval vm_compute in run_cases cases.\n")
        files.append(fn)

    def one(fn):
        return core.sh(["coqc", "-Q", core.THEORIES, "DD", "-Q", gen_dir, "DDGen", fn], timeout=900, cwd=ctx.scratch)
    with ThreadPoolExecutor(max_workers=core.NCPU) as ex:
        results = list(ex.map(one, files))
    bad, err = [], None
    for k, (rc, out) in enumerate(results):
        m = re.search(r'"BEGIN\n(.*)END"', out, re.S)
        if rc != 0 or not m:
            err = err or out[-800:]
            continue
        for line in m.group(1).splitlines():
            if line.strip():
                bad.append(k * shard + int(line.partition("\t")[0]))
    return sorted(bad), err


def dict_keys_of(v):
    if isinstance(v, dict):
        for k, x in v.items():
            yield k
            yield from dict_keys_of(x)
    elif isinstance(v, (list, tuple)):
        for x in v:
            yield from dict_keys_of(x)


def tie_localise(ctx, t1, t2, opt):
    """which of the generated functions differs from its hand-written counterpart on the positions / keys of this case (text)"""
    import os
    P = all_positions(t1, t2)
    spec = Spec(P, opt.get("ex", ()), opt.get("rx", ()), opt.get("inc", ()))
    hits = set_hits(t1, t2, opt, spec)[0]
    sh = opt.get("shape") or {}
    keys, seen = [], set()
    for k in list(dict_keys_of(t1)) + list(dict_keys_of(t2)):
        c = V.to_coq(k)
        if c not in seen:
            seen.add(c)
            keys.append(c)

    def otbl(k):
        return "(Some %s)" % core.coq_list(cb_table(opt[k], t1, t2)) if opt.get(k) else "None"
    expr = "tie_where %s %s %s %s %s %s %s %s %s %s %s %s %s %s %s %s" % (
        core.coq_bool(bool(opt.get("rx"))), core.coq_list(D.coq_pathc(p) for p in spec.rx_table()),
        core.coq_list("(%s, %d)" % (D.coq_pathc(p), i) for p, i in hits),
        coq_paths_arg(opt.get("ex"), sh.get("ex")), coq_paths_arg(opt.get("inc"), sh.get("inc")),
        core.coq_list(core.coq_pystr(x) for x in opt.get("ex", ())), core.coq_list(core.coq_pystr(x) for x in opt.get("inc", ())),
        core.coq_list(TYPES[n][1] for n in opt.get("ty", ())), otbl("cb"), otbl("cbs"), otbl("icb"), otbl("icbs"),
        core.coq_list(D.coq_pathc(p) for p in P),
        core.coq_list("(match %s with VAtom a => a | _ => ANone end)" % c for c in keys), V.to_coq(t1), V.to_coq(t2))
    fn = os.path.join(ctx.scratch, "tiewhere.v")
    with open(fn, "w") as f:
        f.write("From Coq Require Import List String ZArith NArith Bool.\nImport ListNotations.\nFrom DD Require Import Base.Sx.\n")
        f.write(TIE_HDR + "\nLocal Open Scope string_scope.\nDefinition cases : list (sx * sx) := [(%s, SL [])].\n" % expr)
        f.write("Eval vm_compute in run_cases cases.\n")
    rc, out = core.sh(["coqc", "-Q", core.THEORIES, "DD", "-Q", os.path.join(ctx.scratch, "srctie"), "DDGen", fn], timeout=600, cwd=ctx.scratch)
    m = re.search(r'"BEGIN\n(.*)END"', out, re.S)
    if rc != 0 or not m:
        return "localisation failed: " + out[-400:]
    txt = m.group(1).replace('""', '"').strip()
    if not txt:
        return "each generated function agrees with its hand-written counterpart on the positions and keys of this case (the runs differ through arguments the case does not enumerate)"
    return txt.partition("\t")[2][:3000]


def judge_case(ctx, case, name, quiet=True):
    """one concrete case through the property's ordinary machinery: the direct oracle on the implementation
    (-> ctx.fail) and the correspondence comparison with the hand-written model (-> ctx.break_)"""
    t1, t2 = rebuild(case)
    opt = case["opt"]
    vo = value_opts(opt)
    bopt = dict(vo, zip=opt["zip"], thr=opt["thr"])
    bt, bx = run_tree(t1, t2, bopt)[0], (None if vo else run_text(t1, t2, bopt))
    rng = random.Random(1)
    fs, nontriv, got, flags = oracle_one(t1, t2, opt, bt, bx, rng, do_indep="t1b" not in case)
    if "t1b" in case:
        t1b, t2b = pyval(case["t1b"]), pyval(case["t2b"])
        gb, _ = run_tree(t1b, t2b, opt)
        if [e[:3] for e in got] != [e[:3] for e in gb]:
            fs.append((case, "content under the excluded path changes the entries elsewhere"))
    ctx.evaluations += 1
    if not quiet:
        print("replay: unrestricted=%r\n        filtered=%r" % (bt, got))
    verdict = {"oracle_failures": len(fs), "correspondence": "not compared"}
    for c, what in fs:
        if not quiet:
            print("replay: FAILS: " + what)
        verdict.setdefault("oracle", []).append(ctx.fail(c, what))
    if flags.get("exact_break"):
        ctx.break_("correspondence", flags["exact_break"])
        verdict["exact_break"] = True
    if not isinstance(got, tuple):
        P = all_positions(t1, t2)
        spec = Spec(P, opt.get("ex", ()), opt.get("rx", ()), opt.get("inc", ()))
        a, b = flags["objs"]
        hits, hit, inc_hit, shared = set_hits(a, b, opt, spec)
        if not inc_hit and not (hit and shared):
            bad = ctx.coq_cases(name, HDR, [(model_expr(a, b, opt, spec, hits), got, case)])
            verdict["correspondence"] = "MISMATCH" if bad else "agrees"
    else:
        verdict["raised"] = got[1]
    return verdict


def on_source_tie_break(ctx, name, rec):
    """the source tie is not intact: search for a concrete input (see the comment at the top of this section)"""
    import os
    status = rec.get("status")
    info = {"status": status}
    if not os.path.exists(os.path.join(ctx.scratch, "srctie", "FilterGen.vo")):
        info["searched"] = ("no generated model to compare with (the translator rejected the source or its output does not compile): "
                            "the streams of this run use their thorough-size budgets")
        return info
    rng = random.Random(ctx.seed ^ 0x5C13)
    directed = tie_directed()
    rnd = tie_random(rng, 500 if ctx.thorough else 220, 8)
    cases = directed + rnd
    t = time.time()
    bad, err = tie_difference(ctx, cases)
    info.update(directed_cases=len(directed), random_cases=len(rnd), differing=len(bad), coq_wall_s=round(time.time() - t, 1),
                searched=("generated run vs hand-written run evaluated inside Coq (vm_compute) on %d directed + %d random "
                          "(pair, options) cases" % (len(directed), len(rnd))))
    if err:
        info["coq_error"] = err
    judged = []
    if bad:
        info["first_differing_configuration"] = case_dict(*cases[bad[0]])
        info["first_difference_localised"] = tie_localise(ctx, *cases[bad[0]])
    for i in bad[:6]:
        t1, t2, opt = cases[i]
        case = case_dict(t1, t2, opt)
        nf, nb = len(ctx.failures), len(ctx.breaks)
        v = judge_case(ctx, case, "c13_tie_%d" % i)
        v["case"] = case
        judged.append(v)
        if len(ctx.failures) > nf or len(ctx.breaks) > nb:
            info["found"] = True  # judged like any generated case: a property failure or a model / implementation disagreement
            break
    info["judged"] = judged[:6]
    if bad and not judged:
        info["note"] = "differing cases found but none judged"
    return info


# --------------------------------------------------------------------------
def run(ctx):
    # a source tie that is not intact escalates the streams that exercise the translated fragment to their thorough size
    # (unless the differencing hook already put a concrete failing input on record: the search has then met its goal)
    found = bool((ctx.source_ties.get("skipthis", {}).get("search") or {}).get("found"))
    big = ctx.thorough or (ctx.tie_broken("skipthis") and not found)
    npairs = 3000 if big else 400
    nopts = 10 if big else 8
    nw = core.NCPU
    per = (npairs + nw - 1) // nw
    tasks = [(ctx.rng.randrange(1 << 30), per, nopts) for _ in range(nw)]
    with mp.get_context("fork").Pool(nw) as pool:
        res = pool.map(_work, tasks, chunksize=1)
    cases, gcases = [], []
    for cs, fails, counts, seen, samples, breaks, gcs in res:
        cases += cs
        gcases += gcs
        for b in breaks:
            ctx.break_("correspondence", b)
        for k, n in counts.items():
            ctx.count(k, n)
        for key, nt in seen:
            ctx.seen(key, nontrivial=nt)
        for case, what in fails:
            ctx.fail(case, what)
        for s in samples:
            ctx.sample(s)
    witnesses(ctx)
    ext_stream(ctx, 1200 if big else 150)
    with ctx.extension("ignore_order"):
        io_stream(ctx, 600 if ctx.thorough else 60)
    ctx.coq_cases("c13", HDR, cases, shard=120, label="filtered_runs")
    ctx.coq_cases("c13_guards", HDR, gcases, shard=300, label="theorem_guards_as_coq_booleans_on_real_runs")


def replay(ctx, data):
    case = data.get("case", {})
    if "t1" not in case:
        return run(ctx)
    if case.get("ext"):
        what, _nt = ext_check(pyval(case["t1"]), pyval(case["t2"]), case["opt"])
        ctx.evaluations += 1
        print("replay (extended dict keys): " + (what or "the filter equation holds"))
        if what:
            ctx.fail(case, what)
        return
    t1, t2 = rebuild(case)
    opt = case["opt"]
    vo = value_opts(opt)
    bopt = dict(vo, zip=opt["zip"], thr=opt["thr"])
    bt, bx = run_tree(t1, t2, bopt)[0], (None if vo else run_text(t1, t2, bopt))
    rng = random.Random(1)
    fs, nontriv, got, flags = oracle_one(t1, t2, opt, bt, bx, rng, do_indep="t1b" not in case)
    if "t1b" in case:
        t1b, t2b = pyval(case["t1b"]), pyval(case["t2b"])
        gb, _ = run_tree(t1b, t2b, opt)
        if [e[:3] for e in got] != [e[:3] for e in gb]:
            fs.append((case, "content under the excluded path changes the entries elsewhere"))
    ctx.evaluations += 1
    print("replay: unrestricted=%r\n        filtered=%r" % (bt, got))
    for c, what in fs:
        print("replay: FAILS: " + what)
        ctx.fail(c, what)
    if not isinstance(got, tuple):
        P = all_positions(t1, t2)
        spec = Spec(P, opt.get("ex", ()), opt.get("rx", ()), opt.get("inc", ()))
        a, b = flags["objs"]
        hits, hit, inc_hit, shared = set_hits(a, b, opt, spec)
        if not inc_hit and not (hit and shared):
            ctx.coq_cases("c13_replay", HDR, [(model_expr(a, b, opt, spec, hits), got, case)])

"""C03 - positional-mode result = the recursive definition of structural difference.

proof:           Diff/Spec.v (the obvious recursive definition, producing text-view entries)
                 Diff/DiffSpecProofs.v -> Properties/C03.v:
                 text_view 2 (run_diff positional cfg) = spec, for all well-formed values
direct oracle:   `spec_diff` below - an independent executable Python specification (the
                 property text demands one) - compared with
                 DeepDiff(t1, t2, zip_ordered_iterables=True, threshold_to_diff_deeper=0, verbose_level=2)
                 on every generated pair, completely (every category, path, old/new value and
                 type, diff text)
correspondence:  (a) the model Diff/DiffModel.v + Diff/TextView.v vs the implementation,
                 (b) the Coq specification Diff/Spec.v vs the implementation,
                 (c) the Coq specification vs the Python specification (keeps the two
                     textually independent specifications mechanically reviewed against each other)

ignore_private_variables: both values are exercised.  With the default (True) the
documented filter (str keys starting with '__' are not looked at) is part of both
specifications; with False there is no filter.
"""
import copy
import difflib

from harness import core, values as V, diffcommon as D
from harness.props.c02 import near_miss, stable_order, gen_shared_pairs

THEOREM_FILE = "Properties/C03.v"
COQCHK = ["Properties.C03"]
RULE = ("pairs of nested values over dict (str/int/float/None/bool keys; bytes keys in 12 % of the random pairs), list, tuple, set, frozenset, str (incl. multi-line, quotes, '__' prefixed), "
        "bytes (incl. multi-line, non-ASCII outside sets), int, float (half-integers), bool, None: (a) exhaustive small universe "
        "(all ordered pairs in thorough, a seeded slice in quick), (b) random independent pairs, (c) edit-script neighbours (1-3 edits of every kind at "
        "every depth) and near-miss edits (float +-0.5, int +-1, int<->float, bool<->int, str case/blank/newline, str<->bytes, list<->tuple, set<->frozenset), (d) the same with ==-aliased atoms (1/True/1.0); (e) sequences of different length at every depth, (f) one container object at 2-3 sibling positions of t1; each with ignore_private_variables in {True, False}; a third of the pairs also at verbose_level 0 and 1 (projection of the definition). "
        "Non-trivial = the expected result is non-empty; distinct by (t1, t2, ip).")
TRUSTED = ["NaN (float('nan'), math.nan, Decimal('NaN')) is outside the atom universe of the Coq model (floats are half-integers): direct oracle only, on values with NaN leaves "
           "at list / tuple / dict-value positions; rule of the definition: the same object on both sides is no difference, two distinct NaN objects are a values_changed",
           "difflib.unified_diff is an oracle (Section variable udiff in Coq; the same difflib call in the Python specification)",
           "DeepHash of set members enters the main theorem as an injective function (hypothesis); the correspondence uses the DeepHash scalar model and, for pairs whose "
           "sets contain ==-aliased numbers (finding K2), the memo-threaded model Diff/DiffMemo.v run_diff_m; the Python specification is compared on every pair",
           "path strings: the model renders key sequences with the printer model Path/PathModel.v; the Python specification has its own 6-line renderer",
           "values are tree-shaped for the model (one container object at several sibling positions of t1 is generated: a tree as far as the diff is concerned), floats are half-integers, "
           "no bytes that are not valid UTF-8 inside sets (DeepDiff raises UnicodeDecodeError asking for ignore_encoding_errors: documented)"]
ASSUMPTIONS = ["dict/set inputs satisfy Python's representation invariant (keys / members pairwise !=)",
               "the item hash is injective on set members (C03_positional_is_spec); for the DeepHash scalar model: set members tag_safe, any injective hasher "
               "(C03_positional_is_spec_deephash); the real DeepHash with its ==-keyed memo is not injective: findings K1, K2"]

STRINGS = V.STR_POOL + ["a\nb", "a\nc\n", "a\nb\n", "x\ny\nz", "a\n", "__p", "__", "_a", "it's", 'q"q', "b'\"q", "int:1", "NONE"]
BYTES = [b"a\nb", b"a\nc", b"a\nb\n", b"a\n\xff", b"\xff", b"a", b"it's"]
FINE_EDITS = [k for k in V.EDIT_KINDS if k not in ("replace_sub", "type_change")]
TYPE_NAME = {type(None): "NoneType", bool: "bool", int: "int", float: "float", str: "str", bytes: "bytes",
             list: "list", tuple: "tuple", dict: "dict", set: "set", frozenset: "frozenset"}


# ---------------------------------------------------------------------------
# The executable specification (independent of the Coq text and of deepdiff)
# ---------------------------------------------------------------------------

def spec_diff(t1, t2, ip=True, canon=None, set_diff=None):
    """Structural difference of t1 (old) and t2 (new), compared position by
    position, as the list of entries of the verbose text view.
    One and the same object at a position of both sides is no difference (this matters for
    NaN only, the one value that is not equal to itself: a NaN shared by identity - t2 derived
    from t1 by copy / deepcopy / dict(t1, k=v), or math.nan on both sides - is not a change,
    two distinct NaN objects are a values_changed, exactly as Python's != on them says).
    `set_diff` is NOT part of the definition: the known-finding matchers pass the implementation's
    hash-table mechanism there to replay what a finding predicts (see table_set_diff)."""
    out = []
    canon = canon or V.canon

    def by_type_and_value(a, b):
        typed_a = {(type(x), x) for x in a}
        typed_b = {(type(x), x) for x in b}
        return [x for x in b if (type(x), x) not in typed_a], [x for x in a if (type(x), x) not in typed_b]

    def sub(path, key):
        if isinstance(key, str):
            return path + ('["%s"]' % key if "'" in key else "['%s']" % key)
        return "%s[%r]" % (path, key)

    def looked_at(key):
        return not (ip and isinstance(key, str) and key.startswith("__"))

    def text_diff(a, b):
        if isinstance(a, bytes):
            try:
                a, b = a.decode("ascii"), b.decode("ascii")
            except UnicodeDecodeError:
                return None
        if not isinstance(a, str) or ("\n" not in a and "\n" not in b):
            return None
        lines = list(difflib.unified_diff(a.splitlines(), b.splitlines(), lineterm=""))
        return ["Some", "\n".join(lines)] if lines else None

    def walk(a, b, path):
        if a is b:
            return
        if type(a) is not type(b):
            out.append(["type_changes", path, TYPE_NAME[type(a)], TYPE_NAME[type(b)], None, ["Some", [canon(a), canon(b)]]])
        elif isinstance(a, dict):
            for k, v in b.items():
                if looked_at(k):
                    if k in a:
                        walk(a[k], v, sub(path, k))
                    else:
                        out.append(["dictionary_item_added", sub(path, k), ["Some", canon(v)]])
            for k, v in a.items():
                if looked_at(k) and k not in b:
                    out.append(["dictionary_item_removed", sub(path, k), ["Some", canon(v)]])
        elif isinstance(a, (list, tuple)):
            for i in range(max(len(a), len(b))):
                here = "%s[%d]" % (path, i)
                if i >= len(a):
                    out.append(["iterable_item_added", here, canon(b[i])])
                elif i >= len(b):
                    out.append(["iterable_item_removed", here, canon(a[i])])
                else:
                    walk(a[i], b[i], here)
        elif isinstance(a, (set, frozenset)):
            added, removed = (set_diff or by_type_and_value)(a, b)
            shown = lambda x: "'%s'" % (x,) if isinstance(x, (str, bytes)) else str(x)   # noqa: E731
            for x in added:
                out.append(["set_item_added", "%s[%s]" % (path, shown(x))])
            for x in removed:
                out.append(["set_item_removed", "%s[%s]" % (path, shown(x))])
        elif a != b:
            out.append(["values_changed", path, canon(a), canon(b), None, text_diff(a, b)])

    walk(t1, t2, "root")
    return core.sx_sorted(out)


def project(entries, verbose):
    """what is left of the verbose entries at verbose_level 1 / 0 (the documented meaning of the levels:
    0 = no values at all, 1 = no values of added / removed dict items and no second path; independent of
    Diff/DiffVerbose.v tproj)"""
    out = []
    for e in entries:
        cat = e[0]
        if cat == "type_changes":
            out.append([cat, e[1], e[2], e[3], e[4] if verbose > 1 else None, e[5] if verbose > 0 else None])
        elif cat == "values_changed":
            if verbose > 0:
                out.append([cat, e[1], e[2], e[3], e[4] if verbose > 1 else None, e[5]])
        elif cat in ("dictionary_item_added", "dictionary_item_removed"):
            out.append([cat, e[1], e[2] if verbose > 1 else None])
        elif cat == "iterable_item_moved":
            if verbose > 1:
                out.append(e)
        else:
            out.append(e)
    return core.sx_sorted(out)


# ---------------------------------------------------------------------------
# known findings (narrow matchers)
# ---------------------------------------------------------------------------

def _set_members(v, acc):
    if isinstance(v, (set, frozenset)):
        acc.extend(v)
    elif isinstance(v, (list, tuple)):
        for x in v:
            _set_members(x, acc)
    elif isinstance(v, dict):
        for x in v.values():
            _set_members(x, acc)
    return acc


def tag_text(a):
    """the pre-hash serialisation DeepHash gives a non-string scalar"""
    if a is None:
        return "NONE"
    if isinstance(a, bool):
        return "bool:true" if a else "bool:false"
    if isinstance(a, int):
        return "int:%d" % a
    if isinstance(a, float):
        return "float:%r" % a
    return None


def _only_set_items_missing(case):
    """the implementation's result is the expected one minus some set_item_* entries"""
    exp, got = case.get("expected"), case.get("observed")
    if not isinstance(exp, list) or not isinstance(got, list):
        return False
    missing = [e for e in exp if e not in got]
    extra = [e for e in got if e not in exp]
    return bool(missing) and not extra and all(e[0] in ("set_item_added", "set_item_removed") for e in missing)


def table_set_diff(tags_collide, table_by_eq):
    """the implementation's set comparison replayed: members are compared through a hash text; with
    `tags_collide` the text of a non-string scalar is its DeepHash serialisation re-tagged as a str (so the str
    'int:1' and the int 1 get one text: finding K1), otherwise texts are injective; with `table_by_eq` one
    table keyed by Python == (bools kept apart) serves the text computed first for a class of == members, in
    the order DeepDiff fills it (t1's members, then t2's, set pairs in traversal order: finding K2).  One
    entry per text and side (the first member in iteration order)."""
    table = {}

    def text(x):
        if not tags_collide:
            return (type(x).__name__, x)
        if isinstance(x, str):
            return "str:" + x
        if isinstance(x, bytes):
            return "bytes:" + x.decode("utf-8", "replace")
        return "str:" + tag_text(x)

    def h(x):
        key = ("bool", x) if isinstance(x, bool) else x
        if table_by_eq and key in table:
            return table[key]
        t = text(x)
        if table_by_eq:
            table[key] = t
        return t

    def set_diff(a, b):
        fa, fb = {}, {}
        for x in a:
            fa.setdefault(h(x), x)
        for x in b:
            fb.setdefault(h(x), x)
        return [x for k, x in fb.items() if k not in fa], [x for k, x in fa.items() if k not in fb]
    return set_diff


def _case_inputs(case):
    if "pickle_b64" in case:
        return __import__("pickle").loads(__import__("base64").b64decode(case["pickle_b64"]))
    return eval(case["t1"]), eval(case["t2"])


def _predicted(case, tags_collide, table_by_eq):
    """the result the mechanism predicts for this case, at the case's verbosity"""
    t1, t2 = _case_inputs(case)
    r = spec_diff(t1, t2, case.get("ip", True), set_diff=table_set_diff(tags_collide, table_by_eq))
    return project(r, case["verbose"]) if case.get("verbose", 2) != 2 else r


SPEC_CLAUSES = ("result differs from the specification", "result at a lower verbose_level differs from the projected specification")


def k1(case):
    """a set member string spells the serialisation of a non-string set member (of either side), the only
    deviation is missing set_item_* entries, the observed result is exactly what the hash-text mechanism WITH
    tag collisions predicts and not what it predicts without them"""
    if case.get("clause") not in SPEC_CLAUSES or not _only_set_items_missing(case):
        return False
    t1, t2 = _case_inputs(case)
    members = _set_members(t1, []) + _set_members(t2, [])
    tags = {tag_text(x) for x in members} - {None}
    if not any(isinstance(x, str) and x in tags for x in members):
        return False
    return case["observed"] == _predicted(case, True, True) and case["observed"] != _predicted(case, False, True)


def k2(case):
    """set members that are == but of different type (int/float): the second gets the first's hash from the
    table; observed = the prediction WITH the ==-keyed table and not the prediction without it"""
    if case.get("clause") not in SPEC_CLAUSES or not _only_set_items_missing(case):
        return False
    t1, t2 = _case_inputs(case)
    if not D.set_alias(t1, t2):
        return False
    return case["observed"] == _predicted(case, True, True) and case["observed"] != _predicted(case, True, False)


MATCHERS = {"K1": k1, "K2": k2}


# ---------------------------------------------------------------------------
# generators
# ---------------------------------------------------------------------------

def remap_bytes(rng, v, in_set=False):
    """replace some bytes atoms by multi-line / non-ASCII ones (not inside sets)"""
    if isinstance(v, bytes) and not in_set and rng.random() < 0.6:
        return rng.choice(BYTES)
    if isinstance(v, list):
        return [remap_bytes(rng, x) for x in v]
    if isinstance(v, tuple):
        return tuple(remap_bytes(rng, x) for x in v)
    if isinstance(v, dict):
        return {k: remap_bytes(rng, x) for k, x in v.items()}
    return v


def small_pairs(ctx):
    """the exhaustive small universe: all ordered pairs (thorough) or a seeded slice (quick)"""
    u1 = V.small_universe(atoms=(None, True, 1, "a"), maxlen=2, depth=1, kinds="LTDS")
    u2 = V.small_universe(atoms=(None, True, 1, "a"), maxlen=1, depth=2, kinds="LTDS")
    u3 = V.small_universe(atoms=(1, 1.0, "a\nb", "__a", b"a"), maxlen=2, depth=1, kinds="LDS")
    # frozensets: the same universe with sets frozen
    fz = [frozenset(x) for x in u1 if isinstance(x, set)]
    pairs = []
    for u in (u1 + fz, u2, u3):
        ctx.count("small_universe_values", len(u))
        pairs += [(a, b) for a in u for b in u]
    if ctx.thorough:
        return pairs
    return ctx.rng.sample(pairs, 3000)


def random_pairs(ctx, n):
    rng = ctx.rng
    out = []
    for _ in range(n):
        alias = rng.random() < 0.3
        t1 = remap_bytes(rng, V.gen_value(rng, depth=3, width=4, alias=alias, strings=STRINGS))
        r = rng.random()
        if r < 0.2:
            t2 = remap_bytes(rng, V.gen_value(rng, depth=3, width=4, alias=alias, strings=STRINGS))
            ctx.count("gen:independent")
        elif r < 0.45:
            # smallest possible changes (what a tolerant or type-blind comparer would miss)
            t2 = t1
            for _ in range(rng.randint(1, 2)):
                t2n, k = near_miss(rng, t2)
                if k is not None:
                    t2 = t2n
                    ctx.count("edit:" + k)
            ctx.count("gen:near_miss")
        else:
            fine = rng.random() < 0.6   # small edits only: keeps the pair aligned so that deep entries are exercised
            vals, kinds = V.edit_script(rng, t1, rng.randint(1, 3), alias=alias, strings=STRINGS,
                                        kinds=FINE_EDITS if fine else None)
            t2 = vals[-1]
            ctx.count("gen:edit_script")
            for k in kinds:
                ctx.count("edit:" + k)
        if alias:
            ctx.count("gen:with_aliased_atoms")
        out.append((t1, t2))
    return out


def with_bytes_keys(rng, t1, t2):
    """the same pair with some str dict keys replaced (consistently on both sides) by bytes keys
    (fixed in /repo by 0fac13b: the path printer renders them as root[b'a']); b'__x' is not a private key"""
    keys = set()

    def collect(v):
        if isinstance(v, dict):
            for k, x in v.items():
                if isinstance(k, str):
                    keys.add(k)
                collect(x)
        elif isinstance(v, (list, tuple)):
            for x in v:
                collect(x)
    collect(t1)
    collect(t2)
    if not keys:
        return {b"k": t1, "k": 0}, {b"k": t2, "k": 0}
    chosen = {k for k in keys if rng.random() < 0.6} or {sorted(keys)[0]}
    extra = rng.choice([b"a\nb", b"\xff", b"it's", b'q"q', b""])

    def conv(v):
        if isinstance(v, dict):
            return {(k.encode("latin-1") if isinstance(k, str) and k in chosen else k): conv(x) for k, x in v.items()}
        if isinstance(v, list):
            return [conv(x) for x in v]
        if isinstance(v, tuple):
            return tuple(conv(x) for x in v)
        return v
    a, b = conv(t1), conv(t2)
    if rng.random() < 0.3:          # an awkward key (newline / non-ASCII / quotes / empty) present on one side or both
        a, b = {extra: a, b"z": 1}, ({extra: b, b"z": 1} if rng.random() < 0.6 else {b"z": 1, b"y": b})
    return a, b


def multiline_pairs(ctx, base, n):
    """pairs in which one position common to both sides holds two multi-line strings / ASCII bytes (differing in
    content, only in line terminators, or not at all): the 'diff' text of values_changed"""
    rng = ctx.rng
    out = []
    for t1, t2 in rng.sample(base, min(len(base), 3 * n)):
        pos = [p for p in V.positions(t1) if p]
        rng.shuffle(pos)
        for p in pos[:6]:
            try:
                V.get_at(t2, p)
            except Exception:
                continue
            a, b = rng.choice(V.ML_PAIRS)
            if rng.random() < 0.5:
                a, b = b, a
            if isinstance(a, str) and isinstance(b, str) and rng.random() < 0.3:
                try:
                    a, b = a.encode("ascii"), b.encode("ascii")
                except UnicodeEncodeError:
                    pass
            try:
                out.append((V.set_at(copy.deepcopy(t1), p, a), V.set_at(copy.deepcopy(t2), p, b)))
                ctx.count("gen:multiline:" + type(a).__name__)
            except TypeError:
                continue
            break
        if len(out) >= n:
            break
    return out


def length_pairs(ctx, n):
    """lists / tuples of different length at every depth (zip_ordered_iterables compares position by position and
    reports the longer side's tail): a sequence of t1 truncated or extended by 1-3 items (scalars and containers)"""
    rng = ctx.rng
    out = []
    while len(out) < n:
        t1 = V.gen_value(rng, depth=3, width=4, strings=STRINGS, kinds="LTDA")
        seqs = [p for p in V.positions(t1) if isinstance(V.get_at(t1, p), (list, tuple))]
        if not seqs:
            continue
        p = rng.choice(seqs)
        seq = V.get_at(t1, p)
        k = rng.randint(1, 3)
        if seq and rng.random() < 0.5:
            new = seq[:max(0, len(seq) - k)]
            ctx.count("gen:length:truncated")
        else:
            tail = [V.gen_value(rng, depth=1, width=2, strings=STRINGS) for _ in range(k)]
            new = seq + type(seq)(tail)
            ctx.count("gen:length:extended")
        t2 = V.set_at(copy.deepcopy(t1), p, new) if p else new
        out.append((t1, t2))
    return out


# ---------------------------------------------------------------------------
# one pair
# ---------------------------------------------------------------------------

POS = dict(zip_ordered_iterables=True, threshold_to_diff_deeper=0, verbose_level=2)


def spec_expr(t1, t2, ip):
    return "sx_text (spec_diff (tbl_udiff %s) %s %s %s)" % (
        D.coq_udiff_table(D.udiff_table(t1, t2)), "true" if ip else "false", V.to_coq(t1), V.to_coq(t2))


def _b64(t1, t2):
    return __import__("base64").b64encode(__import__("pickle").dumps((t1, t2))).decode("ascii")


def lower_verbosity(ctx, case, t1, t2, ip, expected, verbose, pos):
    """the same pair at verbose_level 0 / 1: the result must be the projection of the definition's entries"""
    from deepdiff import DeepDiff
    try:
        res = DeepDiff(copy.deepcopy(t1), copy.deepcopy(t2), ignore_private_variables=ip, **dict(pos, verbose_level=verbose))
        observed = D.text_obs(res)
    except Exception as e:  # noqa
        ctx.fail(dict(case, verbose=verbose, clause="DeepDiff raised " + type(e).__name__), "DeepDiff raised %r at verbose_level=%d" % (e, verbose))
        return None
    want = project(expected, verbose)
    ctx.count("verbose%d:evaluated" % verbose)
    ctx.count("verbose%d:entries_vanished" % verbose, len(expected) - len(want))
    if observed != want:
        ctx.fail(dict(case, verbose=verbose, clause="result at a lower verbose_level differs from the projected specification", expected=want, observed=observed),
                 "verbose_level=%d result differs from the projection of the recursive definition: expected %s observed %s"
                 % (verbose, core.sx_show(want)[:500], core.sx_show(observed)[:500]))
    return observed


def one_pair(ctx, t1, t2, ip, cases_model, cases_spec, cases_specs, corr=True, shared=False, low=None, pos=None, special=None):
    from deepdiff import DeepDiff
    pos = pos or POS
    case = dict(t1=repr(t1), t2=repr(t2), ip=ip)
    if shared:
        case["pickle_b64"] = _b64(t1, t2)       # repr loses "the same object at two positions"
    if pos is not POS:
        case["pos"] = repr(pos)
    expected = spec_diff(copy.deepcopy(t1), copy.deepcopy(t2), ip)
    a, b = copy.deepcopy(t1), copy.deepcopy(t2)
    sa, sb = V.canon(a), V.canon(b)
    try:
        res = DeepDiff(a, b, ignore_private_variables=ip, **pos)
    except Exception as e:  # noqa
        ctx.fail(dict(case, clause="DeepDiff raised " + type(e).__name__), "DeepDiff raised " + repr(e))
        return
    if V.canon(a) != sa or V.canon(b) != sb:
        ctx.fail(dict(case, clause="inputs modified"), "DeepDiff modified an input")
    try:
        observed = D.text_obs(res)
    except Exception as e:  # noqa  (e.g. a notpresent placeholder where a value belongs)
        ctx.fail(dict(case, clause="result differs from the specification", expected=expected, observed="not canonicalisable: " + repr(res)[:400]),
                 "positional result is malformed (%r): %s" % (e, repr(res)[:300]))
        return
    ctx.seen((case["t1"], case["t2"], ip), nontrivial=bool(expected))
    for e in expected:
        ctx.count("expected:" + e[0])
    if any(e[0] == "values_changed" and e[5] is not None for e in expected):
        ctx.count("expected:diff_text")
    if observed != expected:
        ctx.fail(dict(case, clause="result differs from the specification", expected=expected, observed=observed),
                 "positional result differs from the recursive definition: expected %s observed %s" % (core.sx_show(expected)[:600], core.sx_show(observed)[:600]))
    observed_low = lower_verbosity(ctx, case, t1, t2, ip, expected, low, pos) if low is not None else None
    if not corr:
        return
    tag = {k: v for k, v in case.items() if k != "pickle_b64"}
    if special:
        tag["special"] = special
    if observed_low is not None and D.in_model_guard(t1, t2):
        cases_model.append(("model", t1, t2, ip, observed_low, dict(tag, what="model vs implementation", verbose=low), low))
        if not D.tag_unsafe(t1, t2):
            cases_spec.append(("spec", t1, t2, ip, observed_low, dict(tag, what="coq spec (projected) vs implementation", verbose=low), low))
    # (c) Coq specification vs Python specification: every pair
    # (the Coq expressions are built after sampling: see build())
    cases_specs.append(("spec", t1, t2, ip, expected, dict(tag, what="coq spec vs python spec"), 2))
    if D.in_model_guard(t1, t2):
        ctx.count("in_model_guard")
        cases_model.append(("model", t1, t2, ip, observed, dict(tag, what="model vs implementation"), 2))
        if not D.tag_unsafe(t1, t2):     # tag-like set members: the implementation deviates from the definition (finding K1)
            cases_spec.append(("spec", t1, t2, ip, observed, dict(tag, what="coq spec vs implementation"), 2))
        else:
            ctx.count("coqspec_vs_impl:skipped_K1_pairs")
    else:
        # ==-aliased set members: the memo-threaded model Diff/DiffMemo.v (DeepDiff's run-wide DeepHash table)
        ctx.count("aliased_set_members:run_on_memo_model")
        cases_model.append(("memo", t1, t2, ip, observed, dict(tag, what="memo model vs implementation"), 2))


def build(lazy):
    kind, t1, t2, ip, obs, tag, verbose = lazy
    if kind == "model":
        expr = D.model_text_expr(t1, t2, True, 0, verbose, ip)
    elif kind == "memo":
        expr = D.memo_text_expr(t1, t2, True, 0, verbose, ip)
    elif verbose == 2:
        expr = spec_expr(t1, t2, ip)
    else:
        expr = "sx_text (spec_diff_at %d (tbl_udiff %s) %s %s %s)" % (
            verbose, D.coq_udiff_table(D.udiff_table(t1, t2)), "true" if ip else "false", V.to_coq(t1), V.to_coq(t2))
    return (expr, obs, tag)


# ---------------------------------------------------------------------------
# NaN (outside the atom universe of the Coq model: direct oracle only)
# ---------------------------------------------------------------------------

def is_nan(x):
    import decimal
    return (isinstance(x, float) and x != x) or (isinstance(x, decimal.Decimal) and x.is_nan())


def nan_marked(v):
    """v with every NaN leaf replaced by a marker string (NaN has no canonical form)"""
    if is_nan(v):
        return "<NaN:%s>" % type(v).__name__
    if isinstance(v, dict):
        return {k: nan_marked(x) for k, x in v.items()}
    if isinstance(v, list):
        return [nan_marked(x) for x in v]
    if isinstance(v, tuple):
        return tuple(nan_marked(x) for x in v)
    return v


def nan_text_obs(res):
    """text_obs of a result whose values may hold NaN"""
    marked = {}
    for cat, items in dict(res).items():
        if isinstance(items, dict):
            marked[cat] = {p: ({k: (x if k in ("old_type", "new_type") else nan_marked(x)) for k, x in ch.items()} if isinstance(ch, dict) else nan_marked(ch))
                           for p, ch in items.items()}
        else:
            marked[cat] = items
    return D.text_obs(marked)


def gen_nan_pairs(ctx, n):
    """(t1, t2, kind): values with NaN leaves (float('nan'), math.nan, Decimal('NaN')) at list / tuple /
    dict-value positions; t2 derived from t1 so that NaN objects are SHARED by identity (deepcopy, shallow
    copies, dict(t1, k=v), an edit elsewhere) or re-created as distinct objects"""
    import decimal
    import math
    rng = ctx.rng

    def fresh_nan(kind=None):
        kind = kind or rng.choice(["float", "math", "decimal"])
        return float("nan") if kind == "float" else math.nan if kind == "math" else decimal.Decimal("NaN")

    def val(depth):
        r = rng.random()
        if depth == 0 or r < 0.3:
            return fresh_nan() if rng.random() < 0.5 else rng.choice([1, 2.5, "a", None, True])
        m = rng.randint(1, 3)
        if r < 0.55:
            return [val(depth - 1) for _ in range(m)]
        if r < 0.75:
            return tuple(val(depth - 1) for _ in range(m))
        return {k: val(depth - 1) for k in rng.sample(["a", "b", "c", 1, None], m)}

    def rebuild(v, p_new):
        """a copy; each NaN leaf is kept (same object) or, with probability p_new, re-created (distinct object, same type)"""
        if is_nan(v):
            return type(v)("nan") if rng.random() < p_new else v
        if isinstance(v, dict):
            return {k: rebuild(x, p_new) for k, x in v.items()}
        if isinstance(v, list):
            return [rebuild(x, p_new) for x in v]
        if isinstance(v, tuple):
            return tuple(rebuild(x, p_new) for x in v)
        return v

    def change_elsewhere(v):
        """one real change at a non-NaN position (or an appended item)"""
        if isinstance(v, list):
            if v and rng.random() < 0.7:
                i = rng.randrange(len(v))
                return v[:i] + [change_elsewhere(v[i])] + v[i + 1:]
            return v + ["new"]
        if isinstance(v, tuple) and v:
            i = rng.randrange(len(v))
            return v[:i] + (change_elsewhere(v[i]),) + v[i + 1:]
        if isinstance(v, dict):
            if v and rng.random() < 0.7:
                k = rng.choice(list(v))
                return dict(v, **{}) | {k: change_elsewhere(v[k])}
            return dict(v) | {"new_key": 0}
        if is_nan(v):
            return v
        return [v] if rng.random() < 0.3 else ("changed" if v != "changed" else "again")

    n0 = float("nan")
    out = [([n0], [n0], "nan:fixed_same"), ([n0], [float("nan")], "nan:fixed_distinct"), ({"a": [1, n0], "b": 2}, {"a": [1, n0], "b": 3}, "nan:fixed_change_elsewhere"),
           ([math.nan, 1], [math.nan, 1], "nan:fixed_math_nan"), ((decimal.Decimal("NaN"),) * 1, (decimal.Decimal("NaN"),), "nan:fixed_decimal_distinct")]
    for _ in range(n):
        t1 = val(3)
        if not isinstance(t1, (list, tuple, dict)):
            t1 = [t1, 0]
        out.append((t1, copy.deepcopy(t1), "nan:deepcopy"))
        out.append((t1, copy.copy(t1), "nan:shallow_copy"))
        out.append((t1, change_elsewhere(rebuild(t1, 0.0)), "nan:shared+change_elsewhere"))
        out.append((t1, rebuild(t1, 0.5), "nan:some_recreated"))
        out.append((t1, change_elsewhere(rebuild(t1, 0.5)), "nan:some_recreated+change_elsewhere"))
    return out


def nan_pair(ctx, t1, t2, kind, ip):
    """the direct oracle on a pair with NaN leaves.  DeepDiff is given t1 and t2 themselves (a deepcopy
    would keep float identity anyway; Decimal is copied as the same object too)"""
    from deepdiff import DeepDiff
    case = dict(t1=repr(t1), t2=repr(t2), ip=ip, kind=kind,
                pickle_b64=__import__("base64").b64encode(__import__("pickle").dumps((t1, t2))).decode("ascii"))
    expected = spec_diff(t1, t2, ip, canon=lambda v: V.canon(nan_marked(v)))
    try:
        res = DeepDiff(t1, t2, ignore_private_variables=ip, **POS)
        observed = nan_text_obs(res)
    except Exception as e:  # noqa
        ctx.fail(dict(case, clause="DeepDiff raised " + type(e).__name__), "DeepDiff raised " + repr(e))
        return
    ctx.seen((case["t1"], case["t2"], ip, kind), nontrivial=bool(expected))
    ctx.count("gen:" + kind)
    ctx.count("nan:expected_entries", len(expected))
    if observed != expected:
        ctx.fail(dict(case, clause="result differs from the specification", expected=expected, observed=observed),
                 "positional result differs from the recursive definition (NaN leaves): expected %s observed %s" % (core.sx_show(expected)[:500], core.sx_show(observed)[:500]))


def replay_witnesses(ctx):
    """open findings must still reproduce on the implementation"""
    from deepdiff import DeepDiff
    open_keys = {f["key"] for f in ctx.findings if f.get("status") == "open"}
    for key, (t1, t2) in {"K1": ({"NONE"}, {None}), "K2": ({1, "a"}, {1.0, "a"})}.items():
        if key in open_keys:
            res = DeepDiff(copy.deepcopy(t1), copy.deepcopy(t2), **POS)
            if D.text_obs(res) == spec_diff(t1, t2):
                ctx.break_("correspondence", {"name": key + " witness", "detail": "finding %s no longer reproduces on the implementation; "
                                              "known_findings.d/C03.json is out of date" % key, "impl": repr(res)})
            one_pair(ctx, t1, t2, True, [], [], [], corr=False)


# ---------------------------------------------------------------------------
# source tie: the same tie as C02's (harness/translate/diffdispatch.py regenerates DeepDiff._diff and the comparers from the current
# deepdiff/diff.py; coq/srctie/DiffGenEquiv.v proves them equal to Diff/DiffModel.v, the model of C03's theorems).  The search for a
# differing input is C02's (generated vs hand model inside Coq), restricted to C03's positional configuration; the pairs found are
# judged by C03's own oracle (recursive definition) and correspondence.
# ---------------------------------------------------------------------------
from harness.props import c02 as _c02

SOURCE_TIES = _c02.SOURCE_TIES
TIE_STATE = {"decided": False}


def on_source_tie_break(ctx, name, rec):
    if name != "diffdispatch":
        return {"searched": "nothing (unknown tie)"}
    res, differing = _c02.tie_search(ctx, rec, cfgs=((True, 0, True), (True, 0, False)))
    if not differing:
        return res
    cm, cs, css, judged = [], [], [], []
    f0, b0 = len(ctx.failures), len(ctx.breaks)
    for (a, b, cfg) in _c02.tie_select(differing):
        t1, t2 = stable_order(a), stable_order(b)
        ctx.count("pairs:source_tie_differing_pair")
        for ip in (True, False):
            one_pair(ctx, t1, t2, ip, cm, cs, css)
        judged.append({"t1": repr(a), "t2": repr(b)})
    hdr = D.MODEL_HDR_M + "\nFrom DD Require Import Diff.Spec Diff.DiffVerbose."
    ctx.coq_cases("c03tie_m", hdr, [build(x) for x in cm], shard=150, label="source_tie_model_vs_impl")
    ctx.coq_cases("c03tie_s", hdr, [build(x) for x in cs], shard=150, label="source_tie_coqspec_vs_impl")
    res["first_differing"] = judged
    res["judged"] = {"new_oracle_failures": len(ctx.failures) - f0, "new_breaks": len(ctx.breaks) - b0}
    if len(ctx.failures) > f0 or len(ctx.breaks) > b0:
        TIE_STATE["decided"] = True
    return res


def run(ctx):
    # a source tie that is not intact (and whose search found no judged pair) escalates the streams to thorough size
    if ctx.tie_broken("diffdispatch") and not TIE_STATE["decided"] and not ctx.thorough:
        ctx.count("escalated_by_broken_source_tie")
        tier = ctx.tier
        ctx.tier = "thorough"            # every size below is chosen through ctx.thorough
        try:
            return _run(ctx)
        finally:
            ctx.tier = tier
    return _run(ctx)


def _run(ctx):
    pairs = small_pairs(ctx)
    ctx.count("pairs:small_universe", len(pairs))
    rnd = random_pairs(ctx, 40000 if ctx.thorough else 7000)
    ctx.count("pairs:random_and_edit", len(rnd))
    cases_model, cases_spec, cases_specs = [], [], []
    rng = ctx.rng
    # dict keys that are bytes (12 % of the random pairs), sequences of different length, and pairs in which ONE
    # container object of t1 sits at 2-3 sibling positions (a tree for the diff; lead's broadcast, point 2)
    bk = [with_bytes_keys(rng, a, b) for a, b in rng.sample(rnd, max(1, len(rnd) * 12 // 100))]
    ctx.count("pairs:bytes_dict_keys", len(bk))
    ln = length_pairs(ctx, 1000 if ctx.thorough else 250) + multiline_pairs(ctx, rnd, 800 if ctx.thorough else 200)
    sh = [(a, b) for a, b, _k, _c in gen_shared_pairs(ctx, 3000 if ctx.thorough else 800)]
    ctx.count("pairs:shared_sibling_containers", len(sh))
    n_plain = len(pairs) + len(rnd) + len(bk) + len(ln)
    n_std = len(pairs) + len(rnd)
    for i, (t1, t2) in enumerate(pairs + rnd + bk + ln + sh):
        ip = (i % 2 == 0)
        t1, t2 = stable_order(t1), stable_order(t2)
        lowk = 6 if ctx.thorough else 3                                     # a third (thorough: a sixth) of the pairs also at verbose_level 0 / 1
        low = (0, 1)[(i // lowk) % 2] if i % lowk == 0 else None
        pos = POS if i % 10 else dict(POS, threshold_to_diff_deeper=0.0)    # the float spelling of the threshold
        special = None if i < n_std else "bytes_dict_keys" if i < n_std + len(bk) else "different_length" if i < n_plain else "shared_containers"
        one_pair(ctx, t1, t2, ip, cases_model, cases_spec, cases_specs, shared=(i >= n_plain), low=low, pos=pos, special=special)
    for k, (t1, t2, kind) in enumerate(gen_nan_pairs(ctx, 3000 if ctx.thorough else 300)):
        nan_pair(ctx, t1, t2, kind, ip=(k % 2 == 0))
    replay_witnesses(ctx)
    # correspondence budget: a seeded slice of the evaluated pairs (10x larger in thorough)
    def pick(cs, n):
        """a seeded slice; a fifth of it is reserved for each of: lower verbosity, the special generators"""
        n = n * 10 if ctx.thorough else n
        if len(cs) <= n:
            return cs
        low = [x for x in cs if x[6] != 2]
        spec = [x for x in cs if x[6] == 2 and x[5].get("special")]
        rest = [x for x in cs if x[6] == 2 and not x[5].get("special")]
        out = ctx.rng.sample(low, min(len(low), n // 5)) + ctx.rng.sample(spec, min(len(spec), n // 5))
        out += ctx.rng.sample(rest, min(len(rest), n - len(out)))
        for x in out:
            ctx.count("corr:verbose%d" % x[6])
            if x[5].get("special"):
                ctx.count("corr:" + x[5]["special"])
        return out
    memo_cases = [x for x in cases_model if x[0] == "memo"]
    plain_cases = [x for x in cases_model if x[0] != "memo"]
    ctx.count("corr:memo_model_cases", len(pick(memo_cases, 600)))
    cm, cs, css = ([build(x) for x in l] for l in (pick(plain_cases, 2500) + pick(memo_cases, 600), pick(cases_spec, 2000), pick(cases_specs, 2000)))
    for c in cm[:3]:
        ctx.sample(c[2])
    hdr = D.MODEL_HDR_M + "\nFrom DD Require Import Diff.Spec Diff.DiffVerbose."
    ctx.coq_cases("c03m", hdr, cm, shard=150, label="model_vs_impl")
    ctx.coq_cases("c03s", hdr, cs, shard=150, label="coqspec_vs_impl")
    ctx.coq_cases("c03p", hdr, css, shard=150, label="coqspec_vs_pyspec")
    # beyond C03's stated universe: datetimes / dates / times / timedeltas / Decimals inside the model (Diff/XuModel.v,
    # Diff/XuSpec.v): positional mode, model vs implementation, Coq definition vs implementation where it applies literally
    from harness import xucommon as XU
    XU.stream_c03(ctx, XU.gen_pairs(ctx.rng, 40 if ctx.thorough else 6))


def replay(ctx, data):
    case = data.get("case", {})
    if "pickle_b64" in case and str(case.get("kind", "")).startswith("nan"):
        t1, t2 = __import__("pickle").loads(__import__("base64").b64decode(case["pickle_b64"]))   # keeps the NaN objects shared
        nan_pair(ctx, t1, t2, case.get("kind", "nan:replay"), case.get("ip", True))
    elif "t1" in case:
        t1, t2 = _case_inputs(case)             # the pickle keeps "one object at several positions"
        pos = eval(case["pos"]) if "pos" in case else None
        one_pair(ctx, t1, t2, case.get("ip", True), [], [], [], corr=False, shared="pickle_b64" in case, low=case.get("verbose"), pos=pos)
    else:
        run(ctx)

"""C12 - DeepHash equality <=> order-ignoring diff emptiness, under the shared options.

proof:           coq/theories/HashDiff/{HashDiffModel,HashDiffProofs*}.v, Properties/C12.v
correspondence:  BOTH real engines on generated pairs against BOTH models evaluated in Coq
                 (HashDiff.HashDiffShow.run_c12): the observable is
                     [DeepHash(a, ignore_repetition=not rep, **F)[a] == DeepHash(b, ...)[b] ,
                      DeepDiff(a, b, ignore_order=True, report_repetition=rep, **F) is
                      empty / non-empty / raises]
                 for every modelled shared option F (ignore_string_case,
                 ignore_string_type_changes, ignore_numeric_type_changes, significant_digits
                 with notation 'f'), all pairs / triples of them and all four, x report_repetition.
                 The pairings DeepDiff really used are RECORDED (c05's recorder) and fed to
                 the model as its oracle.  Pair families: alt (t2 = the option's normaliser
                 applied to t1 at random leaves, DICT KEYS and set members, containers
                 re-ordered), near (alt + one genuine edit), rand (re-ordered copy + 0-3 edits),
                 fixed (guard boundaries: bool/int, tag-like strings, numeric keys, ...).
                 Plus: atom level (the text DeepHash hands to the hasher; the two verdicts on
                 pairs of atoms) and the SHA-256 equality pattern over a pool per option set.
direct oracle:   (DeepHash(a,**F)[a] == DeepHash(b,**F)[b]) == (DeepDiff(a,b,ignore_order=True,**F) == {})
                 on every case above and on a RICHER universe (arbitrary floats, -0.0, Decimal,
                 enum members, naive/aware datetimes, non-ASCII text, undecodable bytes) for ALL
                 shared options: truncate_datetime, default_timezone, use_enum_value and
                 number_format_notation='e' are exercised HERE ONLY (no model, no theorem).
"""
import copy
import datetime
import decimal
import logging
import math
import multiprocessing as mp
import sys

from harness import core, values as V, diffcommon as D
from harness.props import c05 as C05, c11 as C11

logging.disable(logging.CRITICAL)

THEOREM_FILE = "Properties/C12.v"
COQCHK = ["Properties.C12"]
COQ_NEEDS = ["HashDiff.HashDiffShow", "HashDiff.HashDiffYShow", "HashDiff.HashDiffTextShow"]
RULE = ("one case = one pair (t1, t2) under one option set F and one value of report_repetition (DeepHash gets ignore_repetition = not "
        "report_repetition); both engines are run on it; families alt / near / rand / fixed (module docstring); option sets: every "
        "non-empty subset of the four modelled options, and for the direct oracle also each unmodelled shared option alone and paired "
        "with another option; non-trivial = t1 and t2 are not structurally identical; distinct = distinct (options, rep, t1, t2)")
TRUSTED = [
    "modelled options: ignore_string_case, ignore_string_type_changes, ignore_numeric_type_changes, significant_digits (notation 'f'); "
    "truncate_datetime, default_timezone, use_enum_value, number_format_notation='e' (and Decimal, -0.0, non-ASCII text, undecodable bytes) "
    "are exercised by the direct oracle only: no model, no theorem",
    "the hash engine is hash_pure of Hash/HashModel.v (b06), the diff-side comparers are diff_atomF / key cleaning of Options/OptModel.v (b11), "
    "the ignore-order list machinery is that of DiffIO/DiffIOModel.v (b05) re-instantiated with option-aware item hashes; the pairing is an oracle "
    "(recorded pairings are fed to the model)",
    "the `hashes` memo table shared by all DeepHash calls of one DeepDiff run (keyed by Python ==) is NOT threaded through the model: pairs in which "
    "two ==-equal hashable objects have different option-aware hashes are outside the correspondence and covered by the direct oracle "
    "(known finding C12-K2-memo-alias)",
    "SHA-256 is taken to be collision-free: the model is evaluated with the injective hex hasher and only equality of hashes is compared",
    "floats of the model are half-integers, bytes and case folding are ASCII",
]
ASSUMPTIONS = ["tree-shaped inputs (no shared or cyclic containers)", "threshold_to_diff_deeper at its default 0.33 or 0"]

# second tie between model and code (DESIGN.md 4.5, coq/theories/HashDiff/NOTES_srctie.md): the option forwarding
# DeepDiff -> DeepHash and the hashtable of the order-ignoring list diff are regenerated from /repo's current source on
# every run (harness/translate/hashparams.py) and proved equal to the hand model (coq/srctie/HashDiffGenEquiv.v)
SOURCE_TIES = [{
    "name": "hashparams", "translator": "hashparams", "gen_module": "HashDiffGen", "equiv": ["HashDiffGenEquiv"],
    "needs": ["HashDiff.HashDiffSrcSpec", "HashDiff.HashDiffProofsLift", "HashDiff.HashDiffProofsKeys"],
    "sources": ["deepdiff/diff.py", "deepdiff/deephash.py", "deepdiff/base.py"],
    "fragment": "diff.py: DEEPHASH_PARAM_KEYS, DeepDiff.__init__ (filling of self._parameters / deephash_parameters), _get_deephash_params, "
                "_add_hash, _create_hashtable, _diff_iterable_with_deephash up to the pairing heuristic; deephash.py: DeepHash.__init__ up to "
                "self._hash; base.py: get_significant_digits",
}]

HEADER = ("From DD Require Import Base.PyStr Base.Value Diff.Tree Diff.DiffModel Hash.HashModel DiffIO.DiffIOModel "
          "DiffIO.DiffIOShow Options.OptModel HashDiff.HashDiffModel HashDiff.HashDiffProofsLift HashDiff.HashDiffProofsKeys HashDiff.HashDiffShow.\nLocal Open Scope Z_scope.")

E = C11.E
Decimal = decimal.Decimal
import enum as _enum


class E2(_enum.Enum):       # a second class sharing E's values (A=1, B="x", C=2.5, D="X") plus 2
    A = 1
    B = "x"
    C = 2.5
    D = "X"
    Z = 2


class E3(_enum.Enum):       # a third one: same values under other names
    P = 1
    Q = "X"
    R = 2
    S = "x"


class E4(_enum.Enum):       # a member whose value is None, next to members sharing values with the other classes
    N = None
    M = "x"
    O = 1


ENUMS = (E, E2, E3, E4)
Enum = _enum.Enum

# --------------------------------------------------------------------------
# option sets
# --------------------------------------------------------------------------
BASE = dict(case=False, strty=False, numty=False, sig=None, note=False, trunc=None, tz=None, enum=False)
# other accepted SHAPES of the same options (direct oracle only; absent keys = the common shape):
#   groups  = "numbers" | "strings" | "intfloat" | "strbytes": ignore_type_in_groups=[...], the general spelling of the type-ignoring options
#   tzshape = "zoneinfo": default_timezone given as a zoneinfo.ZoneInfo with the same fixed offset (+05:30 / +05:45 / UTC)
ZONES = {330: "Asia/Kolkata", 345: "Asia/Kathmandu", 0: "UTC"}
MODELLED = ("case", "strty", "numty", "sig")


def mk(**kw):
    s = dict(BASE)
    s.update(kw)
    return s


def name_of(sp):
    out = []
    for k in ("case", "strty", "numty", "enum"):
        if sp[k]:
            out.append(k)
    if sp["sig"] is not None:
        out.append("sig%d%s" % (sp["sig"], "e" if sp["note"] else ""))
    if sp["trunc"]:
        out.append("trunc_" + sp["trunc"])
    if sp["tz"] is not None:
        out.append("tz%d%s" % (sp["tz"], "zi" if sp.get("tzshape") == "zoneinfo" else ""))
    if sp.get("groups"):
        out.append("groups_" + sp["groups"])
    if sp.get("priv") is False:
        out.append("nopriv")
    return "+".join(out) or "default"


def is_modelled(sp):
    return not (sp["note"] or sp["trunc"] or sp["tz"] is not None or sp["enum"] or sp.get("groups") or sp.get("tzshape") or sp.get("priv") is False)


def kwargs_of(sp):
    """keyword arguments common to DeepHash and DeepDiff"""
    kw = {}
    if sp["case"]:
        kw["ignore_string_case"] = True
    if sp["strty"]:
        kw["ignore_string_type_changes"] = True
    if sp["numty"]:
        kw["ignore_numeric_type_changes"] = True
    if sp["sig"] is not None:
        kw["significant_digits"] = sp["sig"]
    if sp["note"]:
        kw["number_format_notation"] = "e"
    if sp["trunc"]:
        kw["truncate_datetime"] = sp["trunc"]
    if sp["tz"] is not None:
        kw["default_timezone"] = datetime.timezone(datetime.timedelta(minutes=sp["tz"]))
        if sp.get("tzshape") == "zoneinfo" and sp["tz"] in ZONES:
            import zoneinfo
            kw["default_timezone"] = zoneinfo.ZoneInfo(ZONES[sp["tz"]])
    if sp["enum"]:
        kw["use_enum_value"] = True
    if sp.get("priv") is False:      # only the source-tie search asks for it (the models of the streams fix ignore_private_variables=True)
        kw["ignore_private_variables"] = False
    if sp.get("groups"):
        from deepdiff import DeepDiff
        kw["ignore_type_in_groups"] = {"numbers": [DeepDiff.numbers], "strings": [DeepDiff.strings], "intfloat": [(int, float)],
                                       "strbytes": [(str, bytes)]}[sp["groups"]]
    return kw


def c11_spec(sp):
    """the option set in c11's vocabulary (for its generated normaliser)"""
    if sp.get("groups"):        # the normaliser alters what the corresponding flag option ignores
        sp = dict(sp, numty=sp["numty"] or sp["groups"] in ("numbers", "intfloat"), strty=sp["strty"] or sp["groups"] in ("strings", "strbytes"))
    return C11.mk(case=sp["case"], strty=sp["strty"], numty=sp["numty"], sig=sp["sig"], trunc=sp["trunc"], tz=sp["tz"], enum=sp["enum"])


def coq_opts(sp):
    return "(mkOpts %s %s %s %s None [])" % (core.coq_bool(sp["case"]), core.coq_bool(sp["strty"]), core.coq_bool(sp["numty"]),
                                             "None" if sp["sig"] is None else "(Some %d%%N)" % sp["sig"])


def modelled_specs(rng):
    """every subset of the four modelled options (significant_digits with a random parameter)"""
    out = []
    for m in range(16):
        sp = mk(case=bool(m & 1), strty=bool(m & 2), numty=bool(m & 4), sig=(rng.choice([0, 0, 1, 2, 3]) if m & 8 else None))
        out.append(sp)
    return out


def unmodelled_specs(rng):
    singles = [mk(trunc=u) for u in ("second", "minute", "hour", "day")] + [mk(tz=rng.choice([0, 120, -300, 330])), mk(enum=True),
                                                                            mk(sig=rng.choice([0, 1, 2, 3]), note=True)]
    out = list(singles)
    mods = [mk(case=True), mk(strty=True), mk(numty=True), mk(sig=rng.choice([0, 1, 2]))]
    for s in singles:
        o = rng.choice(mods + singles)
        c = dict(s)
        for k in BASE:
            if o[k] != BASE[k] and c[k] == BASE[k]:
                c[k] = o[k]
        out.append(c)
    return out


CFG = "(mkCfg false 33 100 true)"
CFG0 = "(mkCfg false 0 1 true)"
# pairing knobs (they can only influence the pairing oracle of the model) and the dict threshold
KNOBS = [{}, {}, {}, {"cutoff_intersection_for_pairs": 1, "cutoff_distance_for_pairs": 1}, {"max_passes": 0},
         {"cutoff_intersection_for_pairs": 0}, {"threshold_to_diff_deeper": 0}, {"cutoff_distance_for_pairs": 1, "threshold_to_diff_deeper": 0}]

# --------------------------------------------------------------------------
# literals
# --------------------------------------------------------------------------

def lit(v):
    if isinstance(v, list):
        return "[" + ", ".join(lit(x) for x in v) + "]"
    if isinstance(v, tuple):
        return "(" + "".join(lit(x) + ", " for x in v) + ")"
    if isinstance(v, dict):
        return "{" + ", ".join(lit(k) + ": " + lit(x) for k, x in v.items()) + "}"
    if isinstance(v, frozenset):
        return "frozenset([" + ", ".join(lit(x) for x in v) + "])"
    if isinstance(v, set):
        return "set([" + ", ".join(lit(x) for x in v) + "])"
    if isinstance(v, Decimal):
        return "Decimal(%r)" % str(v)
    if isinstance(v, (E2, E3, E4)):
        return "%s.%s" % (type(v).__name__, v.name)
    return C11.lit(v)


def _unlit_env():
    env = {"__builtins__": {"set": set, "frozenset": frozenset, "float": float}, "E": E, "E2": E2, "E3": E3, "E4": E4, "dt": C11._dt, "Decimal": Decimal,
           "True": True, "False": False, "None": None,
           # the vocabulary of c11.lit, a module that is extended independently of this one
           "tm": datetime.time, "td": lambda us: datetime.timedelta(microseconds=us), "date": datetime.date,
           "nan": getattr(C11, "nan_obj", lambda k: float("nan")), "np": getattr(C11, "np", None), "inf": float("inf")}
    for cl in getattr(C11, "ENUMS", ()):
        env.setdefault(cl.__name__, cl)
    return env


def unlit(s):
    return eval(s, _unlit_env())


# --------------------------------------------------------------------------
# generic walks / transforms
# --------------------------------------------------------------------------

def vmap(v, fa, fk=None):
    """rebuild v mapping leaves and set members with fa and dict keys with fk (default fa)"""
    fk = fk or fa
    if isinstance(v, list):
        return [vmap(x, fa, fk) for x in v]
    if isinstance(v, tuple):
        return tuple(vmap(x, fa, fk) for x in v)
    if isinstance(v, dict):
        return {fk(k): vmap(x, fa, fk) for k, x in v.items()}
    if isinstance(v, frozenset):
        return frozenset(fa(x) for x in v)
    if isinstance(v, set):
        return set(fa(x) for x in v)
    return fa(v)


def atoms_of(v, acc=None):
    return C11.all_atoms_of(v, [] if acc is None else acc)


def keys_of(v):
    return C11.walk_keys(v, [])


def is_num(a):
    return isinstance(a, (int, float, Decimal)) and not isinstance(a, bool)


def neg_zero(a):
    return isinstance(a, float) and a == 0.0 and math.copysign(1.0, a) < 0


def in_universe_atom(a):
    if a is None or isinstance(a, bool):
        return True
    if isinstance(a, int):
        return abs(a) < 2 ** 40
    if isinstance(a, float):
        return (not neg_zero(a)) and a == a and abs(a) < 1e12 and a * 2 == int(a * 2)
    if isinstance(a, str):
        return a.isascii()
    if isinstance(a, bytes):
        return all(c < 128 for c in a)
    return False


def in_universe(*vals):
    return all(in_universe_atom(a) for v in vals for a in atoms_of(v))


def hashables(v, acc):
    """every hashable sub-object: these are keys of the DeepHash memo table by ==
    (a bool directly in a list / as a leaf is keyed as BoolObj: no aliasing with 1)"""
    if isinstance(v, (list, tuple)):
        for x in v:
            hashables(x, acc)
        if isinstance(v, tuple):
            try:
                hash(v)
                acc.append(v)
            except TypeError:
                pass
    elif isinstance(v, dict):
        for k, x in v.items():
            hashables(k, acc)
            hashables(x, acc)
    elif isinstance(v, (set, frozenset)):
        for x in v:
            hashables(x, acc)
        if isinstance(v, frozenset):
            acc.append(v)
    elif isinstance(v, Enum):
        # without use_enum_value an Enum member is hashed as an object: its attributes
        # (value, name, _sort_order_ = 0, 1, ...) go through the same memo table
        acc.extend([v, v.value, v.name, getattr(v, "_sort_order_", 0)])
    elif not isinstance(v, bool):
        acc.append(v)
    return acc


def typed_repr(v):
    return lit(v) if not isinstance(v, (set, frozenset)) else "S" + repr(sorted(map(lit, v)))


def reshare(t1, t2, mode):
    """Rebuild object sharing from the unfolded trees: structurally equal containers (same literal) become ONE object -
    mode 1 inside each value, mode 2 also across the two values (the `level.t1 is level.t2` shortcut).  Deterministic,
    so a case is replayable from its literals and its mode; the models are fed the unfolded trees."""
    if not mode:
        return t1, t2

    def intern(v, tbl):
        if isinstance(v, list):
            w = [intern(x, tbl) for x in v]
        elif isinstance(v, tuple):
            w = tuple(intern(x, tbl) for x in v)
        elif isinstance(v, dict):
            w = {k: intern(x, tbl) for k, x in v.items()}
        elif isinstance(v, (set, frozenset)):
            w = v
        else:
            return v
        return tbl.setdefault((type(w).__name__, typed_repr(w)), w)
    tbl = {}
    a = intern(t1, tbl)
    b = intern(t2, tbl if mode == 2 else {})
    return a, b


def n_shared(v):
    """number of container objects occurring at 2+ positions of v"""
    seen, twice = {}, set()

    def walk(x):
        if isinstance(x, (list, tuple, dict, set, frozenset)):
            if id(x) in seen and not (isinstance(x, tuple) and not x):
                twice.add(id(x))
            seen[id(x)] = x
            for y in (x.values() if isinstance(x, dict) else x):
                walk(y)
    walk(v)
    return len(twice)


def hashables_acting(v, acc, hashed, keys_by_eq):
    """the hashable sub-objects on which ==-aliasing ACTS in the unchanged code: everything below a list /
    tuple / set (hashed through the shared memo table), and dict keys of directly compared dicts when
    _diff_dict matches them by == (not when key cleaning renders numbers as text)"""
    if isinstance(v, (list, tuple, set, frozenset)):
        return hashables(v, acc)
    if isinstance(v, dict):
        if hashed:
            return hashables(v, acc)
        for k, x in v.items():
            if keys_by_eq:
                hashables(k, acc)
            hashables_acting(x, acc, False, keys_by_eq)
        return acc
    if hashed:
        hashables(v, acc)
    return acc


def harmful_alias(t1, t2, kw, acting=False):
    """two hashable sub-objects that are == (one key of the shared memo table) but
    whose own hashes under the options differ"""
    from deepdiff import DeepHash
    groups = {}
    if acting:
        numclean = (kw.get("ignore_string_case") or kw.get("ignore_string_type_changes") or kw.get("ignore_numeric_type_changes")) and \
            (kw.get("significant_digits") is not None or kw.get("ignore_numeric_type_changes"))
        objs = hashables_acting(t1, [], False, not numclean) + hashables_acting(t2, [], False, not numclean)
    else:
        objs = hashables(t1, []) + hashables(t2, [])
    for x in objs:
        try:
            groups.setdefault(x, {})[typed_repr(x)] = x
        except TypeError:
            pass
    for g in groups.values():
        if len(g) > 1:
            hs = set()
            for x in g.values():
                try:
                    hs.add(DeepHash(x, **kw)[x])
                except Exception:  # noqa
                    hs.add(("exc", typed_repr(x)))
            if len(hs) > 1:
                return True
    return False


# --------------------------------------------------------------------------
# running both engines
# --------------------------------------------------------------------------

def hash_verdict(a, b, kw, rep):
    from deepdiff import DeepHash
    x, y = copy.deepcopy((a, b))       # one copy of the pair: sharing inside and across the values survives
    try:
        return DeepHash(x, ignore_repetition=not rep, **kw)[x] == DeepHash(y, ignore_repetition=not rep, **kw)[y]
    except Exception as e:  # noqa
        return "EXC:" + type(e).__name__


def diff_verdict(a, b, kw, rep, record=False, **knobs):
    """'empty' | 'nonempty' | 'EXC:<class>' (+ the recorded pairings when asked)"""
    from deepdiff import DeepDiff
    x, y = copy.deepcopy((a, b))
    if not record:
        try:
            r = DeepDiff(x, y, ignore_order=True, report_repetition=rep, **kw, **knobs)
        except Exception as e:  # noqa
            return "EXC:" + type(e).__name__, None
        return ("empty" if r == {} else "nonempty"), None
    with C05.Recording() as rec:
        try:
            r = DeepDiff(x, y, ignore_order=True, report_repetition=rep, view="tree", **kw, **knobs)
        except Exception as e:  # noqa
            # an exception that escapes from the distance computation of the pairing heuristic
            # (a DeepDiff of two CANDIDATE partners) cannot be expressed by the pairing oracle
            import traceback
            in_heuristic = any(f.name == "_get_rough_distance_of_hashed_objs" for f in traceback.extract_tb(e.__traceback__))
            return "EXC:" + type(e).__name__, ([], True, in_heuristic)
        tbl = C05.pairs_table(rec)
        ok = all(C05.pairs_valid(q) for q in rec)
    return ("empty" if len(r) == 0 else "nonempty"), (tbl, ok, False)


def agree(he, dv):
    """the property on one case: None = both engines raise (no verdict to compare)"""
    h_exc = not isinstance(he, bool)
    d_exc = dv.startswith("EXC:")
    if h_exc and d_exc:
        return None
    if h_exc or d_exc:
        return False
    return he == (dv == "empty")


def holds(t1, t2, sp, rep):
    kw = kwargs_of(sp)
    t1, t2 = reshare(t1, t2, sp.get("share", 0))
    a = agree(hash_verdict(t1, t2, kw, rep), diff_verdict(t1, t2, kw, rep, **sp.get("knobs", {}))[0])
    return a is not False


# --------------------------------------------------------------------------
# known findings: counterfactual matchers (the disagreement disappears when
# exactly the feature the finding is about is removed from the input)
# --------------------------------------------------------------------------

def _inputs(case):
    t1, t2 = reshare(unlit(case["t1"]), unlit(case["t2"]), case["spec"].get("share", 0))
    return t1, t2, case["spec"], case["rep"]


def both(f):
    """lift an atom map to a transform of (t1, t2, spec)"""
    return lambda t1, t2, sp: (vmap(t1, f), vmap(t2, f), sp)


def rekey(v, pred, new):
    ident = lambda a: a  # noqa
    return vmap(v, ident, lambda k: new(k) if pred(k) else k)


def both_keys(pred, new):
    return lambda t1, t2, sp: (rekey(t1, pred, new), rekey(t2, pred, new), sp)


def all_atoms2(t1, t2):
    return atoms_of(t1) + atoms_of(t2)


def all_keys2(t1, t2):
    return keys_of(t1) + keys_of(t2)


def tag_like(a):
    if isinstance(a, bytes):
        try:
            a = a.decode("utf-8")
        except UnicodeDecodeError:
            return False
    return isinstance(a, str) and (":" in a or a.lower() == "none")


def detag(a):
    if isinstance(a, (str, bytes)) and tag_like(a):
        col, sem, und = (":", ";", "_") if isinstance(a, str) else (b":", b";", b"_")
        a = a.replace(col, sem)
        if a.lower() in ("none", b"none"):
            a = a + und
    return a


def dealias(a):
    if isinstance(a, bool):
        return a
    if isinstance(a, int):
        return a + 100003
    if isinstance(a, float) and a == a and not math.isinf(a):
        return a + 200004.0
    if isinstance(a, Decimal):
        return a + 300008
    return a


def cleaning(sp):
    return sp["case"] or sp["strty"] or sp["numty"]


def numk(k):
    return isinstance(k, (bool, int, float, Decimal))


def strkey(k):
    return "k<%r>" % (k,)


def colliding_keys(v, kw):
    """dicts with two keys DeepHash cannot tell apart under the options"""
    from deepdiff import DeepHash
    for d in C11.dicts_of(v, []):
        seen = set()
        for k in d:
            if isinstance(k, str) and k.startswith("__"):
                continue
            try:
                h = DeepHash(k, **kw)[k]
            except Exception:  # noqa
                continue
            if h in seen:
                return True
            seen.add(h)
    return False


def clean_key_of(k, sp):
    """The clean key the UNCHANGED `_get_clean_to_keys_mapping` (diff.py, the call site of finding C12-clean-key-collision)
    gives a dict key, restated here from the finding and not read off diff.py: bytes decoded under ignore_string_type_changes,
    an Enum member replaced by its value under use_enum_value, every `helper.numbers` instance - a bool IS one, DeepHash
    tags it 'bool:' instead - rendered '<number | class name>:<number_to_string>' when a precision is in force
    (significant_digits, or the 12 digits of ignore_numeric_type_changes), str clean keys lower-cased under
    ignore_string_case.  Raises where the code raises."""
    from deepdiff.helper import number_to_string, numbers
    sig = sp["sig"] if sp["sig"] is not None else (12 if sp["numty"] else None)
    if sp["strty"] and isinstance(k, bytes):
        ck = k.decode("utf-8")
    elif sp["enum"] and isinstance(k, Enum):
        ck = k.value
    elif isinstance(k, numbers) and sig is not None:
        ck = "%s:%s" % ("number" if sp["numty"] else k.__class__.__name__,
                        number_to_string(k, significant_digits=sig, number_format_notation="e" if sp["note"] else "f"))
    else:
        ck = k
    if sp["case"] and isinstance(ck, str):
        ck = ck.lower()
    return ck


def dropped_keys(d, sp):
    """the keys of ONE dict whose entry `_diff_dict` never looks at: key cleaning is on and an EARLIER key (insertion order)
    has the same clean key.  [] when key cleaning is off or cannot be computed (the code raises: another finding)."""
    if not cleaning(sp) or sp.get("groups"):
        return []
    kept, out = {}, []
    try:
        for k in d:
            if isinstance(k, str) and k.startswith("__") and sp.get("priv") is not False:
                continue
            ck = clean_key_of(k, sp)
            if ck in kept:
                out.append(k)
            else:
                kept[ck] = k
    except Exception:  # noqa
        return []
    return out


def clean_key_collision(v, sp):
    """the feature of C12-clean-key-collision exactly where it acts: a dict (anywhere: every dict may reach `_diff_dict`)
    with two different keys of the same clean key, whether or not DeepHash identifies the two keys (False / 0.5 under
    ignore_numeric_type_changes + significant_digits=0: 'number:0' twice, but 'bool:False' / 'number:0' for DeepHash)"""
    return any(dropped_keys(d, sp) for d in C11.dicts_of(v, []))


def without_dropped(v, sp):
    """v without the entries key cleaning drops, in the dicts on a dict-only path from the root (below a list / tuple the
    item hashes see every entry)"""
    if isinstance(v, dict):
        dk = dropped_keys(v, sp)
        return {k: without_dropped(x, sp) for k, x in v.items() if not any(k is q for q in dk)}
    return v


def collision_predicts_diff(x, d):
    """clause (c): the mechanism of the finding says the diff engine never looks at a dropped entry, so its verdict on the
    input is its verdict on the input WITHOUT the dropped entries (what DeepHash does with them is the other half)"""
    sp = x["sp"]
    r1, r2 = without_dropped(x["t1"], sp), without_dropped(x["t2"], sp)
    r1, r2 = reshare(r1, r2, sp.get("share", 0))
    return diff_verdict(r1, r2, kwargs_of(sp), x["rep"], **sp.get("knobs", {}))[0] == d


def uncollide(v, kw, sp=None):
    from deepdiff import DeepHash
    if isinstance(v, list):
        return [uncollide(x, kw, sp) for x in v]
    if isinstance(v, tuple):
        return tuple(uncollide(x, kw, sp) for x in v)
    if isinstance(v, dict):
        out, seen = {}, {}
        dk = dropped_keys(v, sp) if sp is not None else []
        for k, x in v.items():
            nk = k
            if not (isinstance(k, str) and k.startswith("__")):
                try:
                    h = DeepHash(k, **kw)[k]
                except Exception:  # noqa
                    h = None
                if h is not None:
                    if h in seen:
                        nk = "dup%d<%r>" % (seen[h], k)
                    seen[h] = seen.get(h, 0) + 1
                if nk is k and any(k is q for q in dk):       # same clean key as an earlier key, different hash
                    nk = "dupc<%r>" % (k,)
            out[nk] = uncollide(x, kw, sp)
        return out
    return v


def sets_of(v, acc):
    if isinstance(v, (set, frozenset)):
        acc.append(v)
    elif isinstance(v, dict):
        for x in v.values():
            sets_of(x, acc)
    elif isinstance(v, (list, tuple)):
        for x in v:
            sets_of(x, acc)
    return acc


def _member_hash(x, kw):
    from deepdiff import DeepHash
    try:
        return DeepHash(x, **kw)[x]
    except Exception:  # noqa
        return ("exc", repr(x))


def merged_members(v, kw):
    """a set with two members DeepHash cannot tell apart under the options"""
    for st in sets_of(v, []):
        hs = [_member_hash(x, kw) for x in st]
        if len(set(hs)) < len(hs):
            return True
    return False


def dedupe_sets(v, kw):
    if isinstance(v, list):
        return [dedupe_sets(x, kw) for x in v]
    if isinstance(v, tuple):
        return tuple(dedupe_sets(x, kw) for x in v)
    if isinstance(v, dict):
        return {k: dedupe_sets(x, kw) for k, x in v.items()}
    if isinstance(v, (set, frozenset)):
        seen, out = set(), []
        for x in sorted(v, key=repr):
            h = _member_hash(x, kw)
            if h not in seen:
                seen.add(h)
                out.append(x)
        return type(v)(out)
    return v


def _utf8_nonascii(a):
    if isinstance(a, bytes) and any(c >= 128 for c in a):
        try:
            a.decode("utf-8")
            return True
        except UnicodeDecodeError:
            return False
    return False


def _undecodable(a):
    if isinstance(a, bytes):
        try:
            a.decode("utf-8")
        except UnicodeDecodeError:
            return True
    return False


def _is_dt(a):
    return isinstance(a, (datetime.datetime, datetime.time))


def _is_date_or_td(a):
    return isinstance(a, datetime.timedelta) or (isinstance(a, datetime.date) and not isinstance(a, datetime.datetime))


def _is_dtlike(a):
    return isinstance(a, (datetime.datetime, datetime.date, datetime.time, datetime.timedelta))


def dt_in_iterable(v, inside=False):
    """a datetime / time that DeepDiff compares through item hashes (list / tuple item, set member)"""
    if isinstance(v, (list, tuple, set, frozenset)):
        return any(dt_in_iterable(x, True) for x in v)
    if isinstance(v, dict):
        return any(dt_in_iterable(x, inside) for x in v.values())
    return inside and _is_dt(v)


def _truncate(a, unit):
    if not _is_dt(a):
        return a
    kw = {"microsecond": 0}
    if unit in ("minute", "hour", "day"):
        kw["second"] = 0
    if unit in ("hour", "day"):
        kw["minute"] = 0
    if unit == "day":
        kw["hour"] = 0
    return a.replace(**kw)


def enum_type_clash(t1, t2):
    """an Enum member directly faces a value (or the value of another member) whose type is not the type
    of the member's value (root, common dict keys, any pair of items of two lists / tuples)"""
    e1, e2 = isinstance(t1, Enum), isinstance(t2, Enum)
    if e1 and e2:
        return type(t1.value) is not type(t2.value)     # both unwrapped, types still differ
    if e1 != e2:
        m, o = (t1, t2) if e1 else (t2, t1)
        return type(o) is not type(m.value)
    if isinstance(t1, dict) and isinstance(t2, dict):
        return any(enum_type_clash(x, y) for x in t1.values() for y in t2.values())   # key cleaning may cross keys
    if isinstance(t1, (list, tuple)) and type(t1) is type(t2):
        return any(enum_type_clash(x, y) for x in t1 for y in t2)
    return False


def same_class_pairs(t1, t2, kw):
    """Enum classes with two DIFFERENT members, one in t1 and one in t2, that DeepHash identifies under the options"""
    from deepdiff import DeepHash
    m1 = [a for a in atoms_of(t1) + keys_of(t1) if isinstance(a, Enum)]
    m2 = [a for a in atoms_of(t2) + keys_of(t2) if isinstance(a, Enum)]
    out = set()
    for a in m1:
        for b in m2:
            if type(a) is type(b) and a is not b and type(a) not in out:
                try:
                    if DeepHash(a, **kw)[a] == DeepHash(b, **kw)[b]:
                        out.add(type(a))
                except Exception:  # noqa
                    pass
    return out


def unwrap_enum(a):
    return a.value if isinstance(a, Enum) else a


def _dtkey(sp):
    from deepdiff.helper import datetime_normalize
    tz = kwargs_of(sp).get("default_timezone", datetime.timezone.utc)
    def f(k):
        n = datetime_normalize(sp["trunc"], k, default_timezone=tz)       # a time becomes its seconds
        return "dt<%s>" % (n.isoformat() if hasattr(n, "isoformat") else repr(n))
    return f


def _dec_norm(a):
    return Decimal(format(a.normalize() + Decimal(0), "f")) if isinstance(a, Decimal) else a


# key -> (feature present in the failing case?, the transform that removes exactly that feature)
FEATURES = [
    ("C12-K9-bool-number",
     lambda t1, t2, sp, c: sp["numty"] and any(isinstance(a, bool) for a in all_atoms2(t1, t2)),
     both(lambda a: ("<bool %s>" % a) if isinstance(a, bool) else a)),
    ("C12-K1-tag-collision",
     lambda t1, t2, sp, c: any(tag_like(a) for a in all_atoms2(t1, t2)),
     both(detag)),
    ("C12-negative-zero",
     lambda t1, t2, sp, c: any(neg_zero(a) for a in all_atoms2(t1, t2)),
     both(lambda a: 0.0 if neg_zero(a) else a)),
    ("C12-sigdigits-dict-keys",
     lambda t1, t2, sp, c: sp["sig"] is not None and not cleaning(sp) and any(is_num(k) for k in all_keys2(t1, t2)),
     both_keys(is_num, strkey)),
    ("C12-bytes-key-case",
     lambda t1, t2, sp, c: sp["case"] and any(isinstance(k, bytes) and k != k.lower() for k in all_keys2(t1, t2)),
     both_keys(lambda k: isinstance(k, bytes), bytes.lower)),
    ("C12-clean-key-collision",
     # two keys of one dict DeepHash identifies, or (exactly the finding's mechanism) two keys of one dict with the same
     # clean key under the key cleaning in force, which DeepHash may well tell apart (a bool key next to a number)
     lambda t1, t2, sp, c: (colliding_keys(t1, kwargs_of(sp)) or colliding_keys(t2, kwargs_of(sp))
                            or clean_key_collision(t1, sp) or clean_key_collision(t2, sp)),
     lambda t1, t2, sp: (uncollide(t1, kwargs_of(sp), sp), uncollide(t2, kwargs_of(sp), sp), sp)),
    ("C12-set-member-collision",
     lambda t1, t2, sp, c: c.get("rep") and (merged_members(t1, kwargs_of(sp)) or merged_members(t2, kwargs_of(sp))),
     lambda t1, t2, sp: (dedupe_sets(t1, kwargs_of(sp)), dedupe_sets(t2, kwargs_of(sp)), sp)),
    ("C12-nonascii-bytes",
     lambda t1, t2, sp, c: (sp["strty"] or sp["case"]) and any(_utf8_nonascii(a) for a in all_atoms2(t1, t2)),
     both(lambda a: a.decode("utf-8").encode("ascii", "backslashreplace") if _utf8_nonascii(a) else a)),
    ("C12-undecodable-bytes",
     lambda t1, t2, sp, c: any(_undecodable(a) for a in all_atoms2(t1, t2)),
     both(lambda a: a.decode("latin-1").encode("ascii", "backslashreplace") if _undecodable(a) else a)),
    ("C12-truncate-not-forwarded",
     lambda t1, t2, sp, c: bool(sp["trunc"]) and (dt_in_iterable(t1) or dt_in_iterable(t2)),
     lambda t1, t2, sp: (vmap(t1, lambda a: _truncate(a, sp["trunc"])), vmap(t2, lambda a: _truncate(a, sp["trunc"])), dict(sp, trunc=None))),
    ("C12-datetime-dict-keys",
     lambda t1, t2, sp, c: any(isinstance(k, (datetime.datetime, datetime.time)) for k in all_keys2(t1, t2)),
     lambda t1, t2, sp: (rekey(t1, lambda k: isinstance(k, (datetime.datetime, datetime.time)), _dtkey(sp)),
                         rekey(t2, lambda k: isinstance(k, (datetime.datetime, datetime.time)), _dtkey(sp)), sp)),
    ("C12-enum-dict-keys",
     lambda t1, t2, sp, c: sp["enum"] and any(isinstance(k, Enum) for k in all_keys2(t1, t2)),
     both_keys(lambda k: isinstance(k, Enum), lambda k: "enum<%s.%s>" % (type(k).__name__, k.name))),
    ("C12-enum-same-class-members",
     lambda t1, t2, sp, c: sp["enum"] and bool(same_class_pairs(t1, t2, kwargs_of(sp))),
     lambda t1, t2, sp: (lambda cls: (vmap(t1, lambda a: a.value if type(a) in cls else a), vmap(t2, lambda a: a.value if type(a) in cls else a), sp))(
         same_class_pairs(t1, t2, kwargs_of(sp)))),
    ("C12-enum-unwrap-skips-type-check",
     # (the missing type check only ever makes the diff engine MORE lenient or makes it raise: see PREDICTS)
     lambda t1, t2, sp, c: sp["enum"] and enum_type_clash(t1, t2),
     both(unwrap_enum)),
    ("C12-enum-distance-TypeError",
     lambda t1, t2, sp, c: sp["enum"] and any(isinstance(a, Enum) for a in all_atoms2(t1, t2)),
     both(lambda a: "enum<%s.%s>" % (type(a).__name__, a.name) if isinstance(a, Enum) else a)),
    ("C12-number-vs-datetime-TypeError",
     lambda t1, t2, sp, c: sp["numty"] and any(isinstance(a, (datetime.datetime, datetime.date, datetime.time)) for a in all_atoms2(t1, t2)),
     both(lambda a: "dt<%s>" % a.isoformat() if isinstance(a, (datetime.datetime, datetime.date, datetime.time)) else a)),
    ("C12-timedelta-hash-TypeError",
     lambda t1, t2, sp, c: (sp["sig"] is not None or sp["numty"]) and any(isinstance(a, datetime.timedelta) for a in all_atoms2(t1, t2) + all_keys2(t1, t2)),
     both(lambda a: "td<%r>" % a.total_seconds() if isinstance(a, datetime.timedelta) else a)),
    ("C12-date-key-cleaning-TypeError",
     lambda t1, t2, sp, c: cleaning(sp) and (sp["sig"] is not None or sp["numty"]) and any(_is_dtlike(k) for k in all_keys2(t1, t2)),
     both_keys(lambda k: _is_dtlike(k), lambda k: "dtk<%s %s>" % (type(k).__name__, k))),
    ("C12-decimal-exponent",
     lambda t1, t2, sp, c: any(isinstance(a, Decimal) for a in all_atoms2(t1, t2)),
     both(_dec_norm)),
    ("C12-K2-memo-alias",
     # the diff engine: aliasing in the positions where it acts, across both values; the hash engine:
     # aliasing anywhere inside ONE value (each DeepHash call has its own table)
     lambda t1, t2, sp, c: (harmful_alias(t1, t2, kwargs_of(sp), acting=True) or harmful_alias(t1, None, kwargs_of(sp))
                            or harmful_alias(t2, None, kwargs_of(sp))),
     both(dealias)),
]

def pattern(case):
    """the failing clause of a case: (hash verdict, diff verdict)"""
    he, dv = case.get("hash_eq"), str(case.get("diff"))
    return ("T" if he is True else "F" if he is False else "X"), dv


# the failing clause each finding PREDICTS (its mechanism, see known_findings.d/C12.json): a failing case whose clause
# none of the removed features predicts is not explained by known findings, whatever the counterfactual says
LENIENT = {("F", "empty")}          # the diff engine misses a difference DeepHash sees
STRICT = {("T", "nonempty")}        # the diff engine reports a difference between values DeepHash identifies
PREDICTS = {
    "C12-K9-bool-number": LENIENT,
    "C12-K1-tag-collision": STRICT,
    "C12-negative-zero": LENIENT,
    "C12-sigdigits-dict-keys": STRICT,
    "C12-bytes-key-case": STRICT,
    # which entry is dropped depends on insertion order: either clause, never an exception; and the diff verdict must be the
    # one the mechanism predicts (the verdict on the input without the dropped entries)
    "C12-clean-key-collision": lambda h, d, x: (h, d) in (LENIENT | STRICT) and collision_predicts_diff(x, d),
    "C12-set-member-collision": LENIENT,
    "C12-nonascii-bytes": STRICT,
    "C12-undecodable-bytes": lambda h, d, x: h == "X",
    # item hashes are not truncated: items equal up to truncation are reported; with report_repetition DUPLICATES that only
    # truncation merges are counted by DeepHash and not by the diff engine
    "C12-truncate-not-forwarded": lambda h, d, x: (h, d) == ("T", "nonempty") or ((h, d) == ("F", "empty") and bool(x["rep"])),
    "C12-datetime-dict-keys": STRICT,
    "C12-enum-dict-keys": STRICT,
    "C12-enum-same-class-members": STRICT,
    # the missing type check makes the diff engine more lenient, or makes the comparer of t1's type raise
    "C12-enum-unwrap-skips-type-check": lambda h, d, x: (h, d) == ("F", "empty") or d in ("EXC:AttributeError", "EXC:TypeError"),
    "C12-enum-distance-TypeError": lambda h, d, x: d == "EXC:TypeError",
    # round(datetime) in _diff_numbers (since /repo 1c8f0f8 datetime_normalize leaves a number alone: no AttributeError under truncation any more)
    "C12-number-vs-datetime-TypeError": lambda h, d, x: d == "EXC:TypeError",
    "C12-timedelta-hash-TypeError": lambda h, d, x: h == "X",
    "C12-date-key-cleaning-TypeError": lambda h, d, x: d == "EXC:TypeError",
    "C12-decimal-exponent": LENIENT,
    # the diff engine's shared table hides a difference (lenient); the hash engine's own table can also make the
    # hashes of two different values EQUAL, but only through an alias inside ONE of the two values
    "C12-K2-memo-alias": lambda h, d, x: (h, d) == ("F", "empty") or (
        (h, d) == ("T", "nonempty") and (harmful_alias(x["t1"], None, kwargs_of(x["sp"])) or harmful_alias(x["t2"], None, kwargs_of(x["sp"])))),
}


def predicts(key, pat, x):
    p = PREDICTS.get(key)
    if p is None:
        return True
    return p(pat[0], pat[1], x) if callable(p) else pat in p


_ATTR = {}


def attribution(case):
    """The smallest set of known-finding features (at most 3, searched in the
    fixed order above) whose removal from the input makes the two engines
    agree; counterfactual: nothing else about the input changes.  Returns the
    keys, or () when the failure is not explained by known findings."""
    ck = (case.get("t1"), case.get("t2"), repr(sorted(case.get("spec", {}).items(), key=repr)), case.get("rep"), case.get("hash_eq"), case.get("diff"))
    if ck in _ATTR:
        return _ATTR[ck]
    import itertools
    out = ()
    try:
        t1, t2, sp, rep = _inputs(case)
        present = []
        for key, pres, tr in FEATURES:
            try:
                if pres(t1, t2, sp, case):
                    present.append((key, tr))
            except Exception:  # noqa
                pass
        # features whose presence is an observed exception are re-checked on the CURRENT (partly
        # transformed) input: they may only surface once another finding is out of the way
        dynamic = {"C12-enum-distance-TypeError": "EXC:TypeError"}
        for r in (1, 2, 3):
            for sub in itertools.permutations(present, r):
                a, b, s = t1, t2, sp
                try:
                    ok = True
                    for k_, tr in sub:
                        if k_ in dynamic and diff_verdict(*reshare(a, b, s.get("share", 0)), kwargs_of(s), rep, **s.get("knobs", {}))[0] != dynamic[k_]:
                            ok = False
                            break
                        a, b, s = tr(a, b, s)
                    if ok and holds(a, b, s, rep):
                        # credit the first feature (in the fixed order) that predicts the observed failing clause
                        keys = [k for k, _t in sub]
                        pat = pattern(case)
                        pr = {k: predicts(k, pat, dict(t1=t1, t2=t2, sp=sp, rep=rep)) for k in keys}
                        out = tuple(k for k, _p, _t in FEATURES if k in keys and pr[k]) + \
                            tuple(k for k, _p, _t in FEATURES if k in keys and not pr[k])
                        if not pr[out[0]]:
                            out = ()
                            continue
                        break
                except Exception:  # noqa
                    continue
            if out:
                break
    except Exception:  # noqa
        out = ()
    _ATTR[ck] = out
    return out


def _matcher(key):
    # a failure explained by several co-occurring findings is credited to the first of them
    return lambda case: bool(attribution(case)) and attribution(case)[0] == key


MATCHERS = {key: _matcher(key) for key, _p, _t in FEATURES}


# --------------------------------------------------------------------------
# generators
# --------------------------------------------------------------------------
# exotic atoms enter by a substitution applied to BOTH values, so that pairs that differ only
# in the ignored aspect stay such pairs ('a' / 'A' -> 'e-acute' / 'E-acute', 'a' / b'a' -> 'e-acute' / its UTF-8 bytes, ...)
SIGMA = [
    {"a": "\u00e9", "A": "\u00c9", b"a": "\u00e9".encode("utf-8"), b"A": "\u00c9".encode("utf-8")},
    {"ab": "caf\u00e9", "AB": "CAF\u00c9", "Ab": "Caf\u00e9", b"ab": "caf\u00e9".encode("utf-8"), b"Ab": "Caf\u00e9".encode("utf-8")},
    {"b": "\u00df", "B": "SS"},
    {"k1": "i\u0307", "K1": "\u0130"},
    {b"ab": b"\xff", b"Ab": b"\xfe"},
    {b"": b"\xff"},
    {(int, 1): Decimal("1"), (float, 1.0): Decimal("1.0"), (float, 1.5): Decimal("1.50"), (float, 2.5): Decimal("2.5")},
    {(float, 0.0): -0.0},
    {(int, 0): -0.0},
    {(float, 0.5): 0.1 + 0.2, (float, 1.5): 0.3, (float, 2.5): 2.675},
    {(int, 10): 1000, (int, 11): 1001, (float, 3.5): 1000.0, (float, 4.5): 1001.4},
]


def inject_exotic(rng, vals, keys_too=False):
    """apply a random selection of the substitutions to all the values consistently"""
    sub = {}
    for m in SIGMA:
        if rng.random() < 0.3:
            sub.update(m)
    if not sub:
        return vals, False

    def fa(a):
        if isinstance(a, bool) or a is None:
            return a
        if isinstance(a, (int, float)):
            return sub.get((type(a), a), a)
        try:
            return sub.get(a, a)
        except TypeError:
            return a

    def fk(k):
        if keys_too and isinstance(k, str):
            return fa(k)
        return k
    try:
        return [vmap(v, fa, fk) for v in vals], True
    except Exception:  # noqa (a substitution that merges two keys / members)
        return vals, False


def edit_once(rng, v):
    for _ in range(5):
        w, k = C05.io_edit(rng, v, alias=False)
        if k is not None:
            return w, k
    return v, None


def to_enum(rng, classes, p, keys_too):
    """an atom map sending a plain value to a member (of one of the classes) with that value"""
    def fa(a):
        if a is None and E4 in classes and rng.random() < p:
            return E4.N
        if isinstance(a, (bool, bytes)) or a is None or isinstance(a, Enum) or rng.random() >= p:
            return a
        cands = [m for cl in classes for m in cl if type(m.value) is type(a) and m.value == a]
        return rng.choice(cands) if cands else a

    def fk(k):
        return fa(k) if keys_too else k
    return fa, fk


def gen_enum_cross(rng, sp):
    """members of DIFFERENT Enum classes with equal (or merely option-equal) values facing each
    other: at the root, as dict values, nested, as list items, occasionally as dict keys"""
    base = {1: [1, 1, "x", 2, 2.5, "X"], 2: ["x", "X", 1, 2, 2.5, "a", 3]}
    shape = rng.choice(["root", "dict", "list", "nested", "gen", "gen"])
    atom = lambda: rng.choice([1, 1, "x", "X", 2, 2.5, "a", 7])  # noqa
    if shape == "root":
        v = atom()
    elif shape == "dict":
        v = {k: atom() for k in rng.sample(["k", "a", "b", "K", 3], rng.randint(1, 3))}
    elif shape == "list":
        v = [atom() for _ in range(rng.randint(1, 4))]
    elif shape == "nested":
        v = {"k": [atom(), {"q": atom(), "r": (atom(), atom())}], "s": {atom(), 9}}
    else:
        v = C11.gen_value(rng, rng.choice([1, 2, 3]), 3, True, True, False)
        v = vmap(v, lambda a: atom() if (isinstance(a, (int, float, str)) and not isinstance(a, bool) and rng.random() < 0.5) else a,
                 lambda k: k)
    log = []
    w = C11.normalise(rng, v, c11_spec(dict(sp, enum=False)), rich=False, p=0.4, log=log) if rng.random() < 0.6 else copy.deepcopy(v)
    if rng.random() < 0.5:
        w = C05.rebuild(w, rng)
    keys_too = rng.random() < 0.25
    try:
        fa1, fk1 = to_enum(rng, [E], 0.7, keys_too)
        # mostly other classes; in a quarter of the cases the SAME class (members of one class are never unwrapped by _diff)
        fa2, fk2 = to_enum(rng, [E] if rng.random() < 0.25 else [E2, E3, E4], 0.7, keys_too)
        t1, t2 = vmap(v, fa1, fk1), vmap(w, fa2, fk2)
    except Exception:  # noqa (a substitution that merges keys / set members)
        t1, t2 = v, w
    if rng.random() < 0.25:
        t2, k = edit_once(rng, t2)
        log.append(("edit", k))
    if rng.random() < 0.5:
        t1, t2 = t2, t1
    return t1, t2, log


def all_enum_classes():
    out = list(ENUMS)
    for cl in getattr(C11, "ENUMS", ()):
        if cl not in out:
            out.append(cl)
    return out


def other_typed(a, sp):
    """the plain values of ANOTHER type that the option set makes equal to the plain value a"""
    out = []
    if isinstance(a, bool) or a is None:
        return out
    if sp["numty"] and isinstance(a, (int, float, Decimal)) and a == a:
        if isinstance(a, int):
            out += [float(a), Decimal(a)]
        elif isinstance(a, float):
            out += [Decimal(repr(a))] + ([int(a)] if a == int(a) else [])
        else:
            out += [float(a)] + ([int(a)] if a == int(a) else [])
    if sp["strty"] and isinstance(a, str):
        out.append(a.encode("utf-8"))
        if sp["case"] and a.swapcase() != a:
            out.append(a.swapcase().encode("utf-8"))
    if sp["strty"] and isinstance(a, bytes):
        try:
            out.append(a.decode("utf-8"))
            if sp["case"] and a.swapcase() != a:
                out.append(a.swapcase().decode("utf-8"))
        except UnicodeDecodeError:
            pass
    return out


ENUMTY_SPECS = [dict(numty=True), dict(strty=True), dict(numty=True, strty=True), dict(strty=True, case=True), dict(numty=True, sig=1),
                dict(numty=True, sig=0), dict(numty=True, case=True), dict(strty=True, sig=2), dict(numty=True, sig=2, note=True)]


def enum_vs_plain_pairs(rng, n):
    """use_enum_value together with a type-ignoring option: an Enum member facing a PLAIN value that equals the member's
    value up to the ignored type (member 1 / 1.0 / Decimal(1), member 'x' / b'x'), and facing a member of another class
    whose value does; at the places DeepDiff compares directly (root, dict value, nested dict value) and as list / tuple /
    set items; both orientations; sometimes next to a genuine difference.  Systematic over members x option sets, shapes
    drawn at random."""
    shapes = [lambda x, o: x,
              lambda x, o: {"k": x},
              lambda x, o: {"k": x, "j": 3},
              lambda x, o: {"k": {"q": x, "r": [1, "y"]}, "n": 3},
              lambda x, o: (x, "y"),
              lambda x, o: {"k": [x, 5]} if o else {"k": [5, x]},
              lambda x, o: [{"k": x}, 7] if o else [7, {"k": x}],
              lambda x, o: {"k": x, "l": (x, 2)}]
    combos = []
    for s in ENUMTY_SPECS:
        sp = mk(enum=True, **s)
        for cl in all_enum_classes():
            for m in cl:
                for o in other_typed(m.value, sp):
                    combos.append((sp, m, o))
                    # a member of another class carrying the other-typed value
                    for cl2 in all_enum_classes():
                        for m2 in cl2:
                            if cl2 is not cl and type(m2.value) is type(o) and m2.value == o:
                                combos.append((sp, m, m2))
    rng.shuffle(combos)
    out = []
    # the directly compared shapes first: every (option set, member type) at least once when n allows
    for i, (sp, m, o) in enumerate(combos[:n]):
        sh = shapes[i % 4] if i < n // 2 else rng.choice(shapes)
        t1, t2 = sh(m, True), sh(o, False)
        if rng.random() < 0.15:
            t2, _k = edit_once(rng, t2)
        if rng.random() < 0.5:
            t1, t2 = t2, t1
        out.append((t1, t2, sp))
    return out


def gen_case_values(rng, fam, sp, rich):
    """(t1, t2, log)"""
    if fam == "enumx":
        return gen_enum_cross(rng, sp)
    depth = rng.choice([1, 2, 2, 3])
    if fam == "records":
        t1 = C05.big_near_dups(rng)
        log = []
        t2 = C11.normalise(rng, t1, c11_spec(sp), rich=False, p=0.35, log=log)
        t2 = C05.rebuild(t2, rng)
        for _ in range(rng.choice([0, 0, 1, 2])):
            t2, k = edit_once(rng, t2)
            log.append(("edit", k))
        if rng.random() < 0.5:
            t1, t2 = t2, t1
        return t1, t2, log
    t1 = C11.gen_value(rng, depth, 4, bytes_ok=True, numeric_ok=True, rich=rich)
    if not isinstance(t1, (list, tuple, dict)) and rng.random() < 0.7:
        t1 = [t1, C11.gen_value(rng, 1, 3, True, True, rich)]
    log = []
    if fam in ("alt", "near"):
        t2 = C11.normalise(rng, t1, c11_spec(sp), rich=rich, p=0.6, log=log)
        if rng.random() < 0.6:
            t2 = C05.rebuild(t2, rng)
        if fam == "near":
            t2, k = edit_once(rng, t2)
            log.append(("edit", k))
    elif fam == "rand":
        t2 = C05.rebuild(t1, rng)
        for _ in range(rng.choice([0, 1, 1, 2, 3])):
            t2, k = edit_once(rng, t2)
            log.append(("edit", k))
    else:
        t2 = C11.gen_value(rng, depth, 4, True, True, rich)
    if rich:
        (t1, t2), did = inject_exotic(rng, [t1, t2], keys_too=rng.random() < 0.5)
        if did:
            log.append(("exotic", "substitution"))
    if rng.random() < 0.5:
        t1, t2 = t2, t1
    return t1, t2, log


def _s(**kw):
    return mk(**kw)


# one instant (2024-01-01 22:40:30 UTC) in five zones, and a second instant in two
DTZ = [C11._dt(2024, 1, 1, 22, 40, 30, 0, 0), C11._dt(2024, 1, 2, 0, 40, 30, 0, 120), C11._dt(2024, 1, 2, 4, 10, 30, 0, 330),
       C11._dt(2024, 1, 2, 4, 25, 30, 0, 345), C11._dt(2024, 6, 30, 23, 59, 59, 999999, -300), C11._dt(2024, 7, 1, 4, 59, 59, 999999, 0)]


def gen_dt_zones(rng, sp):
    """aware datetimes at the same instant in different zones (incl. +05:30 / +05:45), at the root, as dict values,
    nested and as list items; occasionally a genuinely different instant"""
    def dt():
        return C11._dt(2024, rng.randint(1, 12), rng.randint(1, 28), rng.randint(0, 23), rng.randint(0, 59), rng.randint(0, 59),
                       rng.choice([0, 0, 999999]), rng.choice([0, 0, 120, -300, 330, 345]))
    shape = rng.choice(["root", "dict", "dict", "nested", "list", "mixed"])
    if shape == "root":
        v = dt()
    elif shape == "dict":
        v = {k: dt() for k in rng.sample(["k", "a", "b", 3], rng.randint(1, 3))}
    elif shape == "nested":
        v = {"k": {"q": dt(), "r": {"s": dt()}}, "n": rng.randint(0, 3)}
    elif shape == "list":
        v = [dt() for _ in range(rng.randint(1, 3))]
    else:
        v = {"k": dt(), "l": [dt(), 1], "m": (dt(),)}

    def rezone(a):
        if isinstance(a, datetime.datetime) and a.tzinfo is not None and rng.random() < 0.8:
            b = a.astimezone(datetime.timezone(datetime.timedelta(minutes=rng.choice([0, 60, 120, -300, 330, 345, -480, 765]))))
            if rng.random() < 0.1:
                b = b + datetime.timedelta(seconds=rng.choice([1, 61, 3601]))
            return b
        return a
    w = vmap(v, rezone, lambda k: k)
    if rng.random() < 0.3:
        w = C05.rebuild(w, rng)
    return (v, w, []) if rng.random() < 0.5 else (w, v, [])


def gen_key_flip(rng, sp, decimals=True):
    """numeric dict keys equal in value but of another type (1 / 1.0 / Decimal(1)), both key orders"""
    v = C11.gen_value(rng, rng.choice([1, 2, 2]), 3, True, True, False)
    if not isinstance(v, dict):
        v = {rng.choice([1, 2, 1.0, 0, 3.0]): v, rng.choice(["a", "A", "k1"]): rng.randint(0, 3)}

    def fk(k):
        if isinstance(k, bool) or rng.random() < 0.3:
            return k
        if isinstance(k, int):
            return rng.choice([float(k), Decimal(k)] if decimals else [float(k)])
        if isinstance(k, float) and k == int(k):
            return rng.choice([int(k), Decimal(int(k))] if decimals else [int(k)])
        return k
    w = vmap(v, lambda a: a, fk)
    w = C05.rebuild(w, rng)
    return (v, w, []) if rng.random() < 0.5 else (w, v, [])


# guard boundaries and the witnesses of the findings: (t1, t2, option set)
FIXED = [
    ([True], [1], _s(numty=True)), (True, 1, _s(numty=True)), ({"a": True}, {"a": 1.0}, _s(numty=True)), ([True, 5], [1, 5], _s(numty=True)),
    ([[True, 2, 3, 4]], [[1, 2, 3, 4]], _s(numty=True)), ({1: "x"}, {True: "x"}, _s(numty=True)), ([False], [0.0], _s(numty=True)),
    ([1], [1.0], _s(numty=True)), (1, 1.0, _s(numty=True)), ({1: 2}, {1.0: 2}, _s(numty=True)), ({1: "x", 2.0: "y"}, {1.0: "x", 2: "y"}, _s(numty=True)),
    ([1], [1.0], _s()), (1, 1.0, _s()), ([1], [True], _s()), ({1}, {1.0}, _s()), ([1], [1.0], _s(sig=2)), (1, 1.0, _s(sig=2)),
    ([1.5], [2.5], _s(sig=0)), (1.5, 2.5, _s(sig=0)), ([0.5], [1.5], _s(sig=0)), (0.5, -0.5, _s(sig=0)), ([2], [2.5], _s(sig=0, numty=True)),
    (2, 1.5, _s(sig=0, numty=True)), ({1.5: 1}, {2.5: 1}, _s(sig=0)), ({1.5: 1}, {2.5: 1}, _s(sig=0, numty=True)), ({2: 1}, {2.5: 1}, _s(sig=0, numty=True)),
    ({1: 1}, {1: 1}, _s(case=True)), ({1: "x"}, {1: "x"}, _s(strty=True)), ({"a": {1: "x"}}, {"a": {1: "x"}}, _s(strty=True)),
    ([{1: "x"}], [{1: "x"}], _s(strty=True)), ([{1: "x"}, 2], [{1: "y"}, 2], _s(strty=True)), ({True: 1}, {True: 1}, _s(case=True)),
    (["a"], [b"a"], _s(strty=True)), ("a", b"a", _s(strty=True)), ({"a": 1}, {b"a": 1}, _s(strty=True)), ({"a"}, {b"a"}, _s(strty=True)),
    ("A", "a", _s(case=True)), (["A"], ["a"], _s(case=True)), ({"A": 1}, {"a": 1}, _s(case=True)), ({"A"}, {"a"}, _s(case=True)),
    (b"A", b"a", _s(case=True)), ([b"A"], [b"a"], _s(case=True)), ({b"A": 1}, {b"a": 1}, _s(case=True)), ("A", b"a", _s(case=True, strty=True)),
    ({"A": 1}, {b"a": 1}, _s(case=True, strty=True)), ({b"A": 1}, {"a": 1}, _s(case=True, strty=True)),
    ([None], ["NONE"], _s()), (None, "NONE", _s()), ({"k": None}, {"k": "NONE"}, _s()), (None, "none", _s(case=True)), ([None], ["none"], _s(case=True)),
    (1, "int:1", _s()), ({"k": 1}, {"k": "int:1"}, _s()), (1, b"int:1", _s(strty=True)), (True, "bool:true", _s()), ([], "list:", _s()),
    ({"k": []}, {"k": "list:"}, _s()), (1.0, "number:1.000000000000", _s(numty=True)), ({"k": 1}, {"k": "number:1.00"}, _s(numty=True, sig=2)),
    ({"A": 1, "a": 2}, {"A": 1, "a": 3}, _s(case=True)), ({"A": 1, "a": 2}, {"A": 1}, _s(case=True)), ({"A": 1, "a": 2}, {"a": 2, "A": 1}, _s(case=True)),
    ({"a": 1, b"a": 2}, {"a": 1, b"a": 3}, _s(strty=True)), ({1: 1, 1.5: 2}, {1: 1, 1.5: 3}, _s(numty=True)), ({1.5: 1, 2.5: 2}, {1.5: 1, 2.5: 3}, _s(numty=True, sig=0)),
    ([1, 1, 2], [1, 2, 2], _s()), ([1.5, 2.5], [1.5], _s(sig=0)), (["a", "A"], ["a"], _s(case=True)), (("a", "A"), ("a", "a"), _s(case=True)),
    ({"a", "A"}, {"a"}, _s(case=True)), ({"a", b"a"}, {b"a"}, _s(strty=True)), (frozenset([3.5, 4]), frozenset([4]), _s(numty=True, sig=0)),
    ({1: "x"}, {1.0: "x"}, _s(case=True, sig=2)), ({1.0: "x"}, {1: "x"}, _s(case=True, sig=2)), ({1: "x", "a": 2}, {"A": 2, 1.0: "x"}, _s(case=True, sig=1)),
    ({2.0: [1], 3: "y"}, {2: [1], 3.0: "y"}, _s(strty=True, sig=0)), ({"k": {1: "x"}}, {"k": {1.0: "x"}}, _s(case=True, strty=True, sig=3)),
    ({1: "x"}, {1.0: "x"}, _s(case=True)), ({1: "x"}, {1.0: "x"}, _s(sig=2)), ({1: "x"}, {1.0: "x"}, _s(case=True, sig=2, numty=True)),
    ([[1, 2, 3], [1.0, 2.0, 3.0]], [[1, 2, 3]], _s(numty=True)), ([{"a": [1, 2]}, {"A": [2.0, 1.0]}], [{"a": [1, 2]}], _s(numty=True, case=True)),
    ({"__a": 1, "b": 2}, {"__a": 2, "b": 2}, _s()), ({"__A": 1, "b": 2}, {"__a": 2, "B": 2}, _s(case=True)),
    # the exact K9 guard: a bool facing a number the diff engine does NOT find equal is inside the theorem (both engines: different);
    # number first goes through the number_to_string texts, bool first through != (0.5 / False at 0 digits: only in that order equal)
    (True, 2, _s(numty=True)), (2, True, _s(numty=True)), ([True, 5], [5, 2], _s(numty=True)), ({"k": False}, {"k": 1.5}, _s(numty=True)),
    (0.5, False, _s(numty=True, sig=0)), (False, 0.5, _s(numty=True, sig=0)), (1.5, True, _s(numty=True, sig=0)), (True, 1.5, _s(numty=True, sig=0)),
    (-0.5, False, _s(numty=True, sig=0)), ({"k": 0.5}, {"k": False}, _s(numty=True, sig=0)), ([True, 1], [1, True], _s(numty=True)),
    ({"a": [True, 2]}, {"a": [2, True]}, _s(numty=True, case=True)), ([0.5, 3], [3, False], _s(numty=True, sig=0)),
]

FIXED_RICH = [
    ({1: "x"}, {Decimal(1): "x"}, _s(case=True, sig=2)), ({Decimal(1): "x"}, {1.0: "x"}, _s(strty=True, sig=2)), ({1.0: "x", 2: 1}, {Decimal(1): "x", 2.0: 1}, _s(case=True, sig=0)),
    (DTZ[0], DTZ[1], _s(trunc="day")), (DTZ[0], DTZ[2], _s(trunc="hour")), (DTZ[0], DTZ[3], _s(trunc="hour")), (DTZ[0], DTZ[1], _s(trunc="hour")),
    ({"k": DTZ[0]}, {"k": DTZ[1]}, _s(trunc="day")), ({"k": DTZ[1]}, {"k": DTZ[2]}, _s(trunc="hour")), ({"k": {"q": DTZ[3]}}, {"k": {"q": DTZ[0]}}, _s(trunc="day", tz=330)),
    ([DTZ[0]], [DTZ[1]], _s(trunc="day")), ([DTZ[0], 5], [5, DTZ[2]], _s(trunc="hour")), (DTZ[0], DTZ[1], _s()), (DTZ[0], DTZ[1], _s(trunc="minute")),
    (DTZ[0], DTZ[1], _s(trunc="day", tz=120)), (DTZ[4], DTZ[5], _s(trunc="day")),
    (-0.0, 0.0, _s()), ([-0.0], [0.0], _s()), (-0.0, 0.0, _s(sig=2)), ({1.001: 1}, {1.002: 1}, _s(sig=2)), ({1.001: 1}, {1.002: 1}, _s(sig=2, numty=True)),
    ("é", "é".encode("utf-8"), _s(strty=True)), (["é"], ["é".encode("utf-8")], _s(strty=True)),
    ({"k": "é"}, {"k": "é".encode("utf-8")}, _s(strty=True)), (b"\xff", b"\xff", _s()), ([b"\xff"], [b"\xff"], _s()), (b"\xff", b"\xfe", _s(strty=True)),
    ("ß", "SS", _s(case=True)), ("É", "é", _s(case=True)), (["É"], ["é"], _s(case=True)), ({"É": 1}, {"é": 1}, _s(case=True)),
    (1000, 1001, _s(sig=2, note=True)), ([1000], [1001], _s(sig=2, note=True)), (1000, 1000.0, _s(sig=2, note=True, numty=True)), (0.0, -0.0, _s(sig=2, note=True)),
    (Decimal("1.001"), Decimal("1.002"), _s(sig=2)), (Decimal("1"), 1, _s(numty=True)), (Decimal("1.0"), Decimal("1.00"), _s()), ([Decimal("1.0")], [Decimal("1.00")], _s()),
    (C11._dt(2024, 1, 1, 10, 20, 30, 5), C11._dt(2024, 1, 1, 10, 20, 31, 7), _s(trunc="minute")),
    ([C11._dt(2024, 1, 1, 10, 20, 30, 5)], [C11._dt(2024, 1, 1, 10, 20, 31, 7)], _s(trunc="minute")),
    ({C11._dt(2024, 1, 1, 10, 20, 1, 0)}, {C11._dt(2024, 1, 1, 10, 20, 2, 0)}, _s(trunc="minute")),
    ([C11._dt(2024, 1, 1, 10, 20, 1, 0), C11._dt(2024, 2, 1, 10, 20, 1, 0), C11._dt(2024, 3, 1, 10, 20, 1, 0)],
     [C11._dt(2024, 1, 1, 10, 20, 2, 0), C11._dt(2024, 2, 1, 10, 20, 2, 0), C11._dt(2024, 3, 1, 10, 20, 2, 0)], _s(trunc="minute")),
    (C11._dt(2024, 1, 1, 10, 20, 30, 0), C11._dt(2024, 1, 1, 10, 20, 30, 0, 120), _s(tz=120)),
    ({C11._dt(2024, 1, 1, 10, 20, 30, 0): 1}, {C11._dt(2024, 1, 1, 8, 20, 30, 0, 0): 1}, _s(tz=120)),
    (-2, C11._dt(2024, 5, 8, 15, 4, 33, 0), _s(numty=True)), ({"k": 1.5}, {"k": C11._dt(2024, 5, 8, 15, 4, 33, 0, 0)}, _s(numty=True)),
    ([[1, 2]], [[1, {b"k": 1}]], _s()),
    (E.A, E2.A, _s(enum=True)), ({"k": E.A}, {"k": E2.A}, _s(enum=True)), ([E.A], [E2.A], _s(enum=True)), ({"k": [E.A, 5]}, {"k": [5, E3.P]}, _s(enum=True)),
    ({"k": {"q": (E.C, E.B)}}, {"k": {"q": (E2.C, E3.S)}}, _s(enum=True)), (E.A, E2.Z, _s(enum=True)), ({"k": E.A}, {"k": E3.R}, _s(enum=True)),
    (E.B, E3.Q, _s(enum=True, case=True)), ({"k": E.D}, {"k": E2.B}, _s(enum=True, case=True)), (E.B, E3.Q, _s(enum=True)),
    (E.A, E2.A, _s(enum=True, numty=True)), ({"k": E.C}, {"k": E2.C}, _s(enum=True, sig=0)), ({"k": E2.Z}, {"k": E.C}, _s(enum=True, sig=0, numty=True)),
    ({"k": E.B}, {"k": E2.B}, _s(enum=True, strty=True)), ({E.A: 1}, {E2.A: 1}, _s(enum=True)), ({E.A}, {E2.A}, _s(enum=True)),
    (E.A, E2.A, _s()), ({"k": E.A}, {"k": E2.A}, _s()),
    (E2.C, E.B, _s(enum=True, case=True)), ({"k": E3.S}, {"k": E.C}, _s(enum=True, case=True)), ({"k": E.A}, {"k": E.B}, _s(enum=True)),
    ([E.A, 5], [7, 5], _s(enum=True)), ([E.C, "q"], ["q", 3.5], _s(enum=True)),
    (["x"], E.B, _s(enum=True)), ({"k": ["x"]}, {"k": E.B}, _s(enum=True)), (E.D, frozenset([""]), _s(enum=True, case=True)), (E.A, [1], _s(enum=True)),
    (E.A, 1, _s(enum=True)), ([E.A], [1], _s(enum=True)), ({"k": E.A}, {"k": 1}, _s(enum=True)), ({E.A: 1}, {1: 1}, _s(enum=True)),
    ([E.A], [E.B], _s(enum=True)), (E.B, "x", _s(enum=True)), (E.B, "X", _s(enum=True, case=True)),
    # use_enum_value + a type-ignoring option: a member facing an equal plain value of another type of the ignored group
    ({"k": E.A}, {"k": 1.0}, _s(enum=True, numty=True)), (E.A, 1.0, _s(enum=True, numty=True)), ({"k": 1.0}, {"k": E.A}, _s(enum=True, numty=True)),
    ({"k": E2.Z, "j": 3}, {"k": Decimal("2"), "j": 3}, _s(enum=True, numty=True)), ((E.A, "x"), (1.0, "x"), _s(enum=True, numty=True)),
    ({"k": E.C}, {"k": Decimal("2.5")}, _s(enum=True, numty=True)), ({"k": {"q": E.A}}, {"k": {"q": 1.0}}, _s(enum=True, numty=True, sig=1)),
    ({"k": E.B}, {"k": b"x"}, _s(enum=True, strty=True)), (E.B, b"x", _s(enum=True, strty=True)), ({"k": [E.B, 5]}, {"k": [5, b"x"]}, _s(enum=True, strty=True)),
    ({"k": E.D}, {"k": b"x"}, _s(enum=True, strty=True, case=True)), (b"X", E3.S, _s(enum=True, strty=True, case=True)),
    ({"k": E.A}, {"k": 2.0}, _s(enum=True, numty=True)), ({"k": E.B}, {"k": b"y"}, _s(enum=True, strty=True)),
    ({"k": E.A}, {"k": 1.0}, _s(enum=True)), ({"k": E.A}, {"k": 1.0}, _s(numty=True)), ({"k": E.B}, {"k": b"x"}, _s(enum=True)),
    # two different members of the SAME class: compared by _diff_enum (names), hashed by value
    (E.B, E.D, _s(enum=True, case=True)), ({"k": E.B}, {"k": E.D}, _s(enum=True, case=True)), ([E.B, 1], [1, E.D], _s(enum=True, case=True)),
    (E.B, E.D, _s(enum=True)), (E.B, E.D, _s(case=True)), (E2.A, E2.Z, _s(enum=True)), ({"k": E2.C}, {"k": E2.Z}, _s(enum=True, sig=0, numty=True)),
    ({"k": E.B}, {"k": E.B}, _s(enum=True, case=True)), (E2.C, E2.Z, _s(enum=True, sig=0)),
    # a member whose value is None facing None / another None-valued member
    (E4.N, None, _s(enum=True)), ({"k": E4.N}, {"k": None}, _s(enum=True)), ({"k": None}, {"k": E4.N}, _s(enum=True, case=True)), ([E4.N, 1], [1, None], _s(enum=True)),
    ({"k": E4.N}, {"k": E4.N}, _s(enum=True)), (E4.N, None, _s()), ({"k": E4.N}, {"k": "x"}, _s(enum=True)), ({"k": E4.M}, {"k": E.B}, _s(enum=True)),
]


def with_sharing(rng, t1, t2, sp, p=0.13):
    """in a fixed fraction of the cases ONE container of t1 (or t2) is put at a second position of the same value
    (values.share) and the case is run with the sharing rebuilt (reshare); the literals stay the unfolded trees"""
    if rng.random() >= p:
        return t1, t2, sp
    try:
        if rng.random() < 0.5:
            w, did = V.share(rng, t1)
            if did:
                t1 = w
        else:
            w, did = V.share(rng, t2)
            if did:
                t2 = w
    except Exception:  # noqa
        did = False
    mode = rng.choice([1, 1, 2])
    a, b = reshare(t1, t2, mode)
    if not did and not (n_shared(a) or n_shared(b) or mode == 2):
        return t1, t2, sp
    return t1, t2, dict(sp, share=mode)


# --------------------------------------------------------------------------
# the model over the extended universe (HashDiffYModel.v): list-free values, ALL shared options
# --------------------------------------------------------------------------
YHEADER = ("From DD Require Import Base.PyStr Options.OptModel Options.OptDtModel Options.YValue Options.YModel "
           "HashDiff.HashDiffYModel HashDiff.HashDiffYShow.\nLocal Open Scope Z_scope.")


def y_atom_to_coq(a):
    if isinstance(a, Enum):
        return "(AEnum %s %s %d%%nat %s)" % (core.coq_pystr(type(a).__name__), core.coq_pystr(a.name), list(type(a)).index(a),
                                             C11.x_evalue_to_coq(a.value))
    return C11.x_atom_to_coq(a)


def y_to_coq(v):
    if isinstance(v, list):
        return "(VList [%s])" % "; ".join(y_to_coq(x) for x in v)
    if isinstance(v, tuple):
        return "(VTuple [%s])" % "; ".join(y_to_coq(x) for x in v)
    if isinstance(v, dict):
        return "(VDict [%s])" % "; ".join("(%s, %s)" % (y_atom_to_coq(k), y_to_coq(x)) for k, x in v.items())
    if isinstance(v, frozenset):
        return "(VFrozen [%s])" % "; ".join(y_atom_to_coq(x) for x in v)
    if isinstance(v, set):
        return "(VSet [%s])" % "; ".join(y_atom_to_coq(x) for x in v)
    return "(VAtom %s)" % y_atom_to_coq(v)


def y_opts(sp):
    return C11.xcoq_opts(dict(c11_spec(sp), note=bool(sp["note"])))


def y_ok_atom(a):
    if isinstance(a, float) and a != a:
        return False                                    # nan objects: ignore_nan_inequality is not a shared option
    if isinstance(a, (str, bytes)) and tag_like(a):
        return False                                    # K1 lives in the base universe (the leaf texts here are stand-ins across kinds)
    if isinstance(a, bytes):
        return all(ch < 128 for ch in a)
    if isinstance(a, Enum):
        v = a.value
        return C11.x_ok_evalue(v) and not (isinstance(v, (str, bytes)) and (tag_like(v) or not (v.isascii() if isinstance(v, str) else all(ch < 128 for ch in v))))
    if np_generic(a):
        return False
    return C11.x_ok_atom(a)


def np_generic(a):
    np = getattr(C11, "np", None)
    return np is not None and isinstance(a, np.generic)


def in_yuniverse(v, lists_ok=False):
    if isinstance(v, (list, tuple)):
        return lists_ok and type(v) in (list, tuple) and all(in_yuniverse(x, lists_ok) for x in v)
    if isinstance(v, dict):
        return type(v) is dict and all(y_ok_atom(k) and in_yuniverse(x, lists_ok) for k, x in v.items())
    if isinstance(v, (set, frozenset)):
        return all(y_ok_atom(x) for x in v)
    return y_ok_atom(v)


def enum_meets_container(t1, t2):
    """a str / bytes valued member facing a container (the code iterates the characters: outside the Y model)"""
    c1, c2 = isinstance(t1, (dict, set, frozenset, list, tuple)), isinstance(t2, (dict, set, frozenset, list, tuple))
    if c1 != c2:
        m = t2 if c1 else t1
        return isinstance(m, Enum)
    if isinstance(t1, dict) and isinstance(t2, dict):
        return any(enum_meets_container(x, y) for x in t1.values() for y in t2.values())
    return False


_D = datetime.datetime
Y_ATOMS = [None, True, False, 0, 1, 2, -1, 7, 10, 0.5, 1.5, 2.5, 2.675, 0.1, 0.3, 1.0, 2.0, 1000.0, 1001.4, 1e-3,
           "a", "A", "ab", "Ab", "x", "X", "", "k1", b"a", b"A", b"ab", b"x",
           Decimal("1"), Decimal("1.0"), Decimal("1.00"), Decimal("2.5"), Decimal("2.50"), Decimal("1.001"), Decimal("1.002"), Decimal("1E+1"),
           datetime.date(2024, 1, 1), datetime.date(2024, 1, 2), datetime.time(10, 20, 30), datetime.time(10, 20, 31), datetime.time(10, 21, 0, 500000),
           datetime.timedelta(seconds=5), datetime.timedelta(days=1, microseconds=7)]


def y_dt(rng):
    base = rng.choice([(2024, 1, 1, 22, 40, 30, 0), (2024, 1, 1, 22, 40, 30, 5), (2024, 1, 1, 22, 40, 31, 0), (2024, 1, 1, 22, 59, 59, 999999),
                       (2024, 1, 1, 23, 0, 0, 0), (2024, 6, 30, 23, 59, 59, 999999), (2024, 7, 1, 0, 0, 0, 0), (2024, 1, 2, 0, 40, 30, 0)])
    return C11._dt(*base, rng.choice([None, None, 0, 0, 120, -300, 330, 345]))


def y_atom(rng, sp):
    r = rng.random()
    if r < 0.22 or (r < 0.45 and (sp["trunc"] or sp["tz"] is not None)):
        return y_dt(rng)
    if r < 0.40 or (r < 0.6 and sp["enum"]):
        return rng.choice([m for cl in all_enum_classes() for m in cl])
    return rng.choice(Y_ATOMS)


def y_key(rng, sp):
    for _ in range(20):
        k = y_atom(rng, sp) if rng.random() < 0.5 else rng.choice(["a", "A", "b", "k", "K", "ab", 1, 2, 1.5, b"a", "__p"])
        if k is not None or rng.random() < 0.3:
            return k
    return "k"


def y_value(rng, sp, depth):
    r = rng.random()
    if depth <= 0 or r < 0.3:
        return y_atom(rng, sp)
    if r < 0.8:
        out = {}
        for _ in range(rng.randint(0, 3)):
            k = y_key(rng, sp)
            try:
                if not any(k == q for q in out):
                    out[k] = y_value(rng, sp, depth - 1)
            except TypeError:
                pass
        return out
    items = []
    for _ in range(rng.randint(0, 3)):
        a = y_atom(rng, sp)
        if not any(a == q for q in items):
            items.append(a)
    return set(items) if r < 0.92 else frozenset(items)


def gen_y_pair(rng, sp):
    """list-free pair: t2 = t1 altered only in the aspects the option set ignores (c11's generated normaliser, which knows
    truncation, zones, Enum members, Decimal exponents, numeric / text types, case), dicts re-ordered, sometimes one genuine edit"""
    t1 = y_value(rng, sp, rng.choice([0, 1, 1, 2, 2, 3]))
    r = rng.random()
    if r < 0.65:
        try:
            t2 = C11.normalise(rng, t1, dict(c11_spec(sp), note=bool(sp["note"])), rich=True, p=0.6, log=[])
        except Exception:  # noqa
            t2 = copy.deepcopy(t1)
    elif r < 0.85:
        t2 = copy.deepcopy(t1)
    else:
        t2 = y_value(rng, sp, rng.choice([0, 1, 2]))
    if rng.random() < 0.5:
        t2 = C05.rebuild(t2, rng)
    if rng.random() < 0.3:
        t2, _k = edit_once(rng, t2)
    if rng.random() < 0.5:
        t1, t2 = t2, t1
    return t1, t2


def y_listfree(v):
    if isinstance(v, (list, tuple)):
        return False
    if isinstance(v, dict):
        return all(y_listfree(x) for x in v.values())
    return True


def y_specs(rng):
    out = modelled_specs(rng) + unmodelled_specs(rng) + unmodelled_specs(rng)
    out += [mk(enum=True, case=True), mk(enum=True, numty=True), mk(enum=True, strty=True), mk(enum=True, sig=0), mk(enum=True, trunc="hour"),
            mk(trunc="hour", tz=330), mk(trunc="day", tz=-300, enum=True), mk(trunc="minute", numty=True), mk(sig=2, note=True, numty=True),
            mk(enum=True, case=True, strty=True, numty=True, sig=1, trunc="minute", tz=120)]
    return out


def facing_leaves(t1, t2, acc):
    """the pairs of leaves _diff compares directly: the root, and dict values under ==-equal keys, at any depth"""
    if isinstance(t1, dict) and isinstance(t2, dict):
        for k, x in t1.items():
            try:
                if k in t2 and any(q is k or (type(q) is type(k) and q == k) for q in t2):
                    facing_leaves(x, t2[k], acc)
            except TypeError:
                pass
    elif not isinstance(t1, (dict, list, tuple, set, frozenset)) and not isinstance(t2, (dict, list, tuple, set, frozenset)):
        acc.append((t1, t2))
    return acc


def facing_sets(t1, t2, acc):
    """pairs of sets / frozensets of one kind that _diff compares directly (root, dict values under ==-equal keys)"""
    if isinstance(t1, dict) and isinstance(t2, dict):
        for k, x in t1.items():
            try:
                if k in t2 and any(q is k or (type(q) is type(k) and q == k) for q in t2):
                    facing_sets(x, t2[k], acc)
            except TypeError:
                pass
    elif isinstance(t1, (set, frozenset)) and type(t1) is type(t2):
        acc.append((t1, t2))
    return acc


def y_sets_replay(ctx, pairs):
    """Y.C12_set_hash_iff_diff_partial replayed on the implementation, hypotheses observed: for every facing pair of sets of a
    generated pair with trunc_free (truncate_datetime off, or no datetime / time member), exclude_types empty (never passed),
    report_repetition off, inside the model's universe and free of ==-aliases (the shared table is outside the Y model): both
    engines on that pair of sets must agree; where trunc_free is FALSE the case is counted (that is the finding's territory)."""
    n = n_out = n_rep = 0
    seen = set()
    for _fam, t1, t2, sp, _rep in pairs:
        kw = kwargs_of(sp)
        for a, b in facing_sets(t1, t2, []):
            key = (lit(a), lit(b), name_of(sp))
            if key in seen or not (in_yuniverse(a) and in_yuniverse(b)) or harmful_alias(a, b, kw):
                continue
            seen.add(key)
            if sp["trunc"] and any(isinstance(x, (datetime.datetime, datetime.time)) for x in list(a) + list(b)):
                n_out += 1
                ctx.count("theorem_y_sets:hypothesis_false(trunc_free)")
                continue
            he, dv = hash_verdict(a, b, kw, False), diff_verdict(a, b, kw, False)[0]
            if not isinstance(he, bool) or dv.startswith("EXC:"):
                ctx.count("theorem_y_sets:an_engine_raises(outside the statement)")
                continue
            n += 1
            ctx.count("theorem_y_sets:%s" % ("hash_eq" if he else "hash_ne"))
            if agree(he, dv) is not True:
                ctx.break_("correspondence", {"name": "Y.C12_set_hash_iff_diff_partial", "a": lit(a), "b": lit(b), "options": name_of(sp),
                                              "what": "two sets inside trunc_free: hash_eq=%r diff=%s" % (he, dv)})
            # Y.C12_set_hash_iff_diff_rep_partial: report_repetition on; additional hypothesis nodup_txt (no two members of one set merged)
            if merged_members(a, kw) or merged_members(b, kw):
                ctx.count("theorem_y_sets_rep:hypothesis_false(nodup_txt)")
                continue
            he, dv = hash_verdict(a, b, kw, True), diff_verdict(a, b, kw, True)[0]
            if isinstance(he, bool) and not dv.startswith("EXC:"):
                n_rep += 1
                ctx.count("theorem_y_sets_rep:%s" % ("hash_eq" if he else "hash_ne"))
                if agree(he, dv) is not True:
                    ctx.break_("correspondence", {"name": "Y.C12_set_hash_iff_diff_rep_partial", "a": lit(a), "b": lit(b), "options": name_of(sp),
                                                  "what": "two sets inside trunc_free and nodup_txt, report_repetition: hash_eq=%r diff=%s" % (he, dv)})
    ctx.note("extended_universe_sets_theorem_replayed_on_implementation",
             "Y.C12_set_hash_iff_diff_partial: %d distinct facing pairs of sets satisfy its hypotheses (trunc_free, report_repetition off) - the two real "
             "engines agree on every one; %d pairs are outside trunc_free (truncate_datetime with a datetime / time member); "
             "Y.C12_set_hash_iff_diff_rep_partial (report_repetition on, nodup_txt observed): %d pairs, the engines agree on every one" % (n, n_out, n_rep))


def y_theorem_replay(ctx, pairs):
    """Y.C12_datetime_hash_iff_diff and Y.C12_enum_transfer_partial replayed on the implementation with their
    hypotheses OBSERVED: for every facing pair of leaves of a generated pair that satisfies the hypotheses
    (two datetimes; exclude_types empty - a member facing a plain value / a member of another class, neither
    None-valued, use_enum_value on) both engines are run on that pair of leaves alone."""
    n_dt = n_en = n_en_same = 0
    seen = set()
    for _fam, t1, t2, sp, rep in pairs:
        kw = kwargs_of(sp)
        for a, b in facing_leaves(t1, t2, []):
            key = (lit(a), lit(b), name_of(sp))
            if key in seen:
                continue
            seen.add(key)
            if type(a) is datetime.datetime and type(b) is datetime.datetime:
                # hypotheses of the datetime theorem: o_excl F = [] (exclude_types is never passed), H injective (SHA-256, trusted)
                n_dt += 1
                he, dv = hash_verdict(a, b, kw, rep), diff_verdict(a, b, kw, rep)[0]
                ctx.count("theorem_y_datetime:%s" % ("hash_eq" if he is True else "hash_ne"))
                if agree(he, dv) is not True:
                    ctx.break_("correspondence", {"name": "Y.C12_datetime_hash_iff_diff", "a": lit(a), "b": lit(b), "options": name_of(sp),
                                                  "what": "two datetimes at a directly compared position: hash_eq=%r diff=%s" % (he, dv)})
            elif type(a) is datetime.timedelta and type(b) is datetime.timedelta:
                # Y.C12_timedelta_hash_iff_diff: equal hashes <-> nothing reported; DeepHash raises exactly when a precision is in force
                prec = sp["sig"] is not None or sp["numty"]
                he, dv = hash_verdict(a, b, kw, rep), diff_verdict(a, b, kw, rep)[0]
                ctx.count("theorem_y_timedelta:%s" % ("precision_in_force(DeepHash raises)" if prec else "no_precision"))
                raised = not isinstance(he, bool)
                if raised != prec or (not prec and agree(he, dv) is not True) or dv.startswith("EXC:"):
                    ctx.break_("correspondence", {"name": "Y.C12_timedelta_hash_iff_diff", "a": lit(a), "b": lit(b), "options": name_of(sp),
                                                  "what": "two timedeltas: hash_eq=%r diff=%s, precision in force: %r" % (he, dv, prec)})
            elif sp["enum"] and isinstance(a, Enum) and not (isinstance(b, Enum) and type(b) is type(a)):
                ub = b.value if isinstance(b, Enum) else b
                if a.value is None and ub is None:
                    # Y.C12_enum_none_value_agrees (the edge case as fixed in /repo c9e614d): equal hashes, nothing reported
                    he, dv = hash_verdict(a, b, kw, rep), diff_verdict(a, b, kw, rep)[0]
                    ctx.count("theorem_y_enum_none_value_agrees:pairs")
                    if not (he is True and dv == "empty"):
                        ctx.break_("correspondence", {"name": "Y.C12_enum_none_value_agrees", "a": lit(a), "b": lit(b), "options": name_of(sp),
                                                      "what": "a None-valued member facing None: hash_eq=%r diff=%s (the defect fixed in c9e614d is back?)" % (he, dv)})
                    continue
                if a.value is None or ub is None:
                    ctx.count("theorem_y_enum_transfer:hypothesis_false(exactly one side None-valued)")
                    continue
                n_en += 1
                ctx.count("theorem_y_enum_transfer:hypotheses_hold")
                if type(a.value) is type(ub):
                    # Y.C12_enum_same_type: same-typed values - _diff treats the member exactly as its value, so the property for the
                    # pair IS the property for the two plain values (a theorem since wave 2; hypotheses observed here)
                    n_en_same += 1
                    lhs = agree(hash_verdict(a, b, kw, rep), diff_verdict(a, b, kw, rep)[0])
                    rhs = agree(hash_verdict(a.value, ub, kw, rep), diff_verdict(a.value, ub, kw, rep)[0])
                    if (lhs is True) != (rhs is True):
                        ctx.break_("correspondence", {"name": "Y.C12_enum_transfer_partial", "a": lit(a), "b": lit(b), "options": name_of(sp),
                                                      "what": "member vs value: property %r, for the unwrapped values %r" % (lhs, rhs)})
    ctx.note("extended_universe_theorems_replayed_on_implementation",
             "Y.C12_datetime_hash_iff_diff: %d distinct facing pairs of datetimes (root / dict values at any depth) under their option sets - the two "
             "real engines agree on every one; Y.C12_enum_transfer_partial: hypotheses observed true on %d facing (member, value / other-class member) "
             "pairs, on the %d with same-typed values the property for the pair == the property for the unwrapped values" % (n_dt, n_en, n_en_same))


def none_member_faces_none(t1, t2):
    """a None-valued Enum member facing None / a None-valued member at a directly compared position (the branch of _diff
    changed by the /repo fix c9e614d)"""
    def nonelike(x):
        return x is None or (isinstance(x, Enum) and x.value is None)
    if isinstance(t1, dict) and isinstance(t2, dict):
        return any(none_member_faces_none(x, y) for x in t1.values() for y in t2.values())      # key cleaning may cross keys
    return nonelike(t1) and nonelike(t2) and (isinstance(t1, Enum) or isinstance(t2, Enum)) and t1 is not t2


def ymodel_follows_c9e614d(ctx):
    """Is the diff-side model of the Options block (YModel.leaf_core, not a file of this block) already the FIXED behaviour of
    /repo c9e614d?  Probed in Coq at every run, so that the cases of that branch enter the correspondence by themselves as soon
    as the imported model follows the fix (until then they are checked by the direct oracle and the witness replay only)."""
    txt = ctx.coq_eval("c12y_probe_c9e614d", YHEADER, "run_c12y_flags [probe_none_member_fixed]")
    ok = (txt or "").strip() == "T"
    ctx.note("options_model_follows_fix_c9e614d", ok)
    return ok


def ymodel_follows_1c8f0f8(ctx):
    """as ymodel_follows_c9e614d, for /repo 1c8f0f8: date / timedelta (and every non-datetime) value under truncate_datetime is
    compared as without the option instead of raising"""
    txt = ctx.coq_eval("c12y_probe_1c8f0f8", YHEADER, "run_c12y_flags [probe_trunc_date_fixed]")
    ok = (txt or "").strip() == "T"
    ctx.note("options_model_follows_fix_1c8f0f8", ok)
    return ok


def trunc_touches_non_datetime(t1, t2, sp):
    """the cases whose diff-side model is the branch changed by 1c8f0f8: truncate_datetime with a date / timedelta value, or with the
    numeric type group in force (a number may face a datetime / time)"""
    return bool(sp["trunc"]) and (sp["numty"] or any(_is_date_or_td(a) for a in all_atoms2(t1, t2)))


def y_pools(ctx, specs):
    """the stand-alone hash model over the extended universe INCLUDING lists / tuples (which the diff side of the Y model does not
    have): SHA-256 equality pattern of DeepHash(v, **F)[v] over a pool of values and their option-normalised variants, against
    HashDiffYShow.run_c12y_classes (yhash with an injective hasher)"""
    from deepdiff import DeepHash
    rng = ctx.rng
    cases = []
    for sp in specs:
        kw = kwargs_of(sp)
        nsp = dict(c11_spec(sp), note=bool(sp["note"]))
        pool, tries = [], 0
        while len(pool) < (40 if ctx.thorough else 18) and tries < 300:
            tries += 1
            items = [y_value(rng, sp, rng.choice([0, 0, 1, 2])) for _ in range(rng.randint(0, 3))]
            v = rng.choice([list, tuple])(items) if rng.random() < 0.8 else {"k": items, "t": tuple(items[:2])}
            try:
                cands = [v, C11.normalise(rng, v, nsp, rich=True, p=0.6, log=[]), C05.rebuild(v, rng)]
                cands.append(edit_once(rng, cands[1])[0])          # a genuine edit next to the ignored differences
                cands.append(vmap(v, lambda a: y_atom(rng, sp) if rng.random() < 0.25 else a, lambda k: k))   # near-miss: a leaf replaced
            except Exception:  # noqa
                cands = [v]
            for w in cands:
                if not in_yuniverse(w, lists_ok=True) or harmful_alias(w, None, kw):
                    continue
                try:
                    x = copy.deepcopy(w)
                    DeepHash(x, **kw)[x]
                except Exception:  # noqa (a leaf DeepHash raises on: outside this observable)
                    continue
                pool.append(w)
        for rep in (False, True):
            hs = []
            for v in pool:
                x = copy.deepcopy(v)
                hs.append(DeepHash(x, ignore_repetition=not rep, **kw)[x])
            first = [hs.index(h) for h in hs]
            cases.append(("run_c12y_classes %s %s [%s]" % (y_opts(sp), core.coq_bool(rep), "; ".join(y_to_coq(v) for v in pool)),
                          first, {"options": name_of(sp), "rep": rep, "pool": [lit(v) for v in pool][:4]}))
            ctx.count("ypool:values", len(pool))
            ctx.count("ypool:classes", len(set(first)))
    ctx.coq_cases("c12y_pool", YHEADER, cases, shard=2, label="sha256_equality_pattern_over_pools_of_lists_and_tuples_of_extended_atoms(all options)")


def _ytask(args):
    t1l, t2l, sp, rep = args
    t1, t2 = unlit(t1l), unlit(t2l)
    kw = kwargs_of(sp)
    he = hash_verdict(t1, t2, kw, rep)
    dv, _ = diff_verdict(t1, t2, kw, rep)
    return t1l, t2l, sp, rep, he, dv, harmful_alias(t1, t2, kw)


def y_stream(ctx, pool, pairs, label="ymodel"):
    """both real engines against HashDiffYShow.run_c12y on list-free pairs of the extended universe; the direct oracle runs too"""
    args = [(lit(t1), lit(t2), sp, rep) for _f, t1, t2, sp, rep in pairs]
    res = pool.map(_ytask, args, chunksize=8)
    cases, hyp = [], []
    follows = ymodel_follows_c9e614d(ctx)
    follows2 = ymodel_follows_1c8f0f8(ctx)
    for (fam, a, b, _sp, _r), (t1l, t2l, sp, rep, he, dv, alias) in zip(pairs, res):
        nm = name_of(sp)
        ok = agree(he, dv)
        case = {"t1": t1l, "t2": t2l, "spec": sp, "options": nm, "rep": rep, "hash_eq": he, "diff": dv, "family": fam}
        ctx.seen((t1l, t2l, nm, rep, "y"), nontrivial=(t1l != t2l))
        ctx.count("%s:family:%s" % (label, fam))
        ctx.count("%s:options:%s" % (label, nm))
        ctx.count("%s:verdicts:hash_%s/diff_%s" % (label, {True: "eq", False: "ne"}.get(he, "exc"), dv.replace("EXC:", "exc_")))
        if ok is None:
            ctx.count("%s:both_engines_raise" % label)
        elif ok is False:
            r = ctx.fail(case, describe(he, dv) + " [options: %s, report_repetition=%s]" % (nm, rep))
            ctx.count("%s:oracle_fail_%s" % (label, r))
            att = attribution(case)
            ctx.count("attributed:%s:hash_%s/diff_%s" % (att[0] if (att and r == "known") else r, pattern(case)[0], pattern(case)[1]))
        if alias:
            ctx.count("%s:outside(memo alias)" % label)
            continue
        if sp["enum"] and not follows and none_member_faces_none(a, b):
            ctx.count("%s:outside(None-valued member facing None: Options/YModel.v does not follow the fix c9e614d yet)" % label)
            continue
        if not follows2 and trunc_touches_non_datetime(a, b, sp):
            ctx.count("%s:outside(truncate_datetime on a non-datetime value: Options/YModel.v does not follow the fix 1c8f0f8 yet)" % label)
            continue
        if dv.startswith("EXC:") and dv not in ("EXC:TypeError", "EXC:ValueError", "EXC:AttributeError"):
            ctx.count("%s:outside(exception %s)" % (label, dv[4:]))
            continue
        F = y_opts(sp)
        expr = "run_c12y %s %s %s %s %s" % (CFG, F, core.coq_bool(rep), y_to_coq(a), y_to_coq(b))
        cases.append((expr, [he if isinstance(he, bool) else "raised", dv], case))
    ctx.coq_cases("c12y_pairs", YHEADER, cases, shard=150, label="both_engines_on_listfree_pairs_extended_universe_all_options")
    y_theorem_replay(ctx, pairs)
    y_sets_replay(ctx, pairs)
    return hyp


# --------------------------------------------------------------------------
# text beyond ASCII and the two float zeros (HashDiffTextModel.v): atoms only
# --------------------------------------------------------------------------
THEADER = "From DD Require Import Base.PyStr HashDiff.HashDiffTextModel HashDiff.HashDiffTextShow.\nLocal Open Scope N_scope."
T_ATOMS = ["a", "A", "", "\u00e9", "\u00c9", "caf\u00e9", "CAF\u00c9", "\u00df", "\u00b5", "\u00d7", "\u00f7", "\u00ff", "a\u00e9",
           b"a", b"A", b"", "\u00e9".encode(), "\u00c9".encode(), "caf\u00e9".encode(), "CAF\u00c9".encode(), "\u00b5".encode(), b"a\xc3\xa9",
           b"\xff", b"\xfe", b"\xc3", b"\xa9", b"\xc0\x80", b"\xc3A", b"A\xff", b"\xe9", b"\xc9", 0.0, -0.0]


def t_in_universe(a):
    if isinstance(a, str):
        return all(ord(ch) < 256 for ch in a) and not tag_like(a)
    if isinstance(a, bytes):
        return not any(0xC4 <= ch <= 0xF4 for ch in a) and not (a.isascii() and tag_like(a))
    return isinstance(a, float) and a == 0.0


def t_atom_to_coq(a):
    if isinstance(a, str):
        return "(TS [%s])" % "; ".join("%d" % ord(ch) for ch in a)
    if isinstance(a, bytes):
        return "(TB [%s])" % "; ".join("%d" % ch for ch in a)
    return "(TZ %s)" % core.coq_bool(neg_zero(a))


def t_opts(sp):
    return "(mkT %s %s %s %s)" % (core.coq_bool(sp["case"]), core.coq_bool(sp["strty"]), core.coq_bool(sp["numty"]),
                                  "None" if sp["sig"] is None else "(Some %d)" % sp["sig"])


def text_level(ctx, specs):
    """both engines on pairs of text / zero atoms against run_c12t, and the hasher input against run_c12t_text;
    the direct oracle runs on the pairs too (findings negative-zero, nonascii-bytes, undecodable-bytes live here)"""
    from deepdiff import DeepHash
    rng = ctx.rng
    ident = lambda x: x  # noqa
    atoms = [a for a in T_ATOMS if t_in_universe(a)]
    allpairs = [(a, b) for a in atoms for b in atoms]
    texts, pairs = [], []
    for sp in specs:
        kw, F, nm = kwargs_of(sp), t_opts(sp), name_of(sp)
        for a in atoms:
            try:
                exp = DeepHash(a, hasher=ident, **kw)[a]
            except UnicodeDecodeError:
                exp = "raised"
            texts.append(("run_c12t_text %s %s" % (F, t_atom_to_coq(a)), exp, {"atom": lit(a), "options": nm}))
        for a, b in rng.sample(allpairs, 280 if ctx.thorough else 70):
            he, dv = hash_verdict(a, b, kw, False), diff_verdict(a, b, kw, False)[0]
            case = {"t1": lit(a), "t2": lit(b), "spec": sp, "options": nm, "rep": False, "hash_eq": he, "diff": dv, "family": "text_atoms"}
            ctx.seen((lit(a), lit(b), nm, "t"), nontrivial=(lit(a) != lit(b)))
            ok = agree(he, dv)
            ctx.count("text_atoms:verdicts:hash_%s/diff_%s" % ({True: "eq", False: "ne"}.get(he, "exc"), dv))
            if ok is False:
                r = ctx.fail(case, describe(he, dv) + " [options: %s]" % nm)
                att = attribution(case)
                ctx.count("attributed:%s:hash_%s/diff_%s" % (att[0] if (att and r == "known") else r, pattern(case)[0], pattern(case)[1]))
            pairs.append(("run_c12t %s %s %s" % (F, t_atom_to_coq(a), t_atom_to_coq(b)), [he if isinstance(he, bool) else "raised", dv], case))
    ctx.coq_cases("c12t_text", THEADER, texts, shard=300, label="hasher_input_text_of_nonascii_text_and_zeros")
    ctx.coq_cases("c12t_pairs", THEADER, pairs, shard=300, label="both_engines_on_nonascii_text_and_zero_atoms")


# --------------------------------------------------------------------------
# workers
# --------------------------------------------------------------------------

def _task(args):
    t1l, t2l, sp, rep, want_model = args
    t1, t2 = reshare(unlit(t1l), unlit(t2l), sp.get("share", 0))
    kw = kwargs_of(sp)
    he = hash_verdict(t1, t2, kw, rep)
    in_model = False
    expr = None
    gexpr = None
    pairing = None
    alias = harmful_alias(t1, t2, kw) if (want_model and is_modelled(sp)) else False
    memo_ok = alias and name_of(sp) == "default" and not any(isinstance(a, bool) for a in atoms_of(t1) + atoms_of(t2) + keys_of(t1) + keys_of(t2))
    if want_model and is_modelled(sp) and in_universe(t1, t2) and isinstance(he, bool) and memo_ok:
        # ==-aliasing atoms at default options: the models WITH the `hashes` tables threaded (K2 inside the correspondence)
        knobs = sp.get("knobs", {})
        dv, rec = diff_verdict(t1, t2, kw, rep, record=True, **knobs)
        if dv in ("empty", "nonempty") and not rec[2]:
            in_model = True
            tbl, ok, _h = rec
            pairing = (sum(len(ji) for _p, ji, _x, _y in tbl), ok)
            cfg = CFG0 if knobs.get("threshold_to_diff_deeper") == 0 else CFG
            expr = "run_c12_memo %s %s %s %s %s" % (cfg, core.coq_bool(rep), C05.coq_pairs_table(tbl), V.to_coq(t1), V.to_coq(t2))
    elif want_model and is_modelled(sp) and in_universe(t1, t2) and isinstance(he, bool) and alias and not harmful_alias(t1, t2, kw, acting=True) \
            and not any(isinstance(a, bool) for a in atoms_of(t1) + atoms_of(t2) + keys_of(t1) + keys_of(t2)):
        # WITH options: the ==-aliases sit where the diff engine does not consult the shared table; the hash side runs on
        # HashModel.deephash (own table per value) under the options, the diff side on the memo-free model
        knobs = sp.get("knobs", {})
        dv, rec = diff_verdict(t1, t2, kw, rep, record=True, **knobs)
        if dv in ("empty", "nonempty") and not rec[2]:
            in_model = True
            tbl, ok, _h = rec
            pairing = (sum(len(ji) for _p, ji, _x, _y in tbl), ok)
            cfg = CFG0 if knobs.get("threshold_to_diff_deeper") == 0 else CFG
            expr = "run_c12_hmemo %s %s %s %s %s %s" % (cfg, coq_opts(sp), core.coq_bool(rep), C05.coq_pairs_table(tbl), V.to_coq(t1), V.to_coq(t2))
            gexpr = "HMEMO"
    elif want_model and is_modelled(sp) and in_universe(t1, t2) and isinstance(he, bool) and not alias:
        knobs = sp.get("knobs", {})
        dv, rec = diff_verdict(t1, t2, kw, rep, record=True, **knobs)
        if dv in ("empty", "nonempty", "EXC:ValueError") and not rec[2]:
            in_model = True
            tbl, ok, _h = rec
            pairing = (sum(len(ji) for _p, ji, _x, _y in tbl), ok)
            cfg = CFG0 if knobs.get("threshold_to_diff_deeper") == 0 else CFG
            gexpr = "gparts %s %s %s %s %s" % (cfg, coq_opts(sp), core.coq_bool(rep), V.to_coq(t1), V.to_coq(t2))
            expr = "run_c12 %s %s %s %s %s %s" % (cfg, coq_opts(sp), core.coq_bool(rep), C05.coq_pairs_table(tbl), V.to_coq(t1), V.to_coq(t2))
    else:
        dv, _ = diff_verdict(t1, t2, kw, rep, **sp.get("knobs", {}))
    return t1l, t2l, sp, rep, he, dv, in_model, (expr, gexpr), pairing


def describe(he, dv):
    return "DeepHash(a)[a] %s DeepHash(b)[b] but DeepDiff(a, b, ignore_order=True) %s" % (
        {True: "==", False: "!="}.get(he, "raises %s;" % str(he)[4:]),
        {"empty": "is empty", "nonempty": "is not empty"}.get(dv, "raises " + dv[4:]))


def evaluate(ctx, pool, jobs, label):
    """jobs: [(family, t1, t2, spec, rep, want_model)] -> runs both engines, the
    direct oracle, and collects the model cases"""
    args = [(lit(t1), lit(t2), sp, rep, wm) for _f, t1, t2, sp, rep, wm in jobs]
    res = pool.map(_task, args, chunksize=8)
    cases = []
    for (fam, _a, _b, _sp, _r, _wm), (t1l, t2l, sp, rep, he, dv, in_model, (expr, gexpr), pairing) in zip(jobs, res):
        nm = name_of(sp)
        ok = agree(he, dv)
        case = {"t1": t1l, "t2": t2l, "spec": sp, "options": nm, "rep": rep, "hash_eq": he, "diff": dv, "family": fam}
        if sp.get("knobs"):
            ctx.count("%s:knobs:%s" % (label, ",".join(sorted(sp["knobs"]))))
        if sp.get("share"):
            ctx.count("%s:shared_containers:mode%d(%s)" % (label, sp["share"], "inside each value" if sp["share"] == 1 else "also across t1/t2"))
        ctx.seen((t1l, t2l, nm, rep, sp.get("share", 0)), nontrivial=(t1l != t2l))
        ctx.count("%s:family:%s" % (label, fam))
        ctx.count("%s:options:%s" % (label, nm))
        ctx.count("%s:rep" % label if rep else "%s:norep" % label)
        ctx.count("%s:verdicts:hash_%s/diff_%s" % (label, {True: "eq", False: "ne"}.get(he, "exc"), dv.replace("EXC:", "exc_")))
        if sp.get("groups"):
            # ignore_type_in_groups is OUTSIDE the property's wording (the property names the two flag options): recorded as an
            # observation - DeepHash uses the groups for custom objects only, DeepDiff for numbers and strings too (NOTES) - never a failure
            ctx.count("observation(outside the property):ignore_type_in_groups:%s" % ("engines_agree" if ok is not False else
                                                                                       "engines_disagree:hash_%s/diff_%s" % pattern(case)))
        elif ok is None:
            ctx.count("%s:both_engines_raise" % label)
        elif ok is False:
            r = ctx.fail(case, describe(he, dv) + " [options: %s, report_repetition=%s]" % (nm, rep))
            ctx.count("%s:oracle_fail_%s" % (label, r))
            att = attribution(case)
            ctx.count("attributed:%s:hash_%s/diff_%s" % (att[0] if (att and r == "known") else r, pattern(case)[0], pattern(case)[1]))
            if r == "known" and len(att) > 1:
                ctx.count("attributed:co-occurring:%s" % "+".join(att))
        if in_model:
            exp_dv = "raised" if dv.startswith("EXC:") else dv
            cases.append((expr, [he, exp_dv], dict(case, guard_expr=gexpr, agree=ok)))
            if gexpr is None:
                ctx.count("model:memo_threaded_models(==-aliases, default options)")
            elif gexpr == "HMEMO":
                ctx.count("model:hash_side_on_own_table_with_options(==-aliases where the diff engine is not affected)")
                cases[-1] = (expr, [he, exp_dv], dict(case, guard_expr=None, agree=ok))
            ctx.count("model:paired_levels" if pairing[0] else "model:no_pairs")
            if not pairing[1]:
                ctx.break_("correspondence", dict(case, what="recorded pairing is not a symmetric partial injection"))
        elif is_modelled(sp) and label == "model":
            ctx.count("model:outside(universe/alias/exception)")
    return cases


GPARTS = ["lg_tag(K1)", "lg_ascii", "lg_k9(exact)", "k9_of_rounds_1_2", "lg_cohk", "lg_keyb", "goodv_t1", "goodv_t2",
          "wf_t1", "wf_t2", "alias_free_t1", "alias_free_t2", "shared_F", "threshold_le_1"]
# the composite guards are conjunctions of the components (HashDiffProofsParts: lift_guard_parts, lift_guardb_parts; old_lift_guard by definition)
GCOMP = {"lift_guard": ("lg_tag(K1)", "lg_ascii", "lg_k9(exact)", "lg_cohk", "goodv_t1", "goodv_t2"),
         "lift_guardb": ("lg_tag(K1)", "lg_ascii", "lg_k9(exact)", "lg_keyb", "goodv_t1", "goodv_t2"),
         "lift_guard_of_rounds_1_2": ("lg_tag(K1)", "lg_ascii", "k9_of_rounds_1_2", "lg_cohk", "goodv_t1", "goodv_t2")}


def guard_replay(ctx, cases):
    """The theorems replayed on the implementation: EVERY hypothesis of C12_hash_iff_diff_partial /
    C12_hash_iff_diff_simple_guard_partial / C12_deephash_iff_diff_partial is evaluated in Coq (HashDiffShow.gparts)
    on every model case; inside the hypotheses the two real engines must agree.  The components are counted, so the
    evidence shows which hypothesis puts how many generated cases outside the theorem."""
    if not cases:
        return
    inside = inside_b = inside_old = inside_dh = 0
    from concurrent.futures import ThreadPoolExecutor
    chunks = [cases[i:i + 120] for i in range(0, len(cases), 120)]
    n = len(GPARTS)

    def one(arg):
        i, chunk = arg
        return ctx.coq_eval("c12_guards_%d" % i, HEADER, "run_c12_guards2 [%s]" % "; ".join(t["guard_expr"] for _e, _x, t in chunk))
    ctx.ensure_built(HEADER)
    with ThreadPoolExecutor(max_workers=core.NCPU) as ex:
        texts = list(ex.map(one, enumerate(chunks)))
    for chunk, txt in zip(chunks, texts):
        if txt is None:
            return
        flags = txt.strip()
        if len(flags) != n * len(chunk):
            ctx.break_("correspondence", {"name": "c12_guards", "error": "expected %d guard values, got %d" % (n * len(chunk), len(flags))})
            return
        for j, (_e, _x, t) in enumerate(chunk):
            fl = dict(zip(GPARTS, (ch == "T" for ch in flags[n * j:n * (j + 1)])))
            for comp, parts in GCOMP.items():
                fl[comp] = all(fl[k] for k in parts)
            g, gb = fl["lift_guard"], fl["lift_guardb"]
            case = {k: v for k, v in t.items() if k not in ("guard_expr", "agree")}
            if gb and not g:
                ctx.break_("correspondence", dict(case, name="lift_guardb_sound", what="the per-key guard holds but the relational guard does not"))
            if fl["lift_guard_of_rounds_1_2"] and not g:
                ctx.break_("correspondence", dict(case, name="lift_guard_weaker", what="the guard of rounds 1-2 holds but the present guard does not"))
            if not (fl["shared_F"] and fl["threshold_le_1"]):
                ctx.break_("correspondence", dict(case, name="hypotheses", what="a generated case violates shared F / threshold <= 1"))
            for k in GPARTS:
                if not fl[k]:
                    ctx.count("hypothesis_false:%s" % k)
            failing = [k for k in ("lg_tag(K1)", "lg_ascii", "lg_k9(exact)", "lg_cohk", "goodv_t1", "goodv_t2") if not fl[k]]
            if len(failing) == 1:
                ctx.count("theorem_guard:outside_only_because_of:%s" % failing[0])
            if gb:
                inside_b += 1
                ctx.count("theorem_guard:inside_per_key_guard")
            if fl["lift_guard_of_rounds_1_2"]:
                inside_old += 1
            if g:
                inside += 1
                ctx.count("theorem_guard:inside:%s" % ("hash_eq" if t["hash_eq"] is True else "hash_ne"))
                if not fl["lift_guard_of_rounds_1_2"]:
                    ctx.count("theorem_guard:inside_thanks_to_exact_k9")
                if fl["wf_t1"] and fl["wf_t2"] and fl["alias_free_t1"] and fl["alias_free_t2"]:
                    inside_dh += 1
                    ctx.count("theorem_guard:inside_deephash_form(wf,alias_free)")
                if t["agree"] is not True:
                    ctx.break_("correspondence", dict(case, name="C12_hash_iff_diff_partial", what="inside lift_guard the implementation's two engines disagree"))
            else:
                ctx.count("theorem_guard:outside")
    ctx.note("theorem_replayed_on_implementation",
             "C12_hash_iff_diff_partial: %d of %d model cases satisfy ALL its hypotheses (lift_guard, shared F, threshold <= 1; %d of them also the "
             "per-key guard lift_guardb of C12_hash_iff_diff_simple_guard_partial, %d also wf / alias_free of C12_deephash_iff_diff_partial; the "
             "guard of rounds 1-2 admitted %d); on all of them DeepHash equality == DeepDiff emptiness on the real engines"
             % (inside, len(cases), inside_b, inside_dh, inside_old))


# --------------------------------------------------------------------------
# atom level and pools
# --------------------------------------------------------------------------
ATOMS = [None, True, False, 0, 1, 2, -1, 10, 0.0, 1.0, 0.5, 1.5, 2.5, -0.5, 2.0, -1.0, "a", "A", "ab", "Ab", "", "none", "NONE", "int:1", "1",
         "number:1.000000000000", "number:1", "bool:true", "str:a", "bytes:a", "float:1.5", "float:2", b"a", b"A", b"", b"ab", b"none", b"NONE", b"int:1"]


def atom_level(ctx, specs):
    from deepdiff import DeepHash, DeepDiff
    rng = ctx.rng
    ident = lambda s: s  # noqa
    ser, pairs = [], []
    allpairs = [(a, b) for a in ATOMS for b in ATOMS]
    for sp in specs:
        kw = kwargs_of(sp)
        F = coq_opts(sp)
        for a in ATOMS:
            ser.append(("run_c12_ser %s %s" % (F, V.atom_to_coq(a)), DeepHash(a, hasher=ident, **kw)[a], {"atom": repr(a), "options": name_of(sp)}))
        sel = allpairs if ctx.thorough else rng.sample(allpairs, 110)
        for a, b in sel:
            he = DeepHash(a, **kw)[a] == DeepHash(b, **kw)[b]
            try:
                de = DeepDiff(a, b, ignore_order=True, **kw) == {}
            except Exception as e:  # noqa
                ctx.break_("correspondence", {"name": "atom pair", "a": repr(a), "b": repr(b), "error": repr(e)})
                continue
            pairs.append(("run_c12_atoms %s %s %s" % (F, V.atom_to_coq(a), V.atom_to_coq(b)), [he, de],
                          {"a": repr(a), "b": repr(b), "options": name_of(sp)}))
            ctx.count("atoms:agree" if he == de else "atoms:disagree")
    ctx.coq_cases("c12_ser", HEADER, ser, shard=300, label="hasher_input_text_of_atoms")
    ctx.coq_cases("c12_atoms", HEADER, pairs, shard=300, label="atom_pairs_both_verdicts")


def pools(ctx, specs):
    """SHA-256 equality pattern over a pool of values and their normalised variants"""
    from deepdiff import DeepHash
    rng = ctx.rng
    cases = []
    for sp in specs:
        kw = kwargs_of(sp)
        pool = []
        while len(pool) < (60 if ctx.thorough else 30):
            v = C11.gen_value(rng, rng.choice([1, 2, 2, 3]), 3, True, True, False)
            for w in (v, C11.normalise(rng, v, c11_spec(sp), p=0.6), C05.rebuild(v, rng)):
                if in_universe(w) and not harmful_alias(w, None, kw):
                    pool.append(w)
        for rep in (False, True):
            hs = []
            for v in pool:
                hs.append(DeepHash(v, ignore_repetition=not rep, **kw)[v])
            first = [hs.index(h) for h in hs]
            cases.append(("run_c12_classes %s %s %s" % (coq_opts(sp), core.coq_bool(rep), core.coq_list(V.to_coq(v) for v in pool)),
                          first, {"options": name_of(sp), "rep": rep, "pool": [lit(v) for v in pool][:5]}))
            ctx.count("pool:classes", len(set(first)))
            ctx.count("pool:values", len(pool))
    ctx.coq_cases("c12_pool", HEADER, cases, shard=2, label="sha256_equality_pattern_over_pools")
    # the hash engine's own table WITH options: values containing ==-aliases (1 / 1.0 / True, (1, 'a') / (1.0, 'a'), equal keys of
    # another type in sibling dicts) inside ONE value, against HashModel.deephash under F (finding K2 inside one DeepHash call)
    mcases = []

    def retype(a):
        if isinstance(a, bool):
            return int(a) if rng.random() < 0.5 else a
        if type(a) is int:
            return rng.choice([float(a), a, a == 1 or a == 0 and bool(a) or float(a)]) if rng.random() < 0.8 else a
        if type(a) is float and a == int(a):
            return int(a) if rng.random() < 0.7 else a
        return a
    for sp in specs:
        kw = kwargs_of(sp)
        pool = []
        tries = 0
        while len(pool) < (40 if ctx.thorough else 16) and tries < 400:
            tries += 1
            v = C11.gen_value(rng, rng.choice([1, 2, 2]), 3, True, True, False)
            try:
                w = vmap(v, retype, retype)
            except Exception:  # noqa (merged keys / members)
                continue
            for x in ([v, w], [w, v], (v, w), {"p": v, "q": w}, [v, v], [v, C05.rebuild(w, rng)]):
                if in_universe(x):
                    pool.append(x)
        for rep in (False, True):
            hs = []
            for v in pool:
                x = copy.deepcopy(v)
                hs.append(DeepHash(x, ignore_repetition=not rep, **kw)[x])
            first = [hs.index(h) for h in hs]
            mcases.append(("run_c12_classes_memo %s %s %s" % (coq_opts(sp), core.coq_bool(rep), core.coq_list(V.to_coq(v) for v in pool)),
                           first, {"options": name_of(sp), "rep": rep, "pool": [lit(v) for v in pool][:5]}))
            ctx.count("pool_memo:values", len(pool))
            ctx.count("pool_memo:values_with_harmful_alias", sum(1 for v in pool if harmful_alias(v, None, kw)))
    ctx.coq_cases("c12_pool_memo", HEADER, mcases, shard=2, label="sha256_equality_pattern_over_pools_with_aliases_inside_one_value(own table, with options)")


# --------------------------------------------------------------------------
# witnesses of the Coq _refuted theorems / open findings, replayed on the implementation
# --------------------------------------------------------------------------
WITNESSES = [
    ("C12_bool_int_refuted", [True], [1], _s(numty=True), False, (False, "empty")),
    ("C12_bool_int_refuted(root)", True, 1, _s(numty=True), False, (False, "empty")),
    ("C12_tag_refuted", None, "NONE", _s(), False, (True, "nonempty")),
    ("C12_tag_case_refuted", None, "none", _s(case=True), False, (True, "nonempty")),
    ("K8 fixed (d664dbb): numeric keys under ignore_string_case", {1: 1}, {1: 1}, _s(case=True), False, (True, "empty")),
    ("C12_bytes_key_case_refuted", {b"A": 1}, {b"a": 1}, _s(case=True), False, (True, "nonempty")),
    ("C12_sig_keys_refuted", {1.5: 1}, {2.5: 1}, _s(sig=0), False, (True, "nonempty")),
    ("C12_key_collision_refuted", {"A": 1, "a": 2}, {"A": 1, "a": 3}, _s(case=True), False, (False, "empty")),
    ("C12_key_collision_refuted(order)", {"A": 1, "a": 2}, {"a": 2, "A": 1}, _s(case=True), False, (True, "nonempty")),
    ("C12_set_member_collision_refuted", {"a", "A"}, {"a"}, _s(case=True), True, (False, "empty")),
    ("C12_key_alias_refuted", {1: "x"}, {1.0: "x"}, _s(sig=2), False, (False, "empty")),
    ("C12_tag_refuted(strty)", 1, b"int:1", _s(strty=True), False, (True, "nonempty")),
    ("bytes-key distance TypeError fixed (3adbf05)", [[1, 2]], [[1, {b"k": 1}]], _s(), False, (False, "nonempty")),
    ("C12_bool_int_list_refuted(pairing off)", [True], [1], dict(_s(numty=True), knobs={"cutoff_intersection_for_pairs": 0}), False, (False, "nonempty")),
    # round 3
    ("C12_memo_alias_refuted", [1], [1.0], _s(), False, (False, "empty")),
    ("C12_memo_alias_options_refuted", {2: [], "a": 2}, {"a": 2, 2.0: []}, _s(case=True, sig=3), False, (True, "nonempty")),
    ("C12_k9_boundary(True/2 inside)", True, 2, _s(numty=True), False, (False, "nonempty")),
    ("C12_k9_boundary(2/True inside)", 2, True, _s(numty=True), False, (False, "nonempty")),
    ("C12_k9_boundary(0.5/False outside)", 0.5, False, _s(numty=True, sig=0), False, (False, "empty")),
    ("C12_k9_boundary(False/0.5 inside)", False, 0.5, _s(numty=True, sig=0), False, (False, "nonempty")),
    ("Y.C12_decimal_exponent_refuted", Decimal("1.0"), Decimal("1.00"), _s(), False, (False, "empty")),
    ("Y.C12_number_vs_datetime_refuted", -2, C11._dt(2024, 1, 1, 10, 20, 30, 0), _s(numty=True), False, (False, "EXC:TypeError")),
    ("Y.C12_truncate_not_forwarded_refuted", {C11._dt(2024, 1, 1, 10, 20, 1, 0)}, {C11._dt(2024, 1, 1, 10, 20, 2, 0)}, _s(trunc="minute"), False, (True, "nonempty")),
    ("Y.C12_truncate_not_forwarded_refuted(as values)", {"k": C11._dt(2024, 1, 1, 10, 20, 1, 0)}, {"k": C11._dt(2024, 1, 1, 10, 20, 2, 0)}, _s(trunc="minute"), False, (True, "empty")),
    ("Y.C12_datetime_dict_keys_refuted", {C11._dt(2024, 1, 1, 10, 20, 30, 0): 1}, {C11._dt(2024, 1, 1, 8, 20, 30, 0, 0): 1}, _s(tz=120), False, (True, "nonempty")),
    ("Y.C12_datetime_dict_keys_refuted(as values)", {"k": C11._dt(2024, 1, 1, 10, 20, 30, 0)}, {"k": C11._dt(2024, 1, 1, 8, 20, 30, 0, 0)}, _s(tz=120), False, (True, "empty")),
    ("Y.C12_enum_dict_keys_refuted", {E.A: 1}, {1: 1}, _s(enum=True), False, (True, "nonempty")),
    # Y.C12_enum_none_value_fixed / Y.C12_enum_none_value_agrees: the behaviour after the /repo fix c9e614d (a return of the defect is reported here)
    ("C12-enum-none-value fixed (c9e614d): None-valued member facing None", E4.N, None, _s(enum=True), False, (True, "empty")),
    ("C12-enum-none-value fixed (c9e614d): as dict values", {"k": E4.N}, {"k": None}, _s(enum=True), False, (True, "empty")),
    ("C12-enum-none-value fixed (c9e614d): None first", {"k": None}, {"k": E4.N}, _s(enum=True, case=True), True, (True, "empty")),
    ("C12-enum-none-value fixed (c9e614d): the same member", {"k": E4.N}, {"k": E4.N}, _s(enum=True), False, (True, "empty")),
    ("C12-enum-none-value fixed (c9e614d): a None-valued member facing a value is still a change", {"k": E4.N}, {"k": "x"}, _s(enum=True), False, (False, "nonempty")),
    ("Y.C12_enum_same_class_refuted", E.B, E.D, _s(enum=True, case=True), False, (True, "nonempty")),
    ("Y.C12_enum_unwrap_skips_type_check_refuted", E.A, 1.0, _s(enum=True), False, (False, "empty")),
    ("Y.C12_timedelta_hash_refuted", datetime.timedelta(seconds=5), datetime.timedelta(seconds=5), _s(sig=0), False, ("EXC:TypeError", "empty")),
    # the behaviour after the /repo fix 1c8f0f8 (a return of the defect is reported here)
    ("C12-truncate-date-timedelta-raises fixed (1c8f0f8): date", {"k": datetime.date(2024, 1, 1)}, {"k": datetime.date(2024, 1, 1)}, _s(trunc="hour"), False, (True, "empty")),
    ("C12-truncate-date-timedelta-raises fixed (1c8f0f8): timedelta", {"k": datetime.timedelta(seconds=5)}, {"k": datetime.timedelta(seconds=5)}, _s(trunc="hour"), False, (True, "empty")),
    ("C12-truncate-date-timedelta-raises fixed (1c8f0f8): different dates still differ", {"k": datetime.date(2024, 1, 1)}, {"k": datetime.date(2024, 1, 2)}, _s(trunc="day"), False, (False, "nonempty")),
    ("C12-truncate-date-timedelta-raises fixed (1c8f0f8): different timedeltas still differ", {"k": datetime.timedelta(seconds=5)}, {"k": datetime.timedelta(seconds=6)}, _s(trunc="minute"), True, (False, "nonempty")),
    ("C12-truncate-date-timedelta-raises fixed (1c8f0f8): a time facing a number", datetime.time(10, 20, 30), 9, _s(trunc="minute", numty=True), False, (False, "nonempty")),
    ("Y.C12_date_key_cleaning_refuted", {datetime.date(2024, 1, 1): 1}, {datetime.date(2024, 1, 1): 1}, _s(case=True, sig=3), False, (True, "EXC:TypeError")),
    ("Y.C12_extended_universe_agree_examples(trunc)", C11._dt(2024, 1, 1, 10, 20, 1, 0), C11._dt(2024, 1, 1, 10, 20, 2, 0), _s(trunc="minute"), False, (True, "empty")),
    ("Y.C12_extended_universe_agree_examples(tz)", C11._dt(2024, 1, 1, 10, 20, 30, 0), C11._dt(2024, 1, 1, 8, 20, 30, 0, 0), _s(tz=120), False, (True, "empty")),
    ("Y.C12_extended_universe_agree_examples(no option)", C11._dt(2024, 1, 1, 10, 20, 30, 0), C11._dt(2024, 1, 1, 8, 20, 30, 0, 0), _s(), False, (False, "nonempty")),
    ("Y.C12_extended_universe_agree_examples(enum)", {"k": E.A}, {"k": 1}, _s(enum=True), False, (True, "empty")),
    ("Y.C12_extended_universe_agree_examples(enum+case)", E.B, "X", _s(enum=True, case=True), False, (True, "empty")),
]


def replay_witnesses(ctx):
    out = []
    for name, t1, t2, sp, rep, (he_x, dv_x) in WITNESSES:
        kw = kwargs_of(sp)
        he = hash_verdict(t1, t2, kw, rep)
        dv = diff_verdict(t1, t2, kw, rep, **sp.get("knobs", {}))[0]
        if (he, dv) != (he_x, dv_x):
            ctx.break_("correspondence", {"name": name, "detail": "witness %s vs %s under %s: the implementation now gives hash_eq=%r diff=%s (the model says %r / %s): the model is stale" % (
                lit(t1), lit(t2), name_of(sp), he, dv, he_x, dv_x)})
        out.append("%s(%s vs %s, %s)" % (name, lit(t1), lit(t2), name_of(sp)))
    ctx.note("refuted_witnesses_replayed", out)


# --------------------------------------------------------------------------
# source tie `hashparams`: search for a concrete input when the tie is broken
# --------------------------------------------------------------------------
TIE_JOBS = []         # (family, t1, t2, spec, rep, want_model): found by on_source_tie_break, evaluated by run() like any generated case
# candidate ITEMS of a list / set: pairs that differ in exactly one aspect an option ignores, repetitions, private keys
TIE_VALUES = [2, 3, 2.5, 3.5, "a", "A", "ab", "Ab", b"a", b"ab", None, [2], [2, 2], [2, 3], [3, 2], ["a"], ["A"], ["a", "a"], [2.5], [3.5],
              (2,), (2, 2), {"k": 2}, {"k": 3}, {"k": "a"}, {"k": "A"}, {"k": 2, "__p": 1}, {"k": 2, "__p": 2}, {"K": 2}, [[2, 2]], [[2]], {"k": [2, 2]}, {"k": [2]}]
TIE_LIST_ATOMS = [2, "a", 2.5]
NOPAIR = {"cutoff_intersection_for_pairs": 0}


def _tie_universe():
    """option records (F, priv, rep), the simplest first: no option, single options, pairs, ..."""
    U = []
    for case in (False, True):
        for strty in (False, True):
            for numty in (False, True):
                for sig in (None, 0, 2):
                    for priv in (True, False):
                        for rep in (False, True):
                            U.append((mk(case=case, strty=strty, numty=numty, sig=sig), priv, rep))
    U.sort(key=lambda u: (sum(1 for k in MODELLED if u[0][k] not in (False, None)) + (not u[1]), u[2]))
    return U


def _tie_lists():
    out = [[]]
    for n in (1, 2, 3):
        import itertools
        out += [list(t) for t in itertools.product(TIE_LIST_ATOMS, repeat=n)]
    return out


def _tie_coq(ctx, name, body):
    """compile one differencing file against the REGENERATED model of this run; returns the framed blocks or None"""
    import os
    import re
    gen_dir = os.path.join(ctx.scratch, "srctie")
    fn = os.path.join(gen_dir, name + ".v")
    with open(fn, "w") as f:
        f.write("From Coq Require Import List String ZArith NArith Bool.\nImport ListNotations.\n"
                "From DD Require Import Base.Sx Base.PyStr Base.Value Hash.HashModel Options.OptModel HashDiff.HashDiffSrcPrims HashDiff.HashDiffSrcShow.\n"
                "From DDGen Require Import HashDiffGen.\nLocal Open Scope Z_scope.\n" + body)
    rc, out = core.sh(["coqc", "-Q", core.THEORIES, "DD", "-Q", gen_dir, "DDGen", fn], timeout=900, cwd=gen_dir)
    if rc != 0:
        return None, out[-800:]
    return [b.replace('""', '"') for b in re.findall(r'"BEGIN\n(.*?)END"', out, re.S)], None


def on_source_tie_break(ctx, name, rec):
    """core.source_tie_step calls this when the tie is not intact.  The generated and the hand definitions are
    differenced INSIDE Coq on (a) every option record of _tie_universe (96: all subsets of the four modelled options x
    ignore_private_variables x report_repetition) and, on the records that differ, every pair of TIE_VALUES as items;
    (b) every list of <= 3 items over three atoms (table construction) and every pair of them (the part of
    _diff_iterable_with_deephash before the pairing heuristic).  Each difference becomes concrete DeepDiff / DeepHash inputs in
    TIE_JOBS, which run() feeds to the ordinary direct oracle and correspondence comparison."""
    import os
    out = {"tie_status": rec.get("status")}
    gen_vo = os.path.join(ctx.scratch, "srctie", "HashDiffGen.vo")
    if rec.get("status") in ("translator-rejected", "generated-model-does-not-compile") or not os.path.exists(gen_vo):
        out["searched"] = ("nothing inside Coq: no generated model to evaluate (%s); the model stream of this run uses its thorough-size budget" % rec.get("status"))
        return out
    rc, blog = core.build_coq(target="theories/HashDiff/HashDiffSrcShow.vo")
    if rc != 0:
        out["searched"] = "nothing: HashDiffSrcShow.v does not build: " + blog[-300:]
        return out
    U = _tie_universe()
    vals = [v for v in TIE_VALUES if in_universe(v)]
    lists = _tie_lists()
    body_a = ("Definition U : list optrec := [\n%s].\nDefinition VALS : list value := [\n%s].\n"
              "Eval vm_compute in framed (show_nats (forwarding_diffs g_deephash_params U)).\n"
              "Eval vm_compute in framed (show_nats (forwarding_none g_deephash_params U)).\n"
              "Eval vm_compute in framed (String.concat \"\" (map (fun k => (\"#\" ++ show_nat k ++ nl ++ show_nat_pairs (firstn 6 (verdict_diffs g_deephash_params (nth k U (no_opts, true, false)) VALS)))%%string) "
              "(firstn 16 (forwarding_diffs g_deephash_params U)))).\n"
              % (";\n".join("(%s, %s, %s)" % (coq_opts(sp), core.coq_bool(priv), core.coq_bool(rep)) for sp, priv, rep in U),
                 ";\n".join(V.to_coq(v) for v in vals)))
    body_b = ("Definition L : list (list value) := [\n%s].\n"
              "Eval vm_compute in framed (show_nats (table_diffs g__create_hashtable L)).\n"
              "Eval vm_compute in framed (show_nat_pairs (firstn 40 (prefix_diffs g__diff_iterable_with_deephash false L))).\n"
              "Eval vm_compute in framed (show_nat_pairs (firstn 40 (prefix_diffs g__diff_iterable_with_deephash true L))).\n"
              % ";\n".join("[%s]" % "; ".join(V.to_coq(x) for x in l) for l in lists))
    from concurrent.futures import ThreadPoolExecutor
    with ThreadPoolExecutor(max_workers=2) as ex:
        (ra, ea), (rb, eb) = ex.map(lambda a: _tie_coq(ctx, *a), [("search_forwarding", body_a), ("search_table", body_b)])
    out["option_records_enumerated"] = len(U)
    out["candidate_items"] = len(vals)
    out["lists_enumerated"] = len(lists)
    found = []

    def add(fam, t1, t2, sp, rep):
        TIE_JOBS.append((fam, t1, t2, sp, rep, True))
    if ra is None or len(ra) != 3:
        out["forwarding_search"] = "the differencing file did not compile against the regenerated model: " + str(ea)
    else:
        differing = [int(x) for x in ra[0].split()]
        none_at = set(int(x) for x in ra[1].split())
        out["forwarding_differs_on_option_records"] = len(differing)
        out["forwarding_yields_no_option_record_on"] = len(none_at)
        cur = None
        per = {}
        for line in ra[2].splitlines():
            if line.startswith("#"):
                cur = int(line[1:])
                per[cur] = []
            elif line.strip() and cur is not None:
                i, j = (int(x) for x in line.split())
                per[cur].append((i, j))
        for k in differing[:16]:
            sp, priv, rep = U[k]
            spk = dict(sp) if priv else dict(sp, priv=False)
            if k in none_at:
                # the generated __init__ chain raises / yields an ill-typed option: any pair under these options shows it
                found.append({"options": name_of(spk), "rep": rep, "generated": "no option record (exception / ill-typed option)"})
                add("source_tie:forwarding", [2, "a"], ["a", 2], spk, rep)
                continue
            for i, j in per.get(k, [])[:6]:
                a, b = vals[i], vals[j]
                found.append({"options": name_of(spk), "rep": rep, "items": [lit(a), lit(b)],
                              "what": "the generated and the hand option record disagree on whether these two items hash alike"})
                add("source_tie:forwarding", [a], [b], dict(spk, knobs=NOPAIR), rep)
                add("source_tie:forwarding", [a], [b], spk, rep)
                add("source_tie:forwarding", [a, 7], [7, b], dict(spk, knobs=NOPAIR), rep)
                if all(x is None or isinstance(x, (int, float, str, bytes)) for x in (a, b)) and a != b:
                    add("source_tie:forwarding", {a}, {b}, spk, rep)
        if differing and not found:
            out["forwarding_note"] = "option records differ but no pair of candidate items is hashed differently by them"
    if rb is None or len(rb) != 3:
        out["table_search"] = "the differencing file did not compile against the regenerated model: " + str(eb)
    else:
        tl = [int(x) for x in rb[0].split()]
        out["table_differs_on_lists"] = len(tl)
        for k in tl[:6]:
            xs = lists[k]
            found.append({"list": lit(xs), "what": "the generated table construction differs from dedup / indexes_of / first item"})
            seen_, ded = set(), []
            for x in xs:
                if x not in seen_:
                    seen_.add(x)
                    ded.append(x)
            for ys in (ded, xs + [9], list(reversed(xs)), xs[:-1]):
                for rep in (False, True):
                    add("source_tie:table", xs, ys, mk(), rep)
                    add("source_tie:table", ys, xs, mk(), rep)
        for rep, blk in ((False, rb[1]), (True, rb[2])):
            prs = [tuple(int(x) for x in ln.split()) for ln in blk.splitlines() if ln.strip()]
            out["prefix_differs_on_pairs(rep=%s)" % rep] = len(prs)
            for i, j in prs[:8]:
                found.append({"t1": lit(lists[i]), "t2": lit(lists[j]), "rep": rep,
                              "what": "hash sets / reduced hashtables before the pairing heuristic differ from the hand model"})
                add("source_tie:prefix", lists[i], lists[j], mk(), rep)
                add("source_tie:prefix", lists[i], lists[j], dict(mk(), knobs=NOPAIR), rep)
    out["first_differences"] = found[:8]
    out["inputs_fed_to_the_ordinary_check"] = len(TIE_JOBS)
    if not TIE_JOBS:
        out["searched"] = "generated and hand definitions agree on everything enumerated (a translator / proof artefact, or a difference outside the enumeration)"
    return out


# --------------------------------------------------------------------------
# run
# --------------------------------------------------------------------------

def run(ctx):
    import time
    rng = ctx.rng
    sys.setrecursionlimit(10000)
    phases, t_last = {}, [time.time()]

    def lap(name):
        now = time.time()
        phases[name] = round(now - t_last[0], 1)
        t_last[0] = now
    replay_witnesses(ctx)
    mspecs = modelled_specs(rng)
    # a broken source tie escalates the stream that exercises the translated fragment (lists / sets under the forwarded options)
    tie_broken = ctx.tie_broken("hashparams")
    n_model = 240 if (ctx.thorough or tie_broken) else 34          # pairs per modelled option set and family mix
    n_rich = 400 if ctx.thorough else 60
    jobs = []
    for job in TIE_JOBS:      # inputs on which the regenerated model differs from the hand model: judged like any generated case
        jobs.append(job)
    if tie_broken:
        ctx.note("source_tie_escalation", "hashparams not intact: model stream at thorough size (%d pairs per option set); %d input(s) from the "
                                          "generated-vs-hand differencing inside Coq" % (n_model, len(TIE_JOBS)))
    for t1, t2, sp in FIXED:
        for rep in (False, True):
            jobs.append(("fixed", t1, t2, sp, rep, True))
    for sp in mspecs:
        for i in range(n_model):
            fam = ["alt", "records", "near", "rand", "alt", "near", "records" if ctx.thorough else "rand", "indep", "alt"][i % 9]
            t1, t2, log = gen_case_values(rng, fam, sp, rich=False)
            if i % 3 == 2:
                sp = dict(sp, knobs=rng.choice(KNOBS))
            t1, t2, spc = with_sharing(rng, t1, t2, sp)
            for a in log:
                ctx.count("altered:%s@%s" % a if a[0] != "edit" else "edit:%s" % (str(a[1]).split(":")[0],))
            jobs.append((fam, t1, t2, spc, rng.random() < 0.5, True))
    # ==-aliasing atoms (1 / 1.0, (1, 'a') / (1.0, 'a'), equal keys of other type) at default options: the memo-threaded models
    for i in range(240 if ctx.thorough else 36):
        t1 = V.gen_value(rng, rng.choice([1, 2, 2, 3]), 3, True, C05.STRS) if i % 2 else C11.gen_value(rng, rng.choice([1, 2, 2]), 3, True, True, False)
        if not isinstance(t1, (list, tuple, dict)):
            t1 = [t1, 1, 1.0]
        t2 = C05.rebuild(t1, rng)
        for _ in range(rng.choice([1, 1, 2])):
            try:
                t2, _k = C05.io_edit(rng, t2, alias=True)
            except Exception:  # noqa
                pass
        if rng.random() < 0.5:
            t2 = vmap(t2, lambda a: float(a) if (type(a) is int and rng.random() < 0.4) else (int(a) if (type(a) is float and a == int(a) and rng.random() < 0.4) else a),
                      lambda k: k)
        if rng.random() < 0.5:
            t1, t2 = t2, t1
        jobs.append(("memo", t1, t2, mk(), rng.random() < 0.5, True))
    for t1, t2, sp in [([1], [1.0], _s()), ([1, 1.0], [1, 1], _s()), ([1, 1.0], [1.0, 1], _s()), ([[1, "a"]], [[1.0, "a"]], _s()), ([{"x": 1}], [{"x": 1.0}], _s()),
                       ({"k": [1, 2.0]}, {"k": [2, 1.0]}, _s()), ([(1, "a")], [(1.0, "a")], _s()), ([1, 2], [1.0, 3], _s())]:
        for rep in (False, True):
            jobs.append(("memo", t1, t2, sp, rep, True))
    # numeric dict keys of equal value and other type (int <-> float) under key cleaning + digits: aliases the diff engine does not see
    kf_specs = [mk(case=True, sig=2), mk(strty=True, sig=1), mk(case=True, sig=0), mk(case=True, strty=True, sig=3), mk(case=True, sig=2, numty=True), mk(strty=True, numty=True)]
    for i in range(240 if ctx.thorough else 36):
        sp = kf_specs[i % len(kf_specs)]
        try:
            t1, t2, _log = gen_key_flip(rng, sp, decimals=False)
        except Exception:  # noqa (merged keys)
            continue
        jobs.append(("keyflip", t1, t2, sp, rng.random() < 0.5, True))
    for t1, t2, sp in [({2: [], "a": 2}, {"a": 2, 2.0: []}, _s(case=True, sig=3)), ({"a": 2, 2.0: []}, {2: [], "a": 2}, _s(case=True, sig=3)),
                       ({1: "x", "k": 1.0}, {1.0: "x", "k": 1}, _s(strty=True, sig=1))]:
        for rep in (False, True):
            jobs.append(("keyflip", t1, t2, sp, rep, True))
    rich = []
    for t1, t2, sp in FIXED_RICH:
        for rep in (False, True):
            rich.append(("fixed", t1, t2, sp, rep, False))
    for sp in mspecs + unmodelled_specs(rng) + unmodelled_specs(rng):
        for i in range(n_rich):
            fam = ["alt", "near", "rand", "alt"][i % 4]
            t1, t2, _log = gen_case_values(rng, fam, sp, rich=True)
            t1, t2, spc = with_sharing(rng, t1, t2, sp)
            rich.append((fam, t1, t2, spc, rng.random() < 0.5, False))
    mods = [mk(), mk(case=True), mk(strty=True), mk(numty=True), mk(sig=0), mk(sig=2), mk(case=True, numty=True), mk(trunc="minute"), mk(sig=1, note=True)]
    for i in range(600 if ctx.thorough else 110):
        sp = dict(mods[i % len(mods)], enum=True)
        t1, t2, _log = gen_enum_cross(rng, sp)
        rich.append(("enumx", t1, t2, sp, rng.random() < 0.5, False))
    for t1, t2, sp in enum_vs_plain_pairs(rng, 400 if ctx.thorough else 90):
        rich.append(("enumty", t1, t2, sp, rng.random() < 0.5, False))
    dspecs = [mk(trunc="day"), mk(trunc="hour"), mk(trunc="hour", tz=330), mk(trunc="day", tz=-300), mk(trunc="minute"), mk(tz=345), mk(trunc="day", case=True),
              dict(mk(trunc="hour", tz=330), tzshape="zoneinfo"), dict(mk(tz=345), tzshape="zoneinfo"), dict(mk(trunc="day", tz=0), tzshape="zoneinfo")]
    for i in range(400 if ctx.thorough else 70):
        sp = dspecs[i % len(dspecs)]
        t1, t2, _log = gen_dt_zones(rng, sp)
        rich.append(("dtzone", t1, t2, sp, rng.random() < 0.5, False))
    # ignore_type_in_groups: the general spelling of the type-ignoring options, alone and combined - an OBSERVATION stream (outside the property's wording)
    gspecs = [dict(mk(), groups=g) for g in ("numbers", "strings", "intfloat", "strbytes")] + \
        [dict(mk(case=True), groups="strings"), dict(mk(sig=1), groups="numbers"), dict(mk(enum=True), groups="intfloat"), dict(mk(strty=True), groups="numbers")]
    for i in range(320 if ctx.thorough else 64):
        sp = gspecs[i % len(gspecs)]
        t1, t2, _log = gen_case_values(rng, ["alt", "near", "alt", "rand"][i % 4], sp, rich=(i % 3 == 0))
        rich.append(("groups", t1, t2, sp, rng.random() < 0.5, False))
    for t1, t2, g in [(1, 1.0, "intfloat"), ({"k": 1}, {"k": 1.0}, "numbers"), ([1, "x"], ["x", 1.0], "numbers"), ("a", b"a", "strbytes"), ({"k": "a"}, {"k": b"a"}, "strings"),
                      ({1: "x"}, {1.0: "x"}, "numbers"), ({"a"}, {b"a"}, "strings"), (1, 2.0, "intfloat"), ("a", b"b", "strings")]:
        rich.append(("fixed", t1, t2, dict(mk(), groups=g), False, False))
    kspecs = [mk(case=True, sig=2), mk(strty=True, sig=1), mk(case=True, sig=0), mk(case=True, strty=True, sig=3), mk(case=True), mk(sig=2), mk(case=True, sig=2, numty=True)]
    for i in range(400 if ctx.thorough else 70):
        sp = kspecs[i % len(kspecs)]
        try:
            t1, t2, _log = gen_key_flip(rng, sp)
        except Exception:  # noqa (merged keys)
            continue
        rich.append(("keyflip", t1, t2, sp, rng.random() < 0.5, False))
    for fam, t1, t2, sp, rep, _w in jobs[:3] + jobs[2 * len(FIXED):2 * len(FIXED) + 3]:
        ctx.sample({"family": fam, "t1": lit(t1), "t2": lit(t2), "options": name_of(sp), "report_repetition": rep})
    # the extended-universe model: list-free pairs under ALL shared options
    ypairs = []
    for t1, t2, sp in FIXED_RICH + FIXED:
        if y_listfree(t1) and y_listfree(t2) and in_yuniverse(t1) and in_yuniverse(t2) and not (sp["enum"] and enum_meets_container(t1, t2)):
            for rep in (False, True):
                ypairs.append(("fixed", t1, t2, sp, rep))
    for sp in y_specs(rng):
        for i in range(30 if ctx.thorough else 8):
            t1, t2 = gen_y_pair(rng, sp)
            if in_yuniverse(t1) and in_yuniverse(t2) and not (sp["enum"] and enum_meets_container(t1, t2)):
                ypairs.append(("ygen", t1, t2, sp, rng.random() < 0.5))
    for fam, t1, t2, sp, rep, _w in rich:
        if fam != "fixed" and not sp.get("share") and not sp.get("groups") and not sp.get("tzshape") and y_listfree(t1) and y_listfree(t2) and in_yuniverse(t1) and in_yuniverse(t2) \
                and not (sp["enum"] and enum_meets_container(t1, t2)):
            ypairs.append(("rich:" + fam, t1, t2, sp, rep))
    lap("generate")
    with mp.get_context("fork").Pool(core.NCPU) as pool:
        cases = evaluate(ctx, pool, jobs, "model")
        lap("engines+oracle:model_stream")
        evaluate(ctx, pool, rich, "rich")
        lap("engines+oracle:rich_stream")
        yhyp = y_stream(ctx, pool, ypairs)
        lap("engines+oracle+coq:extended_universe_stream")
    guard_replay(ctx, [x for x in cases if x[2].get("guard_expr")])
    lap("coq:hypotheses_on_model_cases")
    cases = [(e, x, {k: v for k, v in t.items() if k != "guard_expr"}) for e, x, t in cases]
    ctx.coq_cases("c12_pairs", HEADER, cases, shard=60, label="both_engines_on_pairs")
    lap("coq:pairs")
    atom_level(ctx, mspecs)
    text_level(ctx, mspecs)
    lap("coq:atoms")
    pools(ctx, mspecs if ctx.thorough else rng.sample(mspecs, 6))
    ys = y_specs(rng)
    y_pools(ctx, ys if ctx.thorough else rng.sample(ys, 8))
    lap("coq:pools")
    ctx.note("phase_seconds", phases)
    ctx.note("modelled_options", [name_of(s) for s in mspecs])
    ctx.note("direct_oracle_only", "truncate_datetime, default_timezone, use_enum_value, number_format_notation='e', Decimal, -0.0, non-ASCII "
                                   "str/bytes, undecodable bytes: exercised by the direct oracle only (no model, no theorem)")


def replay(ctx, data):
    case = data.get("case", {})
    if "t1" not in case or "spec" not in case:
        return run(ctx)
    t1, t2, sp, rep = _inputs(case)
    kw = kwargs_of(sp)
    he = hash_verdict(t1, t2, kw, rep)
    dv = diff_verdict(t1, t2, kw, rep, **sp.get("knobs", {}))[0]
    ctx.evaluations += 1
    print("replay: t1=%s t2=%s options=%s report_repetition=%s -> hash_eq=%r diff=%s" % (case["t1"], case["t2"], name_of(sp), rep, he, dv))
    if agree(he, dv) is False:
        ctx.fail(dict(case, hash_eq=he, diff=dv), describe(he, dv) + " [options: %s, report_repetition=%s]" % (name_of(sp), rep))

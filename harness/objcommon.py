"""Block Obj: Python objects with attributes (instances of user classes) inside the
ordered-diff / Delta models (coq/theories/Obj/*.v).

Python side of the encoding  OObj cls attrs  |->  { chr(0)+cls : { attr : value ... }, chr(1)+cls : cls }
(`enc_py` mirrors ObjValue.enc), generators of values holding class instances,
canonical observables, and ONE entry point per property:

    stream_c02(ctx)   empty diff <=> equal (class + attribute values), copy => empty, inputs untouched
    stream_c04(ctx)   every reported entry is backed by the inputs (extract with getattr steps)
    stream_c01(ctx)   t1 + Delta(DeepDiff(t1, t2)) == t2 by class and attribute values
    stream_c09(ctx)   level.path() with .attr elements extracts that location

each = correspondence (model evaluated inside Coq on the same inputs) + the direct oracle.
"""
import copy
import logging

from harness import values as V, diffcommon as D, deltacommon as DC
from harness.core import coq_pystr, coq_list, sx_sorted

logging.disable(logging.CRITICAL)


# ---------------------------------------------------------------------------
# the classes (fixed; compared by name in the model)
# ---------------------------------------------------------------------------

class _Plain:
    def __init__(self, **kw):
        self.__dict__.update(kw)

    def __repr__(self):
        return "%s(%s)" % (type(self).__name__, ", ".join("%s=%r" % kv for kv in self.__dict__.items()))

    def __eq__(self, other):
        return type(other) is type(self) and self.__dict__ == other.__dict__

    __hash__ = None


class PA(_Plain):
    pass


class PB(_Plain):
    pass


class PN:
    """plain class WITHOUT __eq__ (identity comparison)"""

    def __init__(self, **kw):
        self.__dict__.update(kw)

    def __repr__(self):
        return "PN(%s)" % ", ".join("%s=%r" % kv for kv in self.__dict__.items())


class SL:
    __slots__ = ("x", "y", "z", "w")

    def __init__(self, **kw):
        for k, v in kw.items():
            setattr(self, k, v)

    def __repr__(self):
        return "SL(%s)" % ", ".join("%s=%r" % (k, getattr(self, k)) for k in self.__slots__ if hasattr(self, k))

    def __eq__(self, other):
        return type(other) is SL and attrs_of(self) == attrs_of(other)

    __hash__ = None


import collections
NT = collections.namedtuple("NT", ["x", "y"])     # a namedtuple: _diff_tuple hands it to _diff_obj(is_namedtuple=True): attributes x, y

CLASSES = {"PA": PA, "PB": PB, "PN": PN, "SL": SL, "NT": NT}
DIFF_CLASSES = ("PA", "PB", "PN", "SL", "NT")       # C02 / C04 / C09 streams; Delta cannot setattr on a namedtuple (C01 stream: without NT)
OBJ_TYPES = tuple(CLASSES.values())
ATTR_NAMES = ["x", "y", "z", "w"]
TAG = "\x00"
TAG2 = "\x01"
EVAL_ENV = dict(CLASSES)


def is_obj(v):
    return isinstance(v, OBJ_TYPES)


def cls_name(v):
    return type(v).__name__


def attrs_of(o):
    """(name, value) in __dict__ insertion order; for the __slots__ class the slots that are set, in slot order"""
    if isinstance(o, SL):
        return [(k, getattr(o, k)) for k in SL.__slots__ if hasattr(o, k)]
    if isinstance(o, NT):
        return list(o._asdict().items())
    return list(o.__dict__.items())


def mk_obj(cls, attrs):
    if cls == "SL":
        attrs = sorted(attrs, key=lambda kv: SL.__slots__.index(kv[0]))
    return CLASSES[cls](**dict(attrs))


# ---------------------------------------------------------------------------
# encoding / canonical forms / Coq terms
# ---------------------------------------------------------------------------

def enc_py(v):
    """mirror of ObjValue.enc"""
    if is_obj(v):
        return {TAG + cls_name(v): {k: enc_py(x) for k, x in attrs_of(v)}, TAG2 + cls_name(v): cls_name(v)}
    if isinstance(v, list):
        return [enc_py(x) for x in v]
    if isinstance(v, tuple):
        return tuple(enc_py(x) for x in v)
    if isinstance(v, dict):
        return {k: enc_py(x) for k, x in v.items()}
    return v


def has_obj(v):
    if is_obj(v):
        return True
    if isinstance(v, (list, tuple)):
        return any(has_obj(x) for x in v)
    if isinstance(v, dict):
        return any(has_obj(x) for x in v.values())
    return False


def canon_o(v, unordered=False):
    """mirror of ObjValue.sx_ovalue (unordered: ObjShow.sx_ovalue_unordered)"""
    srt = sx_sorted if unordered else (lambda l: l)
    if is_obj(v):
        return ["O", cls_name(v), srt([[k, canon_o(x, unordered)] for k, x in attrs_of(v)])]
    if isinstance(v, list):
        return ["L", [canon_o(x, unordered) for x in v]]
    if isinstance(v, tuple):
        return ["T", [canon_o(x, unordered) for x in v]]
    if isinstance(v, dict):
        return ["D", srt([[V.canon_atom(k), canon_o(x, unordered)] for k, x in v.items()])]
    return V.canon(v)


def oeq(a, b):
    """equality by class and attribute values, typed at the atoms, dict / attribute order irrelevant"""
    return canon_o(a, True) == canon_o(b, True)


def _py_eq_atom(a, b):
    return DC._py_eq(a, b)


def opy_eq(a, b):
    """mirror of ObjValue.opy_eqv: Python == with objects compared by class and attribute values"""
    if is_obj(a) or is_obj(b):
        if not (is_obj(a) and is_obj(b) and cls_name(a) == cls_name(b)):
            return False
        x, y = dict(attrs_of(a)), dict(attrs_of(b))
        return x.keys() == y.keys() and all(opy_eq(x[k], y[k]) for k in x)
    if isinstance(a, (list, tuple)):
        return type(a) is type(b) and len(a) == len(b) and all(opy_eq(x, y) for x, y in zip(a, b))
    if isinstance(a, dict):
        if not (isinstance(b, dict) and len(a) == len(b)):
            return False
        for k, x in a.items():
            if k not in b or not opy_eq(x, b[k]):
                return False
        return True
    if isinstance(a, (set, frozenset)):
        return isinstance(b, (set, frozenset)) and a == b
    if isinstance(b, (list, tuple, dict, set, frozenset)):
        return False
    return _py_eq_atom(a, b)


def to_coq_o(v):
    if is_obj(v):
        return "(OObj %s [%s])" % (coq_pystr(cls_name(v)), "; ".join("(%s, %s)" % (coq_pystr(k), to_coq_o(x)) for k, x in attrs_of(v)))
    if isinstance(v, list):
        return "(OList [%s])" % "; ".join(to_coq_o(x) for x in v)
    if isinstance(v, tuple):
        return "(OTuple [%s])" % "; ".join(to_coq_o(x) for x in v)
    if isinstance(v, dict):
        return "(ODict [%s])" % "; ".join("(%s, %s)" % (V.atom_to_coq(k), to_coq_o(x)) for k, x in v.items())
    if isinstance(v, frozenset):
        return "(OFrozen [%s])" % "; ".join(V.atom_to_coq(x) for x in v)
    if isinstance(v, set):
        return "(OSet [%s])" % "; ".join(V.atom_to_coq(x) for x in v)
    return "(OAtom %s)" % V.atom_to_coq(v)


# ---------------------------------------------------------------------------
# generators
# ---------------------------------------------------------------------------

PLAIN_KW = dict(strings=V.STR_POOL + ["a\nb", "a\nc\n"])


def gen_obj(rng, depth, classes=DIFF_CLASSES, kinds="LTDSFA"):
    cls = rng.choice(classes)
    names = list(ATTR_NAMES)
    rng.shuffle(names)
    names = names[:rng.choice([0, 1, 1, 2, 2, 3, 4])]
    if cls == "NT":
        names = ["x", "y"]
    return mk_obj(cls, [(n, gen_o(rng, depth - 1, classes, kinds)) for n in names])


def gen_o(rng, depth=3, classes=DIFF_CLASSES, kinds="LTDSFA", p_obj=0.35):
    """a tree-shaped value with class instances at any level (attributes, list items, dict values)"""
    if depth <= 0:
        return V.gen_atom(rng)
    r = rng.random()
    if r < p_obj:
        return gen_obj(rng, depth, classes, kinds)
    if r < p_obj + 0.2:
        return V.gen_value(rng, depth=min(depth, 2), width=3, kinds=kinds, **PLAIN_KW)
    n = rng.randint(0, 3)
    k = rng.choice("LLDT" if "T" in kinds else "LLD")
    if k == "L":
        return [gen_o(rng, depth - 1, classes, kinds, p_obj) for _ in range(n)]
    if k == "T":
        return tuple(gen_o(rng, depth - 1, classes, kinds, p_obj) for _ in range(n))
    keys = V._distinct_keys(rng, n, False, V.STR_POOL)
    return {q: gen_o(rng, depth - 1, classes, kinds, p_obj) for q in keys}


def positions_o(v, path=()):
    yield path
    if is_obj(v):
        for k, x in attrs_of(v):
            yield from positions_o(x, path + (("a", k),))
    elif isinstance(v, (list, tuple)):
        for i, x in enumerate(v):
            yield from positions_o(x, path + (("i", i),))
    elif isinstance(v, dict):
        for k, x in v.items():
            yield from positions_o(x, path + (("k", k),))


def get_at_o(v, path):
    for t, p in path:
        v = getattr(v, p) if t == "a" else v[p]
    return v


def set_at_o(v, path, new):
    """functional update: fresh containers / instances along the path"""
    if not path:
        return new
    (t, p), rest = path[0], path[1:]
    if t == "a":
        return mk_obj(cls_name(v), [(k, set_at_o(x, rest, new) if k == p else x) for k, x in attrs_of(v)])
    if isinstance(v, list):
        c = list(v)
        c[p] = set_at_o(v[p], rest, new)
        return c
    if isinstance(v, tuple):
        c = list(v)
        c[p] = set_at_o(v[p], rest, new)
        return tuple(c)
    c = dict(v)
    c[p] = set_at_o(v[p], rest, new)
    return c


OBJ_EDITS = ["attr_changed", "attr_added", "attr_removed", "class_changed", "obj_to_value", "obj_replaced", "attrs_reordered"]


def edit_o(rng, v, classes=DIFF_CLASSES, kinds="LTDSFA"):
    """one edit; returns (new value, edit kind).  Object-specific edits when an object is hit,
    values.edit on object-free sub-values, insert/delete on sequences that hold objects."""
    pos = list(positions_o(v))
    objs = [p for p in pos if is_obj(get_at_o(v, p))]
    for _ in range(20):
        r = rng.random()
        if objs and r < 0.6:
            p = rng.choice(objs)
            o = get_at_o(v, p)
            at = attrs_of(o)
            kind = rng.choice(OBJ_EDITS)
            if cls_name(o) == "NT" and kind in ("attr_added", "attr_removed", "attrs_reordered"):
                continue                      # a namedtuple has exactly its fields
            if kind == "attr_changed" and at:
                k, x = rng.choice(at)
                if rng.random() < 0.5 or has_obj(x):
                    nv = gen_o(rng, 1, classes, kinds)
                else:
                    nv, _k = V.edit(rng, x, strings=PLAIN_KW["strings"])
                    if _k is None:
                        continue
                if oeq(nv, x):
                    continue
                return set_at_o(v, p + (("a", k),), nv), kind
            if kind == "attr_added":
                free = [n for n in ATTR_NAMES if n not in dict(at)]
                if not free:
                    continue
                n = rng.choice(free)
                return set_at_o(v, p, mk_obj(cls_name(o), at + [(n, gen_o(rng, 1, classes, kinds))])), kind
            if kind == "attr_removed" and at:
                k = rng.choice(at)[0]
                return set_at_o(v, p, mk_obj(cls_name(o), [(a, x) for a, x in at if a != k])), kind
            if kind == "class_changed":
                others = [c for c in classes if c != cls_name(o) and (c != "NT" or sorted(dict(at)) == ["x", "y"])]
                if not others:
                    continue
                return set_at_o(v, p, mk_obj(rng.choice(others), at)), kind
            if kind == "obj_to_value":
                nv = rng.choice([{}, dict(at), [x for _a, x in at], V.gen_atom(rng), {"x": 1}])
                if has_obj(nv) and rng.random() < 0.5:
                    nv = V.gen_atom(rng)
                return set_at_o(v, p, nv), kind
            if kind == "obj_replaced":
                return set_at_o(v, p, gen_obj(rng, 1, classes, kinds)), kind
            if kind == "attrs_reordered" and len(at) > 1 and cls_name(o) != "SL":
                at2 = list(at)
                rng.shuffle(at2)
                return set_at_o(v, p, mk_obj(cls_name(o), at2)), kind
            continue
        p = rng.choice(pos)
        sub = get_at_o(v, p)
        if not has_obj(sub):
            if rng.random() < 0.2:
                return set_at_o(v, p, gen_obj(rng, 1, classes, kinds)), "value_to_obj"
            nv, k = V.edit(rng, sub, strings=PLAIN_KW["strings"])
            if k is None:
                continue
            return set_at_o(v, p, nv), "plain:" + k
        if is_obj(sub):
            continue
        if isinstance(sub, (list, tuple)):
            c = list(sub)
            if c and rng.random() < 0.5:
                del c[rng.randrange(len(c))]
                k = "seq_delete"
            else:
                c.insert(rng.randint(0, len(c)), gen_o(rng, 1, classes, kinds))
                k = "seq_insert"
            return set_at_o(v, p, type(sub)(c)), k
        if isinstance(sub, dict):
            c = dict(sub)
            if c and rng.random() < 0.5:
                del c[rng.choice(list(c))]
                k = "dict_delete"
            else:
                c[rng.choice(["n1", "n2", 7, None])] = gen_o(rng, 1, classes, kinds)
                k = "dict_insert"
            return set_at_o(v, p, c), k
    return copy.deepcopy(v), "none"


def share_obj(rng, t):
    """ONE instance of t placed at a second position (the same Python object twice; no cycle): appended to a list,
    under a new dict key, or as a new attribute of a plain instance that is not inside the shared one.  None if impossible."""
    pos = list(positions_o(t))
    objs = [p for p in pos if p and is_obj(get_at_o(t, p))]
    rng.shuffle(objs)
    for p in objs:
        hosts = [q for q in pos if q[:len(p)] != p and
                 (isinstance(get_at_o(t, q), (list, dict)) or type(get_at_o(t, q)) in (PA, PB, PN))]
        rng.shuffle(hosts)
        for q in hosts:
            host, o = get_at_o(t, q), get_at_o(t, p)
            if isinstance(host, list):
                host.append(o)
            elif isinstance(host, dict):
                if "shared" in host:
                    continue
                host["shared"] = o
            else:
                free = [n for n in ATTR_NAMES if n not in host.__dict__]
                if not free:
                    continue
                setattr(host, free[0], o)
            return t
    return None


def gen_pair(rng, classes=DIFF_CLASSES, kinds="LTDSFA", depth=3, share=0.12):
    """(t1, t2, edit kinds): t1 with at least one object, t2 = 0-3 edits of t1 (or independent); in a fraction `share`
    of the cases one instance of t1 occurs at two positions (the model gets the unfolded tree)"""
    for _ in range(50):
        t1 = gen_o(rng, depth, classes, kinds)
        if has_obj(t1):
            break
    else:
        t1 = gen_obj(rng, 2, classes, kinds)
    shared = False
    if share and rng.random() < share:
        t1s = share_obj(rng, copy.deepcopy(t1))
        if t1s is not None:
            t1, shared = t1s, True
    tag = ["shared_instance"] if shared else []
    r = rng.random()
    if r < 0.06:
        return t1, copy.deepcopy(t1), ["copy"] + tag
    if r < 0.12:
        return t1, gen_o(rng, depth, classes, kinds), ["independent"] + tag
    t2, ks = t1, []
    for _ in range(rng.choice([1, 1, 1, 2, 2, 3])):
        t2, k = edit_o(rng, t2, classes, kinds)
        ks.append(k)
    return t1, copy.deepcopy(t2), ks + tag


def in_guard(t1, t2):
    """correspondence guard inherited from the plain model: no two == set members of different type"""
    return D.in_model_guard(enc_py(t1), enc_py(t2))


# ---------------------------------------------------------------------------
# observables of the implementation
# ---------------------------------------------------------------------------

def canon_opath_from_chain(level, use_t2=False):
    out = []
    lv = level.all_up
    while lv is not None and lv is not level:
        rel = (lv.t2_child_rel or lv.t1_child_rel) if use_t2 else (lv.t1_child_rel or lv.t2_child_rel)
        if rel is None:
            break
        parent = rel.parent
        if type(rel).__name__ == "AttributeRelationship":
            out.append(["a", rel.param])
        elif isinstance(parent, (list, tuple)):
            out.append(["x", rel.param])
        elif isinstance(parent, dict):
            out.append(["k", V.canon_atom(rel.param)])
        else:
            break
        lv = lv.down
    return out


KINDS_O = D.KINDS + ["attribute_added", "attribute_removed"]


def canon_opt_o(v):
    return None if v is D.notpresent() else ["Some", canon_o(v)]


def tree_obs_o(tree):
    out = []
    for kind in KINDS_O:
        for lv in tree.get(kind, []) or []:
            d = lv.additional.get("diff") if isinstance(lv.additional, dict) else None
            out.append([kind, canon_opath_from_chain(lv), canon_opath_from_chain(lv, use_t2=True),
                        canon_opt_o(lv.t1), canon_opt_o(lv.t2), None if d is None else ["Some", d]])
    extra = sorted(set(tree.keys()) - set(KINDS_O) - {"unprocessed"})
    for k in extra:
        if tree[k]:
            out.append(["UNEXPECTED-CATEGORY", k])
    for lv in tree.get("unprocessed", []) or []:
        out.append(["unprocessed", canon_opath_from_chain(lv)])
    return sx_sorted(out)


def recorded_opaths(dd, t1):
    from deepdiff.path import _path_to_elements
    out = []
    for ps in dd._iterable_opcodes.keys():
        cur, cp = t1, []
        for el, act in _path_to_elements(ps, root_element=None):
            if act == "GETATTR":
                cp.append(["a", el])
                cur = getattr(cur, el)
            else:
                cp.append(["x", el] if isinstance(cur, (list, tuple)) else ["k", V.canon_atom(el)])
                cur = cur[el]
        out.append(cp)
    return sx_sorted(out)


HDR = ("From DD Require Import Base.PyStr Base.Value Path.PathModel Diff.Tree Diff.DiffModel Diff.TextView Diff.DiffShow "
       "Delta.DeltaModel Delta.DeltaShow Delta.DeltaChain Delta.DeltaHyp Obj.ObjValue Obj.ObjModel Obj.ObjText Obj.ObjShow.")

THRS = (0, 0.33, 0.5, 1)    # threshold_to_diff_deeper; at 0 the model puts the type change of a class-changing pair back (ObjModel.tagfix)


def _tables(t1, t2):
    e1, e2 = enc_py(t1), enc_py(t2)
    return D.coq_udiff_table(D.udiff_table(e1, e2)), D.coq_ops_table(D.opcode_table(e1, e2))


def model_tree_expr(t1, t2, zip_, thr):
    ud, ops = _tables(t1, t2)
    return "sx_otree (orun hatom_deep (tbl_udiff %s) (tbl_ops %s) %s %s %s)" % (
        ud, ops, D.coq_cfg(zip_, thr, True), to_coq_o(t1), to_coq_o(t2))


def snapshot(v):
    return canon_o(v)


def run_dd(t1, t2, **kw):
    """DeepDiff on the very objects given; (result or exception, inputs unmodified)"""
    from deepdiff import DeepDiff
    s1, s2 = snapshot(t1), snapshot(t2)
    try:
        r = DeepDiff(t1, t2, **kw)
    except Exception as e:  # noqa
        return e, (snapshot(t1) == s1 and snapshot(t2) == s2)
    return r, (snapshot(t1) == s1 and snapshot(t2) == s2)


def tree_case(t1, t2, zip_, thr):
    t1, t2 = copy.deepcopy(t1), copy.deepcopy(t2)
    r, unmod = run_dd(t1, t2, view="tree", zip_ordered_iterables=zip_, threshold_to_diff_deeper=thr, verbose_level=2)
    if isinstance(r, Exception):
        return None, r, unmod
    obs = [tree_obs_o(r), recorded_opaths(r, t1)]
    tag = {"t1": repr(t1), "t2": repr(t2), "zip": zip_, "thr": thr, "view": "tree", "block": "Obj"}
    return (model_tree_expr(t1, t2, zip_, thr), obs, tag), r, unmod


def _case(t1, t2, **kw):
    d = dict(t1=repr(t1), t2=repr(t2), block="Obj")
    d.update(kw)
    return d


def _classes_in(*vals):
    out = set()

    def walk(v):
        if is_obj(v):
            out.add(cls_name(v))
            for _k, x in attrs_of(v):
                walk(x)
        elif isinstance(v, (list, tuple)):
            for x in v:
                walk(x)
        elif isinstance(v, dict):
            for x in v.values():
                walk(x)
    for v in vals:
        walk(v)
    return sorted(out)


def _count_pair(ctx, prefix, t1, t2, ks):
    for k in ks:
        ctx.count("%s:edit:%s" % (prefix, k))
    for c in _classes_in(t1, t2):
        ctx.count("%s:class:%s" % (prefix, c))


def n_pairs(ctx, quick, thorough):
    return thorough if ctx.thorough else quick


# ---------------------------------------------------------------------------
# C02
# ---------------------------------------------------------------------------

def hidden_private(v):
    """an attribute or dict key starting with '__' (not compared by default)"""
    if is_obj(v):
        return any(k.startswith("__") or hidden_private(x) for k, x in attrs_of(v))
    if isinstance(v, (list, tuple)):
        return any(hidden_private(x) for x in v)
    if isinstance(v, dict):
        return any((isinstance(k, str) and k.startswith("__")) or hidden_private(x) for k, x in v.items())
    return False


def c02_pair(ctx, t1, t2, cases, corr=True):
    from deepdiff import DeepDiff
    for zip_ in (False, True):
        thr = ctx.rng.choice(THRS)
        cfg = dict(zip=zip_, thr=thr)
        if corr and in_guard(t1, t2):
            case, r, unmod = tree_case(t1, t2, zip_, thr)
            if case is None:
                ctx.fail(_case(t1, t2, clause="DeepDiff raised " + type(r).__name__, **cfg), "DeepDiff raised " + repr(r))
            else:
                cases.append(case)
                if not unmod:
                    ctx.fail(_case(t1, t2, clause="inputs modified", **cfg), "DeepDiff modified an input")
        for view in ("text", "tree"):
            a, b = copy.deepcopy(t1), copy.deepcopy(t2)
            r, unmod = run_dd(a, b, view=view, zip_ordered_iterables=zip_, threshold_to_diff_deeper=thr)
            if isinstance(r, Exception):
                ctx.fail(_case(t1, t2, clause="DeepDiff raised " + type(r).__name__, view=view, **cfg), "DeepDiff raised " + repr(r))
                continue
            if not unmod:
                ctx.fail(_case(t1, t2, clause="inputs modified", view=view, **cfg), "DeepDiff modified an input")
            empty = not r
            ctx.seen(("c02", repr(t1), repr(t2), zip_, thr, view), nontrivial=not empty or not oeq(t1, t2))
            if empty and not opy_eq(t1, t2) and not (hidden_private(t1) or hidden_private(t2)) and not D.tag_unsafe(enc_py(t1), enc_py(t2)):
                ctx.fail(_case(t1, t2, clause="empty diff of unequal values", view=view, **cfg),
                         "DeepDiff(t1, t2) is empty but t1 and t2 differ in class or attribute values")
            if oeq(t1, t2) and not empty:
                ctx.fail(_case(t1, t2, clause="non-empty diff of equal values", view=view, **cfg),
                         "t2 equals t1 by class and attribute values but the diff is not empty: " + repr(r)[:300])
        # a structural copy
        c = copy.deepcopy(t1)
        r, unmod = run_dd(t1, c, zip_ordered_iterables=zip_, threshold_to_diff_deeper=thr)
        if isinstance(r, Exception) or r or not unmod:
            ctx.fail(_case(t1, c, clause="copy gives a non-empty diff", **cfg), "DeepDiff(t, deepcopy(t)) = " + repr(r)[:300])
        ctx.seen(("c02copy", repr(t1), zip_, thr), nontrivial=True)


def stream_c02(ctx, n=None):
    cases = []
    for _ in range(n or n_pairs(ctx, 120, 900)):
        t1, t2, ks = gen_pair(ctx.rng)
        _count_pair(ctx, "obj_c02", t1, t2, ks)
        c02_pair(ctx, t1, t2, cases)
    for c in cases[:2]:
        ctx.sample(c[2])
    ctx.coq_cases("obj_c02", HDR, cases, shard=120, label="obj_tree(C02)")


# ---------------------------------------------------------------------------
# C04
# ---------------------------------------------------------------------------

def text_obs_o(res):
    """canonical text-view result (mirror of ObjShow.sx_otext): paths as strings"""
    out = []
    for p, ch in res.get("type_changes", {}).items():
        vals = [canon_o(ch["old_value"]), canon_o(ch["new_value"])] if "old_value" in ch else None
        out.append(["type_changes", p, type_name(ch["old_type"]), type_name(ch["new_type"]), D._opt(ch.get("new_path")), D._opt(vals)])
    for p, ch in res.get("values_changed", {}).items():
        out.append(["values_changed", p, canon_o(ch["old_value"]), canon_o(ch["new_value"]), D._opt(ch.get("new_path")), D._opt(ch.get("diff"))])
    for cat in ("dictionary_item_added", "dictionary_item_removed", "attribute_added", "attribute_removed"):
        items = res.get(cat, {})
        if isinstance(items, dict):
            for p, v in items.items():
                out.append([cat, p, ["Some", canon_o(v)]])
        else:
            for p in items:
                out.append([cat, p, None])
    for cat in ("iterable_item_added", "iterable_item_removed"):
        for p, v in res.get(cat, {}).items():
            out.append([cat, p, canon_o(v)])
    for p, ch in res.get("iterable_item_moved", {}).items():
        out.append(["iterable_item_moved", p, ch["new_path"], canon_o(ch["value"])])
    for cat in ("set_item_added", "set_item_removed"):
        for s in res.get(cat, []):
            out.append([cat, s])
    known = {"type_changes", "values_changed", "dictionary_item_added", "dictionary_item_removed", "iterable_item_added",
             "iterable_item_removed", "iterable_item_moved", "set_item_added", "set_item_removed", "attribute_added", "attribute_removed"}
    for k in sorted(set(res.keys()) - known):
        out.append(["UNEXPECTED-CATEGORY", k])
    return sx_sorted(out)


def type_name(t):
    return D.TYPE_NAMES.get(t) or ("class " + t.__name__)


def model_text_expr(t1, t2, zip_, thr, verbose):
    ud, ops = _tables(t1, t2)
    return "sx_otext (otext_view %d (fst (orun hatom_deep (tbl_udiff %s) (tbl_ops %s) %s %s %s)))" % (
        verbose, ud, ops, D.coq_cfg(zip_, thr, True), to_coq_o(t1), to_coq_o(t2))


def text_case(t1, t2, zip_, thr, verbose):
    t1, t2 = copy.deepcopy(t1), copy.deepcopy(t2)
    r, unmod = run_dd(t1, t2, zip_ordered_iterables=zip_, threshold_to_diff_deeper=thr, verbose_level=verbose)
    if isinstance(r, Exception):
        return None, r, unmod
    tag = {"t1": repr(t1), "t2": repr(t2), "zip": zip_, "thr": thr, "verbose": verbose, "view": "text", "block": "Obj"}
    return (model_text_expr(t1, t2, zip_, thr, verbose), text_obs_o(r), tag), r, unmod


def check_entries_o(ctx, t1, t2, res, verbose, cfg):
    """the C04 property on a text-view result, with getattr steps in the paths"""
    from deepdiff import extract

    def ex(obj, path):
        try:
            return True, extract(obj, path)
        except Exception:
            return False, None

    def bad(clause, path, **extra):
        case = _case(t1, t2, clause=clause, path=path, verbose_level=verbose, prop="C04", **cfg)
        case.update(extra)
        ctx.fail(case, "entry not backed by the inputs: %s at %s" % (clause, path))

    for cat in ("values_changed", "type_changes"):
        for p, ch in res.get(cat, {}).items():
            ok1, a = ex(t1, p)
            ok2, b = ex(t2, ch.get("new_path", p))
            if not (ok1 and oeq(a, ch["old_value"])):
                bad("old value does not resolve in t1", p)
            elif not (ok2 and oeq(b, ch["new_value"])):
                bad("new value does not resolve in t2", p, has_new_path="new_path" in ch)
            elif cat == "values_changed" and opy_eq(ch["old_value"], ch["new_value"]):
                bad("changed value does not differ", p)
            elif cat == "type_changes" and (type(ch["old_value"]) is type(ch["new_value"]) or ch["old_type"] is not type(ch["old_value"])
                                            or ch["new_type"] is not type(ch["new_value"])):
                bad("type change without a change of type", p)
    for cat, here, there in (("iterable_item_added", t2, None), ("iterable_item_removed", t1, None),
                             ("dictionary_item_added", t2, t1), ("dictionary_item_removed", t1, t2),
                             ("attribute_added", t2, t1), ("attribute_removed", t1, t2)):
        items = res.get(cat, {})
        it = items.items() if isinstance(items, dict) else [(p, None) for p in items]
        for p, val in it:
            ok, v = ex(here, p)
            if not ok or (isinstance(items, dict) and not oeq(v, val)):
                bad(cat + " does not resolve to the reported value", p)
            if there is not None:
                ok2, _ = ex(there, p)
                if ok2:
                    bad(cat + ": exists on the other side", p)
            if cat.startswith("attribute") and "." not in p:
                bad(cat + ": path has no attribute element", p)
    for p, ch in res.get("iterable_item_moved", {}).items():
        ok1, a = ex(t1, p)
        ok2, b = ex(t2, ch["new_path"])
        if not (ok1 and ok2 and oeq(b, ch["value"]) and opy_eq(a, b)):
            bad("moved item does not resolve", p)


def c04_pair(ctx, t1, t2, cases, corr=True):
    thr = ctx.rng.choice(THRS)
    cfg = dict(zip=False, thr=thr)
    if corr and in_guard(t1, t2):
        case, r, unmod = tree_case(t1, t2, False, thr)
        if case is not None:
            cases.append(case)
        verbose = ctx.rng.choice((1, 2))
        tcase, r, _ = text_case(t1, t2, False, thr, verbose)
        if tcase is not None:
            cases.append(tcase)
            ctx.count("obj_c04:text_view_case:verbose%d" % verbose)
    for verbose in (1, 2):
        a, b = copy.deepcopy(t1), copy.deepcopy(t2)
        r, unmod = run_dd(a, b, threshold_to_diff_deeper=thr, verbose_level=verbose)
        if isinstance(r, Exception):
            ctx.fail(_case(t1, t2, clause="DeepDiff raised " + type(r).__name__, prop="C04", **cfg), "DeepDiff raised " + repr(r))
            continue
        ctx.seen(("c04", repr(t1), repr(t2), thr, verbose), nontrivial=bool(r))
        for cat in r:
            ctx.count("obj_c04:category:" + cat)
        check_entries_o(ctx, a, b, r, verbose, cfg)


def stream_c04(ctx, n=None):
    cases = []
    for _ in range(n or n_pairs(ctx, 150, 1000)):
        t1, t2, ks = gen_pair(ctx.rng)
        _count_pair(ctx, "obj_c04", t1, t2, ks)
        c04_pair(ctx, t1, t2, cases)
    for c in cases[:2]:
        ctx.sample(c[2])
    ctx.coq_cases("obj_c04", HDR, cases, shard=120, label="obj_tree+text(C04)")


# ---------------------------------------------------------------------------
# C01
# ---------------------------------------------------------------------------

C01_CLASSES = ("PA", "PB", "SL", "PN")
C01_KINDS = "LDSFA"       # no tuples around objects: Delta cannot write below a tuple in the model (guard of C01, F4/F6)


def no_tuple_parent(v, under_tuple=False):
    """no object sits (at any depth) below a tuple"""
    if is_obj(v):
        return not under_tuple and all(no_tuple_parent(x, under_tuple) for _k, x in attrs_of(v))
    if isinstance(v, tuple):
        return all(no_tuple_parent(x, True) for x in v)
    if isinstance(v, list):
        return all(no_tuple_parent(x, under_tuple) for x in v)
    if isinstance(v, dict):
        return all(no_tuple_parent(x, under_tuple) for x in v.values())
    return True


def conv_table_o(tree):
    """new_type(old_value) for the type changes of the run whose two sides are plain values (the calls whose result can
    make DeltaResult omit the values); a call that involves an object never makes the values omitted, except bool(obj)"""
    pairs = []
    rows = []
    for lv in tree.get("type_changes", []) or []:
        if not has_obj(lv.t1) and not has_obj(lv.t2) and type(lv.t2) in DC.TY_COQ and DC.in_universe(lv.t1):
            pairs.append((type(lv.t2), lv.t1))
        elif has_obj(lv.t1) and type(lv.t2) is bool and not is_obj(lv.t2):
            try:
                res = bool(copy.deepcopy(lv.t1))
                rows.append("(TBool, %s, Some %s)" % (V.to_coq(enc_py(lv.t1)), V.to_coq(res)))
            except Exception:
                pass
    tbl = DC.conv_table(pairs)
    if rows:
        tbl = tbl[:-1] + ("; " if pairs else "") + "; ".join(rows) + "]"
    return tbl


def parse_pathc_o(p):
    """delta path string -> encoded canonical key sequence (attribute steps become TAG? no: the model orders by
    encoded paths, which need the class; resolved against the value)"""
    raise NotImplementedError


def enc_pathc(root, p):
    """delta path string -> canonical ENCODED key sequence as the model's delta carries it (all GET by atom;
    an attribute step .a below an object of class C becomes [TAG+C]['a'])"""
    from deepdiff.path import _path_to_elements
    out, cur = [], root
    for el, act in _path_to_elements(p, root_element=None):
        if act == "GETATTR":
            out.append(["k", V.canon_atom(TAG + cls_name(cur))])
            out.append(["k", V.canon_atom(el)])
            try:
                cur = getattr(cur, el)
            except Exception:
                cur = None
        else:
            out.append(["k", V.canon_atom(el)])
            try:
                cur = cur[el]
            except Exception:
                cur = None
    return out


def impl_orders_o(delta, t1, t2):
    """visiting orders of the sorted passes, as encoded paths (removals are looked up in t1, additions in t2;
    for a reversed delta pass (t2, t1))"""
    from deepdiff import Delta
    from functools import cmp_to_key

    def order(items, reverse, root):
        try:
            s = sorted(items.items(), key=Delta._sort_key_for_item_added, reverse=reverse)
        except TypeError:
            s = sorted(items.items(), key=cmp_to_key(Delta._sort_comparison), reverse=reverse)
        return [enc_pathc(root, p) for p, _ in s]
    diff = delta.diff
    irem = dict(diff.get("iterable_item_removed", {}))
    irem.update({k: v["value"] for k, v in diff.get("iterable_item_moved", {}).items()})
    drem = dict(diff.get("dictionary_item_removed", {}))
    arem = dict(diff.get("attribute_removed", {}))
    iadd = dict(diff.get("iterable_item_added", {}))
    iadd.update({v["new_path"]: None for v in diff.get("iterable_item_moved", {}).values()})
    rem = order(irem, True, t1) + order(drem, True, t1) + order(arem, True, t1)
    add = order(iadd, False, t2)
    return rem, add


def model_delta_expr(t1, t2, zip_, thr, bidir, always, base, conv_tbl, rem, add):
    """SL [applied result; the hypotheses of C01_objects_roundtrip_partial observed on this run: guardsb on the encodings,
    valid difflib opcodes, descending / ascending visiting orders]"""
    ud, ops = _tables(t1, t2)
    b = lambda x: "true" if x else "false"
    cfg = D.coq_cfg(zip_, thr, True)
    return ("(let cv := tbl_conv %s in "
            "let d := odelta hatom_deep (tbl_udiff %s) (tbl_ops %s) %s cv %s %s %s %s in "
            "let ro := order_by %s fst in let ao := order_by %s fst in "
            "SL [sx_oresult (oapply cv ro ao d %s); "
            "sx_hyp (guardsb %s %s %s (enc %s) (enc %s)) (ops_table_okb (enc %s) (enc %s) %s) (orders_okb ro ao d)])") % (
        conv_tbl, ud, ops, cfg, b(bidir), b(always), to_coq_o(t1), to_coq_o(t2),
        DC.coq_paths(rem), DC.coq_paths(add), to_coq_o(base),
        cfg, b(bidir), b(always), to_coq_o(t1), to_coq_o(t2), to_coq_o(t1), to_coq_o(t2), ops)


def model_sub_expr(t1, t2, zip_, thr, bidir, always, base, conv_tbl, rrem, radd):
    """base - Delta(DeepDiff(t1, t2)) in the model"""
    ud, ops = _tables(t1, t2)
    b = lambda x: "true" if x else "false"
    return ("(let cv := tbl_conv %s in "
            "let d := odelta hatom_deep (tbl_udiff %s) (tbl_ops %s) %s cv %s %s %s %s in "
            "sx_osub_result (osub cv (order_by %s fst) (order_by %s fst) d %s))") % (
        conv_tbl, ud, ops, D.coq_cfg(zip_, thr, True), b(bidir), b(always), to_coq_o(t1), to_coq_o(t2),
        DC.coq_paths(rrem), DC.coq_paths(radd), to_coq_o(base))


def observe_hyp_o(ctx, t1, t2, bidir, always, delta):
    """the hypotheses of the object round-trip theorem on what the implementation supplied (Python mirrors of
    DeltaChain.guardsb / DeltaHyp.ops_table_okb / orders_okb, on the encodings); counted"""
    from deepdiff import Delta
    from functools import cmp_to_key
    e1, e2 = enc_py(t1), enc_py(t2)
    g = DC.guardsb_py(e1, e2, bidir, always)
    ops_ok = DC.ops_table_ok_py(e1, e2, D.opcode_table(e1, e2))

    def order(items, reverse, root):
        try:
            s = sorted(items.items(), key=Delta._sort_key_for_item_added, reverse=reverse)
        except TypeError:
            s = sorted(items.items(), key=cmp_to_key(Delta._sort_comparison), reverse=reverse)
        return [enc_pathc(root, p) for p, _ in s]
    diff = delta.diff
    irem = dict(diff.get("iterable_item_removed", {}))
    irem.update({k: v["value"] for k, v in diff.get("iterable_item_moved", {}).items()})
    iadd = dict(diff.get("iterable_item_added", {}))
    iadd.update({v["new_path"]: None for v in diff.get("iterable_item_moved", {}).values()})
    keep_rem = set(diff.get("iterable_item_removed", {}))
    keep_add = set(diff.get("iterable_item_added", {}))

    def order_keep(items, reverse, root, keep):
        try:
            s = sorted(items.items(), key=Delta._sort_key_for_item_added, reverse=reverse)
        except TypeError:
            s = sorted(items.items(), key=cmp_to_key(Delta._sort_comparison), reverse=reverse)
        return [enc_pathc(root, p) for p, _ in s if p in keep]
    r6 = order_keep(irem, True, t1, keep_rem)
    r9 = order(dict(diff.get("dictionary_item_removed", {})), True, t1) + order(dict(diff.get("attribute_removed", {})), True, t1)
    a7 = order_keep(iadd, False, t2, keep_add)
    ord_ok = DC.desc_ok(r6) and DC.desc_ok(r9) and DC.asc_ok(a7)
    ctx.count("obj_c01:hyp:guardsb_" + ("true" if g else "false"))
    ctx.count("obj_c01:hyp:valid_ops_" + ("true" if ops_ok else "false"))
    ctx.count("obj_c01:hyp:orders_ok_" + ("true" if ord_ok else "false"))
    if g and ops_ok and ord_ok:
        ctx.count("obj_c01:hyp:all_hypotheses_hold")
    return [g, ops_ok, ord_ok]


def slots_attr_removed(t1, t2, diff):
    """an attribute_removed entry whose object is an instance of the __slots__ class"""
    from deepdiff import extract
    for p in diff.get("attribute_removed", {}) or {}:
        try:
            parent = extract(t1, p.rsplit(".", 1)[0]) if p.rsplit(".", 1)[0] != "root" else t1
        except Exception:
            continue
        if isinstance(parent, SL):
            return True
    return False


def has_identity_obj(v):
    """holds (at any depth reachable by ==) an instance of the class without __eq__: a copy of v is != v"""
    if isinstance(v, PN):
        return True
    if is_obj(v):
        return any(has_identity_obj(x) for _k, x in attrs_of(v))
    if isinstance(v, (list, tuple)):
        return any(has_identity_obj(x) for x in v)
    if isinstance(v, dict):
        return any(has_identity_obj(x) for x in v.values())
    return False


def identity_item_removed(diff):
    """an iterable_item_removed entry whose value holds an instance of a class that compares by identity"""
    return any(has_identity_obj(v) for v in (diff.get("iterable_item_removed", {}) or {}).values())


def c01_pair(ctx, t1, t2, cases, corr=True):
    from deepdiff import DeepDiff, Delta
    zip_ = ctx.rng.random() < 0.3
    thr = ctx.rng.choice(THRS)
    has_pn = "PN" in _classes_in(t1, t2)
    bidir = (not has_pn) and ctx.rng.random() < 0.5     # verification compares with ==: identity for a class without __eq__
    always = ctx.rng.random() < 0.3
    cfg = dict(zip=zip_, thr=thr, bidirectional=bidir, always_include_values=always, prop="C01")
    a, b = copy.deepcopy(t1), copy.deepcopy(t2)
    r, unmod = run_dd(a, b, view="tree", zip_ordered_iterables=zip_, threshold_to_diff_deeper=thr)
    if isinstance(r, Exception):
        ctx.fail(_case(t1, t2, clause="DeepDiff raised " + type(r).__name__, **cfg), "DeepDiff raised " + repr(r))
        return
    conv_tbl = conv_table_o(r)
    dd = DeepDiff(a, b, zip_ordered_iterables=zip_, threshold_to_diff_deeper=thr)
    try:
        delta = Delta(dd, bidirectional=bidir, always_include_values=always, raise_errors=False)
    except Exception as e:
        ctx.fail(_case(t1, t2, clause="Delta() raised " + type(e).__name__, **cfg), "Delta(diff) raised " + repr(e))
        return
    for cat in delta.diff:
        if delta.diff[cat]:
            ctx.count("obj_c01:payload:" + cat)
    base = copy.deepcopy(t1)
    sbase = snapshot(base)
    with DC.Counting() as cnt:
        try:
            res = base + delta
            exc = None
        except Exception as e:
            res, exc = None, e
    slots_rem = slots_attr_removed(t1, t2, delta.diff)
    ident_rem = identity_item_removed(delta.diff)
    guard_ok = no_tuple_parent(t1) and no_tuple_parent(t2) and DC.alias_free_py(enc_py(t1), enc_py(t2)) \
        and not hidden_private(t1) and not hidden_private(t2)
    ctx.count("obj_c01:guard_ok" if guard_ok else "obj_c01:outside_guard")
    ctx.seen(("c01", repr(t1), repr(t2), zip_, thr, bidir, always), nontrivial=bool(dd))
    case = _case(t1, t2, slots_attr_removed=slots_rem, identity_item_removed=ident_rem, guard_ok=guard_ok, **cfg)
    if exc is not None:
        case["clause"] = "t1 + delta raised " + type(exc).__name__
        ctx.fail(case, "t1 + Delta(DeepDiff(t1, t2)) raised " + repr(exc))
    elif guard_ok and slots_rem and (cnt.n or not oeq(res, t2)):
        # observation OBJ1 (DESIGN.md 7.1, "recorded but not filed"): Delta deletes a removed attribute with
        # `del obj.__dict__[elem]`, which cannot work on an instance of a __slots__ class; counted, not a failure
        ctx.count("obj_c01:OBJ1_slots_attribute_removed_not_applied")
    elif guard_ok and ident_rem and not oeq(res, t2):
        # observation OBJ2 (coq/theories/Obj/NOTES.md): Delta._do_item_removed compares the item found at the index with the
        # stored one by `!=`; a (deep-copied) instance of a class without __eq__ is != its original, the list search for an
        # equal item finds nothing, and the removal is skipped without an error; counted, not a failure
        ctx.count("obj_c01:OBJ2_identity_compared_item_not_removed")
    elif guard_ok:
        if not oeq(res, t2):
            case["clause"] = "round trip differs"
            case["errors_logged"] = cnt.n
            ctx.fail(case, "t1 + Delta(DeepDiff(t1, t2)) = %r differs from t2" % (res,))
        elif cnt.n:
            case["clause"] = "errors logged"
            ctx.fail(case, "t1 + Delta(DeepDiff(t1, t2)) logged %d error(s)" % cnt.n)
    if snapshot(base) != sbase:
        case["clause"] = "base modified"
        ctx.fail(case, "t1 + delta modified t1 (mutate=False)")
    # correspondence of the applied result (objects below tuples and __slots__ removals: the implementation behaves
    # differently from a functional update - recorded as outside / finding OBJ1)
    if corr and exc is None and in_guard(t1, t2) and no_tuple_parent(t1) and no_tuple_parent(t2) and not slots_rem and not ident_rem:
        rem, add = impl_orders_o(delta, t1, t2)
        hyp = observe_hyp_o(ctx, t1, t2, bidir, always, delta)
        if hyp == [True, True, True] and thr > 0 and (cnt.n or not oeq(res, t2)):
            # inside every hypothesis of C01_objects_roundtrip_partial the model gives t2 without error; the
            # implementation (compared with the model right below) must do the same
            ctx.break_("correspondence", {"name": "obj_c01 theorem instance", "case": case,
                                          "detail": "all hypotheses of the object round-trip theorem hold, the implementation's result differs from t2"})
        cases.append((model_delta_expr(t1, t2, zip_, thr, bidir, always, t1, conv_tbl, rem, add),
                      [[canon_o(res, True), cnt.n > 0], hyp],
                      dict(t1=repr(t1), t2=repr(t2), block="Obj", what="t1 + delta", **cfg)))
        # the reverse direction (C08's subject; correspondence only): t2 - delta, or the refusal of a one-way delta
        base2 = copy.deepcopy(t2)
        with DC.Counting() as cnt2:
            try:
                back = base2 - delta
                exc2 = None
            except Exception as e:
                back, exc2 = None, e
        if not bidir:
            if exc2 is not None and ctx.rng.random() < 0.12:
                ctx.count("obj_c01:reverse:refused_not_bidirectional")
                cases.append((model_sub_expr(t1, t2, zip_, thr, bidir, always, t2, conv_tbl, [], []), "NotBidirectional",
                              dict(t1=repr(t1), t2=repr(t2), block="Obj", what="t2 - delta (one-way delta)", **cfg)))
        elif exc2 is None:
            rd = Delta(dd, bidirectional=True, always_include_values=always, raise_errors=False)
            rd.diff = rd._get_reverse_diff()
            # OBJ1 / OBJ2 in the reverse direction: attributes added to a __slots__ instance, items holding an
            # identity-compared instance added to a list
            if slots_attr_removed(t2, t1, rd.diff) or identity_item_removed(rd.diff):
                ctx.count("obj_c01:reverse:OBJ1_or_OBJ2")
            else:
                rrem, radd = impl_orders_o(rd, t2, t1)
                ctx.count("obj_c01:reverse:t2_minus_delta")
                if oeq(back, t1) and not cnt2.n:
                    ctx.count("obj_c01:reverse:gives_t1")
                cases.append((model_sub_expr(t1, t2, zip_, thr, bidir, always, t2, conv_tbl, rrem, radd),
                              [canon_o(back, True), cnt2.n > 0],
                              dict(t1=repr(t1), t2=repr(t2), block="Obj", what="t2 - delta", **cfg)))


def stream_c01(ctx, n=None):
    cases = []
    for _ in range(n or n_pairs(ctx, 200, 1200)):
        t1, t2, ks = gen_pair(ctx.rng, classes=C01_CLASSES, kinds=C01_KINDS, share=0)
        _count_pair(ctx, "obj_c01", t1, t2, ks)
        c01_pair(ctx, t1, t2, cases)
    for c in cases[:2]:
        ctx.sample(c[2])
    ctx.coq_cases("obj_c01", HDR, cases, shard=100, label="obj_delta_apply(C01)")


# ---------------------------------------------------------------------------
# C08 (bidirectional deltas on values with instances): t2 - delta = t1, a one-way delta refuses, a base that
# differs at a changed location is reported.  Wired as  `with ctx.extension("Obj"): O.stream_c08(ctx)`
# ---------------------------------------------------------------------------

C08_CLASSES = ("PA", "PB", "SL")      # verification compares with ==: classes with __eq__ only
HDR8 = HDR[:-1] + " Delta.DeltaVerify Delta.DeltaVerifyIndep Delta.DeltaReverse Delta.DeltaVerifyHyp."


def keys_nonneg_py(v):
    if isinstance(v, (list, tuple)):
        return all(keys_nonneg_py(x) for x in v)
    if isinstance(v, dict):
        return all(not (type(k) is int and k < 0) and keys_nonneg_py(x) for k, x in v.items())
    return True


def korder_py(t1, t2):
    """mirror of DeltaReverseSym.korder (on encodings: also the ATTRIBUTE order of two instances of one class)"""
    if (type(t1) is list and type(t2) is list) or (type(t1) is tuple and type(t2) is tuple):
        return all(korder_py(x, y) for x, y in zip(t1, t2))
    if isinstance(t1, dict) and isinstance(t2, dict):
        c1 = [V.canon_atom(k) for k in t1 if k in t2]
        c2 = [V.canon_atom(k) for k in t2 if k in t1]
        return c1 == c2 and all(korder_py(v, t2[k]) for k, v in t1.items() if k in t2)
    return True


def ntp_vals_o(t2, delta):
    """mirror of DeltaVerifyHyp.ntp_valsb on the encodings: no tuple is the parent (in t2) of a location the
    subtraction writes a value change to"""
    e2 = enc_py(t2)
    for p, ch in (delta.diff.get("values_changed", {}) or {}).items():
        keys = enc_pathc(t2, ch["new_path"] if ch.get("new_path") else p)
        if not keys:
            continue
        cur = e2
        try:
            for _tag, k in keys[:-1]:
                cur = cur[D.uncanon_atom(k)]
        except Exception:
            continue
        if isinstance(cur, tuple):
            return False
    return True


def model_c08_expr(t1, t2, zip_, thr, always, conv_tbl, rem, add, rrem, radd, corrupt):
    """SL [t1 + d; t2 - d; corrupted base + d (or None); the data guards of C08_objects_sub_inverts as Coq booleans]"""
    ud, ops = _tables(t1, t2)
    b = lambda x: "true" if x else "false"
    cfg = D.coq_cfg(zip_, thr, True)
    cor = "SA \"none\"" if corrupt is None else "sx_oresult (oapply cv ro ao d %s)" % to_coq_o(corrupt)
    return ("(let cv := tbl_conv %s in "
            "let d := odelta hatom_deep (tbl_udiff %s) (tbl_ops %s) %s cv true %s %s %s in "
            "let ro := order_by %s fst in let ao := order_by %s fst in "
            "SL [sx_oresult (oapply cv ro ao d %s); "
            "sx_osub_result (osub cv (order_by %s fst) (order_by %s fst) d %s); %s; "
            "SL [sx_bool (guardsb %s true %s (enc %s) (enc %s)); sx_bool (korderb (enc %s) (enc %s)); "
            "sx_bool (keys_nonneg (enc %s)); sx_bool (ntp_valsb (enc %s) d)]])") % (
        conv_tbl, ud, ops, cfg, b(always), to_coq_o(t1), to_coq_o(t2),
        DC.coq_paths(rem), DC.coq_paths(add), to_coq_o(t1),
        DC.coq_paths(rrem), DC.coq_paths(radd), to_coq_o(t2), cor,
        cfg, b(always), to_coq_o(t2), to_coq_o(t1), to_coq_o(t1), to_coq_o(t2), to_coq_o(t1), to_coq_o(t2))


def corrupt_base(rng, t1, dd_tree):
    """t1 with the old value at one values_changed location replaced by another scalar (None when there is none)"""
    from deepdiff.path import _path_to_elements
    # scalar leaves only: an instance replaced by a scalar makes the ENCODED path of a whole-instance change (one level
    # below the attribute) unresolvable, which the model reports without writing - the implementation writes
    lvs = [lv for lv in (dd_tree.get("values_changed", []) or [])
           if lv.path() != "root" and not has_obj(lv.t1) and not has_obj(lv.t2)
           and not isinstance(lv.t1, (list, dict, set, frozenset, tuple)) and not isinstance(lv.t2, (list, dict, set, frozenset, tuple))]
    if not lvs:
        return None, None
    lv = rng.choice(lvs)
    path = []
    cur = t1
    try:
        for el, act in _path_to_elements(lv.path(), root_element=None):
            if act == "GETATTR":
                path.append(("a", el))
                cur = getattr(cur, el)
            else:
                path.append(("i" if isinstance(cur, (list, tuple)) else "k", el))
                cur = cur[el]
    except Exception:
        return None, None
    new = "corrupted" if lv.t1 != "corrupted" else "corrupted2"
    try:
        return set_at_o(copy.deepcopy(t1), tuple(path), new), lv.path()
    except Exception:
        return None, None


def c08_pair(ctx, t1, t2, cases, corr=True):
    from deepdiff import DeepDiff, Delta
    zip_ = ctx.rng.random() < 0.4
    thr = ctx.rng.choice(THRS)
    always = ctx.rng.random() < 0.3
    cfg = dict(zip=zip_, thr=thr, bidirectional=True, always_include_values=always, prop="C08")
    a, b = copy.deepcopy(t1), copy.deepcopy(t2)
    r, _unmod = run_dd(a, b, view="tree", zip_ordered_iterables=zip_, threshold_to_diff_deeper=thr)
    if isinstance(r, Exception):
        return
    conv_tbl = conv_table_o(r)
    dd = DeepDiff(a, b, zip_ordered_iterables=zip_, threshold_to_diff_deeper=thr)
    try:
        delta = Delta(dd, bidirectional=True, always_include_values=always, raise_errors=False)
        oneway = Delta(dd, bidirectional=False, always_include_values=always, raise_errors=False)
    except Exception as e:
        ctx.fail(_case(t1, t2, clause="Delta() raised " + type(e).__name__, **cfg), "Delta(diff) raised " + repr(e))
        return
    ctx.seen(("c08", repr(t1), repr(t2), zip_, thr, always), nontrivial=bool(dd))
    case = _case(t1, t2, **cfg)
    # a one-way delta refuses the subtraction (C08 clause 1)
    try:
        copy.deepcopy(t2) - oneway
        case["clause"] = "one-way delta accepted a subtraction"
        ctx.fail(case, "t2 - Delta(diff, bidirectional=False) did not raise")
    except ValueError:
        ctx.count("obj_c08:one_way_refused")
    except Exception as e:
        case["clause"] = "one-way subtraction raised " + type(e).__name__
        ctx.fail(case, "t2 - one-way delta raised %r instead of ValueError" % (e,))
    with DC.Counting() as c1:
        try:
            fwd, e1 = copy.deepcopy(t1) + delta, None
        except Exception as e:
            fwd, e1 = None, e
    with DC.Counting() as c2:
        try:
            back, e2 = copy.deepcopy(t2) - delta, None
        except Exception as e:
            back, e2 = None, e
    if e1 is not None or e2 is not None:
        case["clause"] = "bidirectional delta raised"
        ctx.fail(case, "t1 + d raised %r / t2 - d raised %r" % (e1, e2))
        return
    rd = Delta(dd, bidirectional=True, always_include_values=always, raise_errors=False)
    rd.diff = rd._get_reverse_diff()
    obs = slots_attr_removed(t1, t2, delta.diff) or slots_attr_removed(t2, t1, rd.diff) \
        or identity_item_removed(delta.diff) or identity_item_removed(rd.diff)
    structural = no_tuple_parent(t1) and no_tuple_parent(t2) and not hidden_private(t1) and not hidden_private(t2) and in_guard(t1, t2)
    if obs:
        ctx.count("obj_c08:OBJ1_or_OBJ2")
        return
    if not structural:
        ctx.count("obj_c08:outside_structural_guard")
        return
    e1v, e2v = enc_py(t1), enc_py(t2)
    hyp = [DC.guardsb_py(e2v, e1v, True, always), korder_py(e1v, e2v), keys_nonneg_py(e1v), ntp_vals_o(t2, delta)]
    g12 = DC.guardsb_py(e1v, e2v, True, always)
    for name, h in zip(("guards_t2_t1", "korder", "keys_nonneg_t1", "ntp_vals"), hyp):
        ctx.count("obj_c08:hyp:%s_%s" % (name, "true" if h else "false"))
    inside = all(hyp) and g12 and thr > 0
    ctx.count("obj_c08:hyp:all_hold" if inside else "obj_c08:hyp:some_fail")
    ok_back = oeq(back, t1) and not c2.n
    ok_fwd = oeq(fwd, t2) and not c1.n
    ctx.count("obj_c08:back_gives_t1" if ok_back else "obj_c08:back_differs_or_errors")
    if inside and not (ok_back and ok_fwd):
        # inside every data guard of C08_objects_add_and_sub the model goes forth and back exactly
        case["clause"] = "forth and back differs inside the guards"
        case["errors"] = [c1.n, c2.n]
        ctx.fail(case, "inside the guards of the object inversion theorem: t1 + d = %r, t2 - d = %r" % (fwd, back))
    # a corrupted base must be reported (C08 clause 3)
    cbase, cpath = corrupt_base(ctx.rng, t1, r)
    cres = None
    if cbase is not None:
        with DC.Counting() as c3:
            try:
                cres = copy.deepcopy(cbase) + delta
            except Exception:
                cres = None
        if cres is not None:
            ctx.count("obj_c08:corrupted_base_cases")
            if not c3.n:
                case["clause"] = "corrupted base accepted"
                case["corrupted_path"] = cpath
                ctx.fail(case, "the base differs from t1 at %s and t1' + d logged no error" % cpath)
    if corr:
        rem, add = impl_orders_o(delta, t1, t2)
        rrem, radd = impl_orders_o(rd, t2, t1)
        exp = [[canon_o(fwd, True), c1.n > 0], [canon_o(back, True), c2.n > 0],
               "none" if cres is None else [canon_o(cres, True), c3.n > 0], hyp]
        cases.append((model_c08_expr(t1, t2, zip_, thr, always, conv_tbl, rem, add, rrem, radd, cbase if cres is not None else None),
                      exp, dict(t1=repr(t1), t2=repr(t2), block="Obj", what="t1+d / t2-d / corrupted+d / guards", **cfg)))


def stream_c08(ctx, n=None):
    cases = []
    for _ in range(n or n_pairs(ctx, 160, 1000)):
        t1, t2, ks = gen_pair(ctx.rng, classes=C08_CLASSES, kinds=C01_KINDS, share=0)
        if ctx.rng.random() < 0.6:
            # one more changed attribute value: a location for the corrupted-base clause
            cand = [(p, k) for p in positions_o(t2) if is_obj(get_at_o(t2, p))
                    for k, x in attrs_of(get_at_o(t2, p)) if type(x) in (int, str)]
            if cand:
                p, k = ctx.rng.choice(cand)
                x = getattr(get_at_o(t2, p), k)
                t2, ks = copy.deepcopy(set_at_o(t2, p + (("a", k),), x + 1 if type(x) is int else x + "!")), ks + ["scalar_attr_changed"]
        _count_pair(ctx, "obj_c08", t1, t2, ks)
        c08_pair(ctx, t1, t2, cases)
    for c in cases[:2]:
        ctx.sample(c[2])
    ctx.coq_cases("obj_c08", HDR8, cases, shard=80, label="obj_bidirectional(C08)")


# ---------------------------------------------------------------------------
# C10 (views of one result agree) on values with instances: pretty() statements and to_dict(view_override) against
# the tree; attribute_added / attribute_removed in every view.  Wired as `with ctx.extension("Obj"): O.stream_c10(ctx)`
# ---------------------------------------------------------------------------

HDR10 = HDR[:-1] + " Obj.ObjViews."


def model_pretty_expr(t1, t2, zip_, thr, verbose):
    ud, ops = _tables(t1, t2)
    return "sx_opretty (opretty %d (fst (orun hatom_deep (tbl_udiff %s) (tbl_ops %s) %s %s %s)))" % (
        verbose, ud, ops, D.coq_cfg(zip_, thr, True), to_coq_o(t1), to_coq_o(t2))


def repr_modelled(v):
    """the model's repr of instances is Cls(a=repr, ...); floats / strings as in the Views model (harness pools)"""
    return True


_PRETTY_MARK = "\x01<S>\x02"


def pretty_statements_o(dd):
    """the statements of pretty(), split on the statement structure (pretty(prefix=MARK) puts MARK in front of every
    statement) and not on newlines, which may be part of a rendered value ('a\\nc\\n'); empty statements dropped as before.
    The plain pretty() text must be the marked text without the marks."""
    marked = dd.pretty(prefix=_PRETTY_MARK)
    if dd.pretty() != marked.replace(_PRETTY_MARK, ""):
        raise ValueError("pretty() and pretty(prefix=...) give different texts")
    if marked == "":
        return []
    if not marked.startswith(_PRETTY_MARK):
        raise ValueError("pretty(prefix=...) does not start with the prefix")
    return [l for l in marked[len(_PRETTY_MARK):].split("\n" + _PRETTY_MARK) if l]


def c10_pair(ctx, t1, t2, cases, corr=True):
    thr = ctx.rng.choice(THRS)
    zip_ = ctx.rng.random() < 0.3
    verbose = ctx.rng.choice((0, 1, 2))
    cfg = dict(zip=zip_, thr=thr, verbose_level=verbose, prop="C10")
    a, b = copy.deepcopy(t1), copy.deepcopy(t2)
    kw = dict(zip_ordered_iterables=zip_, threshold_to_diff_deeper=thr, verbose_level=verbose)
    tr, _ = run_dd(a, b, view="tree", **kw)
    tx, _ = run_dd(copy.deepcopy(t1), copy.deepcopy(t2), **kw)
    if isinstance(tr, Exception) or isinstance(tx, Exception):
        ctx.fail(_case(t1, t2, clause="DeepDiff raised", **cfg), "DeepDiff raised %r / %r" % (tr, tx))
        return
    ctx.seen(("c10", repr(t1), repr(t2), zip_, thr, verbose), nontrivial=bool(tx))
    case = _case(t1, t2, **cfg)
    try:
        lines_tree = pretty_statements_o(tr)
        lines_text = pretty_statements_o(tx)
        d_over = tr.to_dict(view_override="text")
        d_text = tx.to_dict()
    except Exception as e:
        case["clause"] = "a view raised " + type(e).__name__
        ctx.fail(case, "pretty() / to_dict() raised %r" % (e,))
        return
    # the views of ONE result agree (direct oracle)
    if sorted(lines_tree) != sorted(lines_text):
        case["clause"] = "pretty() of the tree view and of the text view differ"
        ctx.fail(case, "pretty() differs between view='tree' and view='text'")
    if text_obs_o(d_over) != text_obs_o(d_text) or text_obs_o(d_text) != text_obs_o(tx):
        case["clause"] = "to_dict(view_override='text') differs from the text view"
        ctx.fail(case, "to_dict(view_override='text') of the tree view is not the text view")
    n_levels = sum(len(tr.get(k, []) or []) for k in KINDS_O if k != "iterable_item_moved")
    if len(lines_tree) != n_levels:
        case["clause"] = "pretty() does not have one statement per level"
        ctx.fail(case, "pretty() has %d statements for %d levels" % (len(lines_tree), n_levels))
    for cat, word in (("attribute_added", "added."), ("attribute_removed", "removed.")):
        for lv in tr.get(cat, []) or []:
            p = lv.path()
            ctx.count("obj_c10:" + cat)
            items = tx.get(cat, {})
            val = lv.t2 if cat == "attribute_added" else lv.t1
            if p not in items:
                case["clause"] = cat + " level missing in the text view"
                ctx.fail(case, "%s %s is in the tree and not in the text view" % (cat, p))
            elif verbose >= 2 and not (isinstance(items, dict) and oeq(items[p], val)):
                case["clause"] = cat + " value differs in the text view"
                ctx.fail(case, "%s %s: the text view does not carry the level's value" % (cat, p))
            elif verbose < 2 and isinstance(items, dict):
                case["clause"] = cat + " carries a value below verbose_level 2"
                ctx.fail(case, "%s %s carries a value at verbose_level %d" % (cat, p, verbose))
            if not any(l.startswith("Attribute " + p + " ") and l.endswith(word) for l in lines_tree):
                case["clause"] = cat + " statement missing in pretty()"
                ctx.fail(case, "pretty() has no statement for %s %s" % (cat, p))
    for kind in KINDS_O:
        for lv in tr.get(kind, []) or []:
            if kind.startswith("set_item") or kind == "iterable_item_moved":
                continue
            if not any(lv.path() in l for l in lines_tree):
                case["clause"] = "pretty() does not name a level's path"
                ctx.fail(case, "no statement of pretty() names %s" % lv.path())
    if corr and in_guard(t1, t2):
        cases.append((model_pretty_expr(t1, t2, zip_, thr, verbose), sx_sorted(lines_tree),
                      dict(t1=repr(t1), t2=repr(t2), block="Obj", what="pretty()", **cfg)))
        tcase, _r, _ = text_case(t1, t2, zip_, thr, verbose)
        if tcase is not None:
            cases.append((tcase[0], text_obs_o(d_over), dict(tcase[2], what="to_dict(view_override='text') of the tree view", prop="C10")))


def stream_c10(ctx, n=None):
    cases = []
    for _ in range(n or n_pairs(ctx, 150, 1000)):
        t1, t2, ks = gen_pair(ctx.rng)
        _count_pair(ctx, "obj_c10", t1, t2, ks)
        c10_pair(ctx, t1, t2, cases)
    for c in cases[:2]:
        ctx.sample(c[2])
    ctx.coq_cases("obj_c10", HDR10, cases, shard=100, label="obj_pretty+to_dict(C10)")


# ---------------------------------------------------------------------------
# C09
# ---------------------------------------------------------------------------

import re as _re
_ESC = "\U0001d1c0"


def key_ok_py(k):
    """mirror of Path.PathModel.key_ok on a dict key"""
    if isinstance(k, str):
        return not ("'" in k and '"' in k) and not k.endswith(_ESC)
    if isinstance(k, bytes):
        return all(32 <= ch <= 126 and ch != 92 for ch in k) and not (b"'" in k and b'"' in k)
    if isinstance(k, float):
        return abs(2 * k) < 2 ** 53
    return True


def attr_ok_py(s):
    """mirror of Obj.ObjPathText.attr_ok"""
    return bool(_re.fullmatch(r"[A-Za-z_][A-Za-z0-9_]*", s)) and not s.startswith("__") and s not in ("None", "True", "False")


def okeys_ok_py(v):
    """mirror of Obj.ObjTextPaths.okeys_ok: the guard of C04_objects_text_paths_extract_partial"""
    if is_obj(v):
        return all(attr_ok_py(k) and okeys_ok_py(x) for k, x in attrs_of(v))
    if isinstance(v, (list, tuple)):
        return all(okeys_ok_py(x) for x in v)
    if isinstance(v, dict):
        return all(key_ok_py(k) and okeys_ok_py(x) for k, x in v.items())
    return True


def opath_ok_py(cp):
    """mirror of Obj.ObjPathText.opath_ok on a canonical path"""
    return all(attr_ok_py(x) if tag == "a" else (True if tag == "x" else key_ok_py(D.uncanon_atom(x))) for tag, x in cp)


HDR9 = HDR[:-1] + " Obj.ObjPathText Obj.ObjTextPaths."


def model_path_expr(cp):
    items = []
    for tag, x in cp:
        if tag == "x":
            items.append("OIdx %d" % x)
        elif tag == "a":
            items.append("OAttr " + coq_pystr(x))
        else:
            items.append("OKey " + V.atom_to_coq(D.uncanon_atom(x)))
    return coq_list(items)


def c09_pair(ctx, t1, t2, cases, corr=True):
    from deepdiff import extract, parse_path
    thr = ctx.rng.choice(THRS)
    a, b = copy.deepcopy(t1), copy.deepcopy(t2)
    r, unmod = run_dd(a, b, view="tree", threshold_to_diff_deeper=thr)
    if isinstance(r, Exception):
        return
    n = 0
    # the guard of the text-path theorem (C04_objects_text_paths_extract_partial) observed on the inputs, as Coq booleans
    gk = [okeys_ok_py(t1), okeys_ok_py(t2)]
    ctx.count("obj_c09:hyp:okeys_ok_" + ("true" if all(gk) else "false"))
    if corr:
        cases.append(("SL [sx_bool (okeys_ok %s); sx_bool (okeys_ok %s)]" % (to_coq_o(t1), to_coq_o(t2)), gk,
                      dict(t1=repr(t1), t2=repr(t2), block="Obj", what="okeys_ok (guard of the text-path theorem)")))
    for kind in KINDS_O:
        for lv in r.get(kind, []) or []:
            if kind.startswith("set_item"):
                continue
            for use_t2, root, leaf in ((False, a, lv.t1), (True, b, lv.t2)):
                if leaf is D.notpresent():
                    continue
                ps = lv.path(use_t2=use_t2)
                cp = canon_opath_from_chain(lv, use_t2=use_t2)
                n += 1
                case = _case(t1, t2, path=ps, kind=kind, use_t2=use_t2, thr=thr, prop="C09")
                try:
                    got = extract(root, ps)
                except Exception as e:
                    case["clause"] = "extract raised " + type(e).__name__
                    ctx.fail(case, "extract(root, %r) raised %r" % (ps, e))
                    continue
                if got is not leaf and not (oeq(got, leaf)):
                    case["clause"] = "extract gives another value"
                    ctx.fail(case, "extract(root, %r) is not the reported object" % ps)
                # parse_path agrees with the chain (elements and actions)
                try:
                    els = parse_path(ps, include_actions=True)
                except Exception as e:
                    case["clause"] = "parse_path raised " + type(e).__name__
                    ctx.fail(case, "parse_path(%r) raised %r" % (ps, e))
                    continue
                want = [{"element": (x if tag != "k" else D.uncanon_atom(x)), "action": "GETATTR" if tag == "a" else "GET"} for tag, x in cp]
                if [(e["element"], e["action"]) for e in els] != [(e["element"], e["action"]) for e in want]:
                    case["clause"] = "parse_path differs from the chain"
                    ctx.fail(case, "parse_path(%r) = %r, chain = %r" % (ps, els, want))
                pok = opath_ok_py(cp)
                if all(gk) and not pok:
                    # the theorem's conclusion, on a real reported path
                    ctx.break_("correspondence", {"name": "obj_c09 theorem instance", "case": case,
                                                  "detail": "okeys_ok holds of both inputs and a reported path fails opath_ok"})
                if corr:
                    cases.append(("SL [sx_opath_text %s %s; sx_bool (opath_ok %s)]" % (to_coq_o(t2 if use_t2 else t1), model_path_expr(cp), model_path_expr(cp)),
                                  [[ps, ["Some", canon_o(leaf)]], pok],
                                  dict(t1=repr(t1), t2=repr(t2), block="Obj", path=ps, what="orender / oresolve / opath_ok")))
    ctx.seen(("c09", repr(t1), repr(t2), thr), nontrivial=n > 0)
    ctx.count("obj_c09:paths", n)


def stream_c09(ctx, n=None):
    cases = []
    for _ in range(n or n_pairs(ctx, 150, 1000)):
        t1, t2, ks = gen_pair(ctx.rng)
        _count_pair(ctx, "obj_c09", t1, t2, ks)
        c09_pair(ctx, t1, t2, cases)
    ctx.coq_cases("obj_c09", HDR9, cases, shard=300, label="obj_path_text(C09)")


def replay_case(ctx, case):
    """re-run the direct oracles on one recorded case (no correspondence)"""
    t1, t2 = eval(case["t1"], dict(EVAL_ENV)), eval(case["t2"], dict(EVAL_ENV))
    prop = case.get("prop")
    if prop == "C04":
        c04_pair(ctx, t1, t2, [], corr=False)
    elif prop == "C01":
        c01_pair(ctx, t1, t2, [], corr=False)
    elif prop == "C09":
        c09_pair(ctx, t1, t2, [], corr=False)
    elif prop == "C08":
        c08_pair(ctx, t1, t2, [], corr=False)
    elif prop == "C10":
        c10_pair(ctx, t1, t2, [], corr=False)
    else:
        c02_pair(ctx, t1, t2, [], corr=False)

"""Shared by the ordered-diff properties (C01-C04, C08, C10, C13): running
DeepDiff, canonicalising its tree view, emitting model expressions."""
import copy
import difflib
import logging

from harness import values as V
from harness.core import coq_pystr, coq_list

logging.disable(logging.CRITICAL)

KINDS = ["type_changes", "values_changed", "dictionary_item_added", "dictionary_item_removed",
         "iterable_item_added", "iterable_item_removed", "iterable_item_moved",
         "set_item_added", "set_item_removed", "repetition_change"]


def notpresent():
    from deepdiff.helper import notpresent as np_
    return np_


def canon_path_from_chain(level, use_t2=False):
    """Key sequence of a tree level, typed: ["x", i] for a sequence index,
    ["k", atom] for a dict key.  Follows the chain from the root like
    DiffLevel.path does (t1 side, or t2 side with use_t2)."""
    out = []
    lv = level.all_up
    while lv is not None and lv is not level:
        rel = (lv.t2_child_rel or lv.t1_child_rel) if use_t2 else (lv.t1_child_rel or lv.t2_child_rel)
        if rel is None:
            break
        parent = rel.parent
        if isinstance(parent, (list, tuple)):
            out.append(["x", rel.param])
        elif isinstance(parent, dict):
            out.append(["k", V.canon_atom(rel.param)])
        else:
            break   # set item: inaccessible relationship, path of the set
        lv = lv.down
    return out


def canon_opt(v):
    return None if v is notpresent() else ["Some", V.canon(v)]


def tree_obs(dd_tree):
    """Canonical observable of a tree-view result: sorted entries."""
    from harness.core import sx_sorted
    out = []
    for kind in KINDS:
        for lv in dd_tree.get(kind, []) or []:
            d = lv.additional.get("diff") if isinstance(lv.additional, dict) else None
            out.append([kind, canon_path_from_chain(lv), canon_path_from_chain(lv, use_t2=True),
                        canon_opt(lv.t1), canon_opt(lv.t2), None if d is None else ["Some", d]])
    return sx_sorted(out)


def coq_pathc(cp):
    """canonical path (list of ["x", i] / ["k", canon_atom]) -> Coq term of type path"""
    items = []
    for tag, x in cp:
        if tag == "x":
            items.append("PIdx %d" % x)
        else:
            items.append("PKey " + V.atom_to_coq(uncanon_atom(x)))
    return coq_list(items)


def uncanon_atom(c):
    if c is None:
        return None
    t, x = c
    if t == "b":
        return bool(x)
    if t == "i":
        return x
    if t == "f":
        return x / 2
    if t == "s":
        return x
    if t == "y":
        return x.encode("latin-1")
    raise ValueError(c)


def py_path(cp):
    return [x if tag == "x" else uncanon_atom(x) for tag, x in cp]


def all_atoms(seq):
    return all(not isinstance(x, (list, tuple, dict, set, frozenset)) for x in seq)


def opcode_table(t1, t2, path=()):
    """difflib opcodes for every pair of all-atom sequences found at the same
    path in t1 and t2 (what _diff_ordered_iterable_by_difflib would compute
    there), as [(canonical path, opcodes)]."""
    out = []
    if type(t1) is not type(t2):
        return out
    if isinstance(t1, (list, tuple)):
        if all_atoms(t1) and all_atoms(t2):
            ops = difflib.SequenceMatcher(isjunk=None, a=t1, b=t2, autojunk=False).get_opcodes()
            out.append((list(path), ops))
        else:
            for i, (x, y) in enumerate(zip(t1, t2)):
                out += opcode_table(x, y, path + (["x", i],))
    elif isinstance(t1, dict):
        for k2 in t2:
            if k2 in t1:
                out += opcode_table(t1[k2], t2[k2], path + (["k", V.canon_atom(k2)],))
    return out


TAGS = {"equal": "OEqual", "replace": "OReplace", "delete": "ODelete", "insert": "OInsert"}


def coq_ops_table(tbl):
    return coq_list("(%s, %s)" % (coq_pathc(p), coq_list("mkOp %s %d %d %d %d" % (TAGS[o[0]], o[1], o[2], o[3], o[4]) for o in ops))
                    for p, ops in tbl)


def multiline_strings(v, acc):
    if isinstance(v, (str, bytes)):
        s = v if isinstance(v, str) else v.decode("latin-1")
        acc.add((s, isinstance(v, bytes)))
    elif isinstance(v, (list, tuple, set, frozenset)):
        for x in v:
            multiline_strings(x, acc)
    elif isinstance(v, dict):
        for x in v.values():
            multiline_strings(x, acc)


def udiff_table(t1, t2):
    """unified diff text for every pair (string of t1, string of t2) of the same
    type where one contains a newline (the only pairs _diff_str can ask for)."""
    a, b = set(), set()
    multiline_strings(t1, a)
    multiline_strings(t2, b)
    out = []
    for (s, sb) in a:
        for (t, tb) in b:
            if sb == tb and s != t and ("\n" in s or "\n" in t):
                d = "\n".join(difflib.unified_diff(s.splitlines(), t.splitlines(), lineterm=""))
                out.append((s, t, d))
    return out


def coq_udiff_table(tbl):
    return coq_list("(%s, %s, %s)" % (coq_pystr(s), coq_pystr(t), coq_pystr(d)) for s, t, d in tbl)


def coq_cfg(zip_, thr, ignore_private=True):
    num, den = {0: (0, 1), 0.33: (33, 100), 0.9: (9, 10), 0.5: (1, 2), 1: (1, 1)}[thr]
    return "(mkCfg %s %d %d %s)" % ("true" if zip_ else "false", num, den, "true" if ignore_private else "false")


def tag_unsafe(*vals):
    """strings that collide with the serialisation of another value in DeepHash
    (finding K1) - only matters for set members"""
    bad = False

    def walk(v):
        nonlocal bad
        if isinstance(v, (set, frozenset)):
            for x in v:
                if isinstance(x, str) and (x in ("NONE",) or ":" in x):
                    bad = True
        elif isinstance(v, (list, tuple)):
            for x in v:
                walk(x)
        elif isinstance(v, dict):
            for x in v.values():
                walk(x)
    for v in vals:
        walk(v)
    return bad


def set_alias(*vals):
    """two == atoms of different type anywhere among set members of the inputs
    (the shared DeepHash table then serves one hash for both)"""
    atoms = []

    def walk(v):
        if isinstance(v, (set, frozenset)):
            atoms.extend(v)
        elif isinstance(v, (list, tuple)):
            for x in v:
                walk(x)
        elif isinstance(v, dict):
            for x in v.values():
                walk(x)
    for v in vals:
        walk(v)
    nums = {}
    for a in atoms:
        if isinstance(a, (bool, int, float)):
            nums.setdefault(a, set()).add(type(a))
    return any(len(t) > 1 for t in nums.values())


def snapshot(v):
    return V.canon(v)


def run_deepdiff(t1, t2, _nocopy=False, **kw):
    """DeepDiff on fresh copies (or, with _nocopy, on the objects given: deepcopy can change a
    set's iteration order, which is observable when two members of one set hash alike - the
    model must then be fed the very objects that were diffed);
    returns (result or exception, inputs_unmodified)."""
    from deepdiff import DeepDiff
    a, b = (t1, t2) if _nocopy else (copy.deepcopy(t1), copy.deepcopy(t2))
    sa, sb = snapshot(a), snapshot(b)
    try:
        r = DeepDiff(a, b, **kw)
    except Exception as e:  # noqa
        return e, (snapshot(a) == sa and snapshot(b) == sb)
    return r, (snapshot(a) == sa and snapshot(b) == sb)


MODEL_HDR = "From DD Require Import Base.PyStr Base.Value Path.PathModel Diff.Tree Diff.DiffModel Diff.TextView Diff.DiffShow."


def recorded_opcode_paths(dd, t1):
    """canonical paths of the lists whose opcodes DeepDiff recorded"""
    from deepdiff.path import _path_to_elements
    from harness.core import sx_sorted
    recp = []
    for ps in dd._iterable_opcodes.keys():
        els = _path_to_elements(ps, root_element=None)
        cur, cp = t1, []
        for el, _act in els:
            if isinstance(cur, (list, tuple)):
                cp.append(["x", el])
            else:
                cp.append(["k", V.canon_atom(el)])
            cur = cur[el]
        recp.append(cp)
    return sx_sorted(recp)


def model_tree_expr(t1, t2, zip_, thr, ignore_private=True, skip="no_paths", excl="no_paths"):
    return "sx_tree (run_diff hatom_deep (tbl_udiff %s) (tbl_ops %s) %s %s %s %s %s)" % (
        coq_udiff_table(udiff_table(t1, t2)), coq_ops_table(opcode_table(t1, t2)), skip, excl,
        coq_cfg(zip_, thr, ignore_private), V.to_coq(t1), V.to_coq(t2))


def in_model_guard(t1, t2):
    """inputs on which the simple injective stand-in for DeepHash on set members
    is faithful: no == atoms of different type among set members, no strings
    that collide with a type tag (finding K1)"""
    # tag-like strings (finding K1) are inside the model since the set-member hash is
    # HashModel.hash_atom; only the ==-keyed memo (K2) is not modelled
    return not set_alias(t1, t2)


def tree_case(t1, t2, zip_, thr, **kw):
    """(coq expr, expected observable, tag) for one DeepDiff tree-view run, or
    None when DeepDiff raised (returned separately)."""
    t1, t2 = copy.deepcopy(t1), copy.deepcopy(t2)     # the model sees exactly the objects that are diffed
    r, unmod = run_deepdiff(t1, t2, _nocopy=True, view="tree", zip_ordered_iterables=zip_, threshold_to_diff_deeper=thr, verbose_level=2, **kw)
    if isinstance(r, Exception):
        return None, r, unmod
    obs = [tree_obs(r), recorded_opcode_paths(r, t1)]
    return (model_tree_expr(t1, t2, zip_, thr), obs, {"t1": repr(t1), "t2": repr(t2), "zip": zip_, "thr": thr}), r, unmod


TYPE_NAMES = {type(None): "NoneType", bool: "bool", int: "int", float: "float", str: "str", bytes: "bytes",
              list: "list", tuple: "tuple", dict: "dict", set: "set", frozenset: "frozenset"}


def _opt(x):
    return None if x is None else ["Some", x]


def text_obs(res):
    """Canonical observable of a text-view result (mirrors DiffShow.sx_text)."""
    from harness.core import sx_sorted
    out = []
    for p, ch in res.get("type_changes", {}).items():
        vals = [V.canon(ch["old_value"]), V.canon(ch["new_value"])] if "old_value" in ch else None
        out.append(["type_changes", p, TYPE_NAMES[ch["old_type"]], TYPE_NAMES[ch["new_type"]], _opt(ch.get("new_path")), _opt(vals)])
    for p, ch in res.get("values_changed", {}).items():
        out.append(["values_changed", p, V.canon(ch["old_value"]), V.canon(ch["new_value"]), _opt(ch.get("new_path")), _opt(ch.get("diff"))])
    for cat in ("dictionary_item_added", "dictionary_item_removed"):
        items = res.get(cat, {})
        if isinstance(items, dict):
            for p, v in items.items():
                out.append([cat, p, ["Some", V.canon(v)]])
        else:
            for p in items:
                out.append([cat, p, None])
    for cat in ("iterable_item_added", "iterable_item_removed"):
        for p, v in res.get(cat, {}).items():
            out.append([cat, p, V.canon(v)])
    for p, ch in res.get("iterable_item_moved", {}).items():
        out.append(["iterable_item_moved", p, ch["new_path"], V.canon(ch["value"])])
    for cat in ("set_item_added", "set_item_removed"):
        for s in res.get(cat, []):
            out.append([cat, s])
    known = {"type_changes", "values_changed", "dictionary_item_added", "dictionary_item_removed", "iterable_item_added",
             "iterable_item_removed", "iterable_item_moved", "set_item_added", "set_item_removed"}
    extra = sorted(set(res.keys()) - known)
    for k in extra:
        out.append(["UNEXPECTED-CATEGORY", k])
    return sx_sorted(out)


def model_text_expr(t1, t2, zip_, thr, verbose, ignore_private=True, skip="no_paths", excl="no_paths"):
    return "sx_text (text_view %d (fst (run_diff hatom_deep (tbl_udiff %s) (tbl_ops %s) %s %s %s %s %s)))" % (
        verbose, coq_udiff_table(udiff_table(t1, t2)), coq_ops_table(opcode_table(t1, t2)), skip, excl,
        coq_cfg(zip_, thr, ignore_private), V.to_coq(t1), V.to_coq(t2))


def text_case(t1, t2, zip_, thr, verbose, ignore_private=True, **kw):
    t1, t2 = copy.deepcopy(t1), copy.deepcopy(t2)     # the model sees exactly the objects that are diffed
    r, unmod = run_deepdiff(t1, t2, _nocopy=True, zip_ordered_iterables=zip_, threshold_to_diff_deeper=thr, verbose_level=verbose,
                            ignore_private_variables=ignore_private, **kw)
    if isinstance(r, Exception):
        return None, r, unmod
    return (model_text_expr(t1, t2, zip_, thr, verbose, ignore_private), text_obs(r),
            {"t1": repr(t1), "t2": repr(t2), "zip": zip_, "thr": thr, "verbose": verbose, "view": "text"}), r, unmod


# ---------------------------------------------------------------------------
# the memo-threaded model (Diff/DiffMemo.v): DeepDiff's run-wide ==-keyed DeepHash table
# is part of the model, so pairs with ==-aliased set members (finding K2) are inside it
# ---------------------------------------------------------------------------

MODEL_HDR_M = MODEL_HDR + "\nFrom DD Require Import Diff.DiffMemo Diff.DiffMemoShow."


def memo_tree_expr(t1, t2, zip_, thr, ignore_private=True, skip="no_paths", excl="no_paths"):
    return "sx_tree (run_diff_memo (tbl_udiff %s) (tbl_ops %s) %s %s %s %s %s)" % (
        coq_udiff_table(udiff_table(t1, t2)), coq_ops_table(opcode_table(t1, t2)), skip, excl,
        coq_cfg(zip_, thr, ignore_private), V.to_coq(t1), V.to_coq(t2))


def memo_text_expr(t1, t2, zip_, thr, verbose, ignore_private=True, skip="no_paths", excl="no_paths"):
    return "sx_text (text_view %d (fst (run_diff_memo (tbl_udiff %s) (tbl_ops %s) %s %s %s %s %s)))" % (
        verbose, coq_udiff_table(udiff_table(t1, t2)), coq_ops_table(opcode_table(t1, t2)), skip, excl,
        coq_cfg(zip_, thr, ignore_private), V.to_coq(t1), V.to_coq(t2))


def memo_tree_case(t1, t2, zip_, thr, **kw):
    """like tree_case, against run_diff_memo (valid for every pair of the universe, aliased or not)"""
    t1, t2 = copy.deepcopy(t1), copy.deepcopy(t2)     # the model sees exactly the objects that are diffed
    r, unmod = run_deepdiff(t1, t2, _nocopy=True, view="tree", zip_ordered_iterables=zip_, threshold_to_diff_deeper=thr, verbose_level=2, **kw)
    if isinstance(r, Exception):
        return None, r, unmod
    obs = [tree_obs(r), recorded_opcode_paths(r, t1)]
    return (memo_tree_expr(t1, t2, zip_, thr), obs,
            {"t1": repr(t1), "t2": repr(t2), "zip": zip_, "thr": thr, "view": "tree", "model": "run_diff_memo"}), r, unmod


def memo_text_case(t1, t2, zip_, thr, verbose, ignore_private=True, **kw):
    t1, t2 = copy.deepcopy(t1), copy.deepcopy(t2)     # the model sees exactly the objects that are diffed
    r, unmod = run_deepdiff(t1, t2, _nocopy=True, zip_ordered_iterables=zip_, threshold_to_diff_deeper=thr, verbose_level=verbose,
                            ignore_private_variables=ignore_private, **kw)
    if isinstance(r, Exception):
        return None, r, unmod
    return (memo_text_expr(t1, t2, zip_, thr, verbose, ignore_private), text_obs(r),
            {"t1": repr(t1), "t2": repr(t2), "zip": zip_, "thr": thr, "verbose": verbose, "view": "text", "model": "run_diff_memo"}), r, unmod

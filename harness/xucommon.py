"""Datetimes, dates, times, timedeltas and Decimals INSIDE the ordered-diff model (block b03: C02 / C03).

Python values <-> the extended universe of coq/theories/Diff/XuValue.v, generators, and the correspondence
streams of DeepDiff with Diff/XuModel.v (run_diff), Diff/XuTextView.v (text_view) and Diff/XuSpec.v (spec_diff):

    gen_pairs(rng, n)            [(t1, t2, kind, is_copy)]
    stream_c02(ctx, pairs)       complete tree view + text view (verbose 1, 2), both list modes, thresholds;
                                 Python == vs py_eq on atoms; DeepHash pre-hash texts of set members
    stream_c03(ctx, pairs)       positional mode: model vs implementation; Coq specification vs implementation on
                                 the pairs where the definition applies literally (all datetimes already UTC-aware)

str() / repr() of the exotic objects are oracles of the model (finite tables emitted per case).
Only fixed-offset tzinfo (datetime.timezone), finite Decimals without a negative zero.
"""
import copy
import datetime
import decimal
import difflib

from harness import core, values as V, diffcommon as D
from harness.core import coq_pystr, coq_Z, coq_list, sx_sorted

EPOCH = datetime.datetime(1970, 1, 1)
EPOCH_DATE = datetime.date(1970, 1, 1)
US = datetime.timedelta(microseconds=1)
UTC = datetime.timezone.utc
EXOTIC = (datetime.date, datetime.time, datetime.timedelta, decimal.Decimal)     # datetime is a date

HDR = ("From DD Require Import Base.PyStr Path.PathModel Diff.XuValue Diff.XuTree Diff.XuModel Diff.XuTextView "
       "Diff.XuSpec Diff.XuHash Diff.XuShow Diff.XuEmpty Diff.XuObs Diff.XuSpecNorm Diff.XuEmptyNorm.")


# ---------------------------------------------------------------------------
# values
# ---------------------------------------------------------------------------

def is_exotic(a):
    return isinstance(a, EXOTIC)


def _off(tz_holder):
    o = tz_holder.utcoffset() if isinstance(tz_holder, datetime.datetime) else tz_holder.utcoffset()
    if o is None:
        return None
    m = o // datetime.timedelta(minutes=1)
    assert datetime.timedelta(minutes=m) == o, "only whole-minute fixed offsets are in the universe"
    return m


def fields(a):
    """(tag, numbers...) of an exotic atom: the constructor arguments of Diff/XuValue.v"""
    if isinstance(a, datetime.datetime):
        return ("dt", (a.replace(tzinfo=None) - EPOCH) // US, _off(a))
    if isinstance(a, datetime.date):
        return ("date", (a - EPOCH_DATE).days)
    if isinstance(a, datetime.time):
        return ("time", ((a.hour * 60 + a.minute) * 60 + a.second) * 10 ** 6 + a.microsecond, _off(a))
    if isinstance(a, datetime.timedelta):
        return ("td", a // US)
    if isinstance(a, decimal.Decimal):
        sign, digits, exp = a.as_tuple()
        assert isinstance(exp, int), "finite Decimals only"
        m = int("".join(map(str, digits)) or "0")
        assert not (sign and m == 0), "no negative zero"
        return ("dec", -m if sign else m, exp)
    raise TypeError(a)


def _optz(o):
    return "None" if o is None else "(Some %s)" % coq_Z(o)


def atom_to_coq(a):
    if not is_exotic(a):
        return V.atom_to_coq(a)
    f = fields(a)
    if f[0] == "dt":
        return "(ADt %s %s)" % (coq_Z(f[1]), _optz(f[2]))
    if f[0] == "date":
        return "(ADate %s)" % coq_Z(f[1])
    if f[0] == "time":
        return "(ATime %s %s)" % (coq_Z(f[1]), _optz(f[2]))
    if f[0] == "td":
        return "(ATd %s)" % coq_Z(f[1])
    return "(ADec %s %s)" % (coq_Z(f[1]), coq_Z(f[2]))


def to_coq(v):
    if isinstance(v, list):
        return "(VList [%s])" % "; ".join(to_coq(x) for x in v)
    if isinstance(v, tuple):
        return "(VTuple [%s])" % "; ".join(to_coq(x) for x in v)
    if isinstance(v, dict):
        return "(VDict [%s])" % "; ".join("(%s, %s)" % (atom_to_coq(k), to_coq(x)) for k, x in v.items())
    if isinstance(v, frozenset):
        return "(VFrozen [%s])" % "; ".join(atom_to_coq(x) for x in v)
    if isinstance(v, set):
        return "(VSet [%s])" % "; ".join(atom_to_coq(x) for x in v)
    return "(VAtom %s)" % atom_to_coq(v)


def canon_atom(a):
    if not is_exotic(a):
        return V.canon_atom(a)
    f = fields(a)
    if f[0] in ("dt", "time"):
        return [f[0], f[1], None if f[2] is None else ["Some", f[2]]]
    return list(f)


def canon(v):
    if isinstance(v, list):
        return ["L", [canon(x) for x in v]]
    if isinstance(v, tuple):
        return ["T", [canon(x) for x in v]]
    if isinstance(v, dict):
        return ["D", [[canon_atom(k), canon(x)] for k, x in v.items()]]
    if isinstance(v, frozenset):
        return ["F", sx_sorted([canon_atom(x) for x in v])]
    if isinstance(v, set):
        return ["S", sx_sorted([canon_atom(x) for x in v])]
    return canon_atom(v)


def atoms_of(v, acc):
    """every atom of v: leaves, set members, dict keys"""
    if isinstance(v, (list, tuple, set, frozenset)):
        for x in v:
            atoms_of(x, acc)
    elif isinstance(v, dict):
        for k, x in v.items():
            acc.append(k)
            atoms_of(x, acc)
    else:
        acc.append(v)
    return acc


# ---------------------------------------------------------------------------
# observables of DeepDiff
# ---------------------------------------------------------------------------

def canon_path_from_chain(level, use_t2=False):
    out = []
    lv = level.all_up
    while lv is not None and lv is not level:
        rel = (lv.t2_child_rel or lv.t1_child_rel) if use_t2 else (lv.t1_child_rel or lv.t2_child_rel)
        if rel is None:
            break
        parent = rel.parent
        if isinstance(parent, (list, tuple)):
            out.append(["x", rel.param])
        elif isinstance(parent, dict):
            out.append(["k", canon_atom(rel.param)])
        else:
            break
        lv = lv.down
    return out


def canon_opt(v):
    return None if v is D.notpresent() else ["Some", canon(v)]


def tree_obs(dd_tree):
    out = []
    for kind in D.KINDS:
        for lv in dd_tree.get(kind, []) or []:
            d = lv.additional.get("diff") if isinstance(lv.additional, dict) else None
            out.append([kind, canon_path_from_chain(lv), canon_path_from_chain(lv, use_t2=True),
                        canon_opt(lv.t1), canon_opt(lv.t2), None if d is None else ["Some", d]])
    return sx_sorted(out)


TYPE_NAMES = dict(D.TYPE_NAMES)
TYPE_NAMES.update({datetime.datetime: "datetime", datetime.date: "date", datetime.time: "time",
                   datetime.timedelta: "timedelta", decimal.Decimal: "Decimal"})


def _opt(x):
    return None if x is None else ["Some", x]


def text_obs(res):
    out = []
    for p, ch in res.get("type_changes", {}).items():
        vals = [canon(ch["old_value"]), canon(ch["new_value"])] if "old_value" in ch else None
        out.append(["type_changes", p, TYPE_NAMES[ch["old_type"]], TYPE_NAMES[ch["new_type"]], _opt(ch.get("new_path")), _opt(vals)])
    for p, ch in res.get("values_changed", {}).items():
        out.append(["values_changed", p, canon(ch["old_value"]), canon(ch["new_value"]), _opt(ch.get("new_path")), _opt(ch.get("diff"))])
    for cat in ("dictionary_item_added", "dictionary_item_removed"):
        items = res.get(cat, {})
        if isinstance(items, dict):
            for p, v in items.items():
                out.append([cat, p, ["Some", canon(v)]])
        else:
            for p in items:
                out.append([cat, p, None])
    for cat in ("iterable_item_added", "iterable_item_removed"):
        for p, v in res.get(cat, {}).items():
            out.append([cat, p, canon(v)])
    for p, ch in res.get("iterable_item_moved", {}).items():
        out.append(["iterable_item_moved", p, ch["new_path"], canon(ch["value"])])
    for cat in ("set_item_added", "set_item_removed"):
        for s in res.get(cat, []):
            out.append([cat, s])
    known = {"type_changes", "values_changed", "dictionary_item_added", "dictionary_item_removed", "iterable_item_added",
             "iterable_item_removed", "iterable_item_moved", "set_item_added", "set_item_removed"}
    for k in sorted(set(res.keys()) - known):
        out.append(["UNEXPECTED-CATEGORY", k])
    return sx_sorted(out)


# ---------------------------------------------------------------------------
# oracle tables
# ---------------------------------------------------------------------------

def coq_pathc(cp):
    items = []
    for tag, x in cp:
        items.append("PIdx %d" % x if tag == "x" else "PKey " + atom_to_coq(x))
    return coq_list(items)


def all_atoms(seq):
    return all(not isinstance(x, (list, tuple, dict, set, frozenset)) for x in seq)


def opcode_table(t1, t2, path=()):
    """[(path as [(tag, python key / index)], difflib opcodes)] for every pair of all-atom sequences at one path"""
    out = []
    if type(t1) is not type(t2):
        return out
    if isinstance(t1, (list, tuple)):
        if all_atoms(t1) and all_atoms(t2):
            out.append((list(path), difflib.SequenceMatcher(isjunk=None, a=t1, b=t2, autojunk=False).get_opcodes()))
        else:
            for i, (x, y) in enumerate(zip(t1, t2)):
                out += opcode_table(x, y, path + (("x", i),))
    elif isinstance(t1, dict):
        for k2 in t2:
            if k2 in t1:
                out += opcode_table(t1[k2], t2[k2], path + (("k", k2),))
    return out


def coq_ops_table(tbl):
    return coq_list("(%s, %s)" % (coq_pathc(p), coq_list("mkOp %s %d %d %d %d" % (D.TAGS[o[0]], o[1], o[2], o[3], o[4]) for o in ops))
                    for p, ops in tbl)


def normalised(a):
    from deepdiff.helper import datetime_normalize
    return datetime_normalize(None, a, default_timezone=UTC)


def oracle_tables(*vals):
    """(reprs, strs, secs) as Coq list literals: repr() and str() of every exotic atom of the inputs and of the
    normalised datetimes; str(time_to_seconds(t)) by time of day"""
    from deepdiff.helper import time_to_seconds
    atoms = []
    for v in vals:
        atoms_of(v, atoms)
    ex, seen = [], set()
    for a in atoms:
        if is_exotic(a):
            for b in ((a, normalised(a)) if isinstance(a, datetime.datetime) else (a,)):
                key = (type(b).__name__, repr(b))
                if key not in seen:
                    seen.add(key)
                    ex.append(b)
    reprs = coq_list("(%s, %s)" % (atom_to_coq(a), coq_pystr(repr(a))) for a in ex)
    strs = coq_list("(%s, %s)" % (atom_to_coq(a), coq_pystr(str(a))) for a in ex)
    secs, seen_us = [], set()
    for a in ex:
        if isinstance(a, datetime.time):
            us = fields(a)[1]
            if us not in seen_us:
                seen_us.add(us)
                secs.append("(%s, %s)" % (coq_Z(us), coq_pystr(str(time_to_seconds(a)))))
    return reprs, strs, coq_list(secs)


def run_expr(t1, t2, zip_, thr, ip):
    reprs, strs, secs = oracle_tables(t1, t2)
    run = "(run_diff (hatom_x %s %s) (tbl_udiff %s) (tbl_ops %s) no_paths no_paths %s %s %s)" % (
        strs, secs, D.coq_udiff_table(D.udiff_table(t1, t2)), coq_ops_table(opcode_table(t1, t2)),
        D.coq_cfg(zip_, thr, ip), to_coq(t1), to_coq(t2))
    return run, reprs, strs


def model_tree_expr(t1, t2, zip_, thr, ip=True):
    return "sx_tree %s" % run_expr(t1, t2, zip_, thr, ip)[0]


def model_text_expr(t1, t2, zip_, thr, verbose, ip=True):
    run, reprs, strs = run_expr(t1, t2, zip_, thr, ip)
    return "sx_text (text_view (tbl_atom %s) (tbl_atom %s) %d (fst %s))" % (reprs, strs, verbose, run)


def spec_n_expr(t1, t2, ip):
    """Diff/XuSpecNorm.v spec_n_diff: the definition with naive datetime leaves read as UTC (no leaf guard)"""
    reprs, strs, _ = oracle_tables(t1, t2)
    return "sx_text (spec_n_diff (tbl_atom %s) (tbl_atom %s) (tbl_udiff %s) %s %s %s)" % (
        reprs, strs, D.coq_udiff_table(D.udiff_table(t1, t2)), "true" if ip else "false", to_coq(t1), to_coq(t2))


def spec_expr(t1, t2, ip):
    reprs, strs, _ = oracle_tables(t1, t2)
    return "sx_text (spec_diff (tbl_atom %s) (tbl_atom %s) (tbl_udiff %s) %s %s %s)" % (
        reprs, strs, D.coq_udiff_table(D.udiff_table(t1, t2)), "true" if ip else "false", to_coq(t1), to_coq(t2))


def recorded_opcode_paths(dd, t1):
    """canonical paths of the lists whose opcodes DeepDiff recorded (keys looked up through the objects:
    the path strings of exotic keys cannot be parsed back)"""
    want = set(dd._iterable_opcodes.keys())
    out = []

    def walk(v, cp, text):
        if text in want and isinstance(v, (list, tuple)):
            out.append(cp)
        if isinstance(v, (list, tuple)):
            for i, x in enumerate(v):
                walk(x, cp + [["x", i]], "%s[%d]" % (text, i))
        elif isinstance(v, dict):
            for k, x in v.items():
                walk(x, cp + [["k", canon_atom(k)]], text + _key_text(k))
    walk(t1, [], "root")
    return sx_sorted(out)


def _key_text(k):
    if isinstance(k, str):
        return '["%s"]' % k if "'" in k else "['%s']" % k
    return "[%r]" % (k,)


# ---------------------------------------------------------------------------
# generators
# ---------------------------------------------------------------------------

TZS = [None, UTC, datetime.timezone(datetime.timedelta(hours=2)), datetime.timezone(datetime.timedelta(hours=-5, minutes=-30))]
MICROS = [0, 1, 500000, 913070]
DECS = ["0", "1", "1.0", "1.00", "-0.5", "0.5", "2.5", "1E+2", "100", "12.345", "-3", "0.10", "1.5"]


KINDS = ("datetime", "date", "time", "timedelta", "Decimal")


def gen_exotic(rng, kind=None):
    kind = kind or rng.choice(KINDS + ("datetime",))
    if kind == "datetime":
        tz = UTC if rng.random() < 0.4 else rng.choice(TZS)
        return datetime.datetime(2024, rng.choice([1, 5]), rng.choice([1, 17]), rng.choice([0, 22]), rng.choice([0, 15]),
                                 rng.choice([0, 34]), rng.choice(MICROS), tzinfo=tz)
    if kind == "date":
        return datetime.date(2024, rng.choice([1, 5]), rng.choice([1, 17]))
    if kind == "time":
        return datetime.time(rng.choice([0, 1, 21]), rng.choice([0, 2, 15]), rng.choice([0, 3, 34]), rng.choice(MICROS), tzinfo=rng.choice(TZS[:3]))
    if kind == "timedelta":
        return datetime.timedelta(days=rng.choice([0, 1, -1]), seconds=rng.choice([0, 7]), microseconds=rng.choice(MICROS))
    return decimal.Decimal(rng.choice(DECS))


def variants(rng, m):
    """[(other, how)]: objects close to m; whether they are == is Python's business"""
    out = [(copy.deepcopy(m), "copy")]
    if isinstance(m, datetime.datetime):
        out += [(m + US, "plus_1us"), (m.replace(microsecond=0), "us_dropped"), (m + datetime.timedelta(seconds=1), "plus_1s")]
        if m.tzinfo is None:
            out += [(m.replace(tzinfo=UTC), "naive_to_aware_utc"), (m.replace(tzinfo=TZS[2]), "naive_to_aware_other")]
        else:
            out += [(m.astimezone(rng.choice(TZS[1:])), "same_instant_other_zone"), (m.replace(tzinfo=None), "aware_to_naive"),
                    (m.replace(tzinfo=rng.choice(TZS[1:])), "other_zone_same_wall_clock"), (m.astimezone(UTC).replace(tzinfo=None), "aware_to_naive_utc_clock")]
        out.append((m.date(), "datetime_to_date"))
    elif isinstance(m, datetime.date):
        out += [(m + datetime.timedelta(days=1), "plus_1day"), (datetime.datetime(m.year, m.month, m.day), "date_to_datetime")]
    elif isinstance(m, datetime.time):
        out += [(m.replace(microsecond=(m.microsecond + 1) % 1000000), "plus_1us"), (m.replace(second=(m.second + 1) % 60), "plus_1s"),
                (m.replace(tzinfo=rng.choice(TZS[:3])), "other_zone_same_wall_clock")]
        if m.tzinfo is UTC:
            out.append((m.replace(hour=m.hour + 2, tzinfo=TZS[2]), "same_instant_other_zone"))
        out.append((m.replace(tzinfo=None) if m.tzinfo is not None else m.replace(tzinfo=UTC), "naive_aware_flipped"))
    elif isinstance(m, datetime.timedelta):
        out += [(m + US, "plus_1us"), (m + datetime.timedelta(seconds=1), "plus_1s"), (-m, "negated")]
    else:
        sign, digits, exp = m.as_tuple()
        out += [(m + decimal.Decimal(1).scaleb(exp), "plus_1ulp"), (decimal.Decimal((sign, digits + (0,), exp - 1)), "same_value_other_exponent")]
        if m == int(m):
            out.append((int(m), "decimal_to_int"))
        if m * 2 == int(m * 2):
            out.append((float(m), "decimal_to_float"))
    return out


def key_renders(k):
    """DeepDiff prints a path through this dict key: model.py stringify_param keeps repr(key) only when
    helper.literal_eval_extended gives the key back - true for naive datetimes, dates and Decimals; for times,
    timedeltas and aware datetimes the WHOLE path is reported as None (logged by DeepDiff as an error; outside the model)"""
    if isinstance(k, datetime.datetime):
        return k.tzinfo is None
    return not isinstance(k, (datetime.time, datetime.timedelta))


def gen_key(rng):
    while True:
        k = gen_exotic(rng)
        if key_renders(k):
            return k


def gen_base_atom(rng):
    return V.gen_atom(rng, strings=["a", "b", "", "x y", "a\nb", "it's"])


def gen_xvalue(rng, depth=2, p_exotic=0.45):
    """nested value with exotic atoms at leaves, in all-atom lists, as set members and (some) dict keys"""
    r = rng.random()
    if depth == 0 or r < 0.25:
        return gen_exotic(rng) if rng.random() < p_exotic else gen_base_atom(rng)
    n = rng.randint(0, 3)
    if r < 0.45:        # all-atom list / tuple (difflib route in default mode)
        items = [gen_exotic(rng) if rng.random() < 0.6 else gen_base_atom(rng) for _ in range(rng.randint(0, 5))]
        return items if rng.random() < 0.7 else tuple(items)
    if r < 0.6:
        xs = [gen_xvalue(rng, depth - 1, p_exotic) for _ in range(n)]
        return xs if rng.random() < 0.6 else tuple(xs)
    if r < 0.8:
        d = {}
        for _ in range(n):
            k = gen_key(rng) if rng.random() < 0.2 else rng.choice(["a", "b", "k", 1, None, "__p"])
            if all(not (k == q) for q in d):
                d[k] = gen_xvalue(rng, depth - 1, p_exotic)
        return d
    members = []
    for _ in range(rng.randint(0, 3)):
        a = gen_exotic(rng) if rng.random() < 0.6 else rng.choice([1, "a", None, 2.5, "b"])
        if all(not (a == q) for q in members):
            members.append(a)
    return set(members) if rng.random() < 0.7 else frozenset(members)


def positions(v, path=()):
    yield path
    if isinstance(v, (list, tuple)):
        for i, x in enumerate(v):
            yield from positions(x, path + (i,))
    elif isinstance(v, dict):
        for k, x in v.items():
            yield from positions(x, path + (k,))


def get_at(v, path):
    for p in path:
        v = v[p]
    return v


def set_at(v, path, new):
    if not path:
        return new
    head, rest = path[0], path[1:]
    if isinstance(v, list):
        return v[:head] + [set_at(v[head], rest, new)] + v[head + 1:]
    if isinstance(v, tuple):
        return v[:head] + (set_at(v[head], rest, new),) + v[head + 1:]
    d = dict(v)
    d[head] = set_at(v[head], rest, new)
    return d


def edit(rng, v):
    """one change somewhere in v: an exotic leaf / set member replaced by a variant, or a sequence item inserted /
    removed / moved.  Returns (value, kind) or (v, None)."""
    pos = list(positions(v))
    rng.shuffle(pos)
    for p in pos:
        sub = get_at(v, p)
        if is_exotic(sub):
            other, how = rng.choice(variants(rng, sub)[1:] or [(sub, None)])
            if how:
                return set_at(v, p, other), "leaf:" + type(sub).__name__ + ":" + how
        if isinstance(sub, (set, frozenset)) and any(is_exotic(x) for x in sub):
            m = rng.choice([x for x in sub if is_exotic(x)])
            other, how = rng.choice(variants(rng, m)[1:] or [(m, None)])
            if how and all(not (other == q) for q in sub if q is not m):
                return set_at(v, p, type(sub)([x for x in sub if x is not m] + [other])), "member:" + type(m).__name__ + ":" + how
        if isinstance(sub, (list, tuple)) and sub and rng.random() < 0.5:
            items = list(sub)
            k = rng.randrange(3)
            if k == 0:
                items.insert(rng.randint(0, len(items)), gen_exotic(rng))
                how = "seq_insert"
            elif k == 1:
                del items[rng.randrange(len(items))]
                how = "seq_delete"
            else:
                x = items.pop(rng.randrange(len(items)))
                items.insert(rng.randint(0, len(items)), x)
                how = "seq_move"
            return set_at(v, p, type(sub)(items)), how
    return v, None


def alias_free(*vals):
    """no set holds, across the two inputs, two members that are == without being the same object value and
    representation (Decimal('1.0') / Decimal('1.00') / 1 / 1.0, equal instants in two zones): then DeepDiff's run-wide
    ==-keyed hash table is not observable and the memo-free model is faithful"""
    members = []

    def walk(v):
        if isinstance(v, (set, frozenset)):
            members.extend(v)
        elif isinstance(v, (list, tuple)):
            for x in v:
                walk(x)
        elif isinstance(v, dict):
            for x in v.values():
                walk(x)
    for v in vals:
        walk(v)
    for i, a in enumerate(members):
        for b in members[i + 1:]:
            try:
                if a == b and canon_atom(a) != canon_atom(b):
                    return False
            except TypeError:
                pass
    return True


def share(rng, v):
    """v with ONE list / dict of it occurring (the same object) at a second position"""
    v = copy.deepcopy(v)
    pos = [p for p in positions(v) if p and isinstance(get_at(v, p), (list, dict))]
    rng.shuffle(pos)
    for i, p in enumerate(pos):
        for q in pos[i + 1:]:
            if p == q[:len(p)] or q == p[:len(q)]:
                continue
            parent = get_at(v, q[:-1])
            if isinstance(parent, (list, dict)) and type(get_at(v, q)) is type(get_at(v, p)):
                parent[q[-1]] = get_at(v, p)
                return v, True
    return v, False


POSITIONS = {
    "bare": lambda x: x,
    "dict_value": lambda x: {"k": x, "z": 0},
    "list_item": lambda x: [1, x],
    "atom_list": lambda x: [x, datetime.date(2024, 1, 1), "s", x],
    "tuple_item": lambda x: (x, "t"),
    "set_member": lambda x: {x, "other", 3},
    "frozenset_member": lambda x: frozenset([x]),
    "dict_key": lambda x: {x: [1, 2], "k": 0},
    "deep": lambda x: {"k": [1, ({x},), [x]]},
}


def gen_pairs(rng, n):
    """(t1, t2, kind, is_copy): per round every kind of exotic atom with all its variants at random positions, plus
    nested values (copy, edits, independent, shared container)"""
    out = []
    for _ in range(n):
        for exo in KINDS:
            m = gen_exotic(rng, exo)
            for other, how in variants(rng, m):
                pos = rng.choice(sorted(POSITIONS))
                if pos == "dict_key" and not (key_renders(m) and key_renders(other)):
                    pos = "list_item"
                if pos == "dict_key" and how != "copy" and rng.random() < 0.5:
                    t1, t2 = {m: [1, 2], "k": 0}, {other: [1, 3], "k": 0}
                else:
                    t1, t2 = POSITIONS[pos](m), POSITIONS[pos](other)
                out.append((t1, t2, "variant:%s:%s@%s" % (type(m).__name__, how, pos), how == "copy"))
        for _k in range(2):
            x = gen_xvalue(rng, depth=2)
            out.append((x, copy.deepcopy(x), "nested:copy", True))
            for _try in range(2):
                y, how = edit(rng, x)
                if how:
                    out.append((x, y, "nested:edit:" + how.split(":")[0], False))
            if rng.random() < 0.4:
                out.append((x, gen_xvalue(rng, depth=2), "nested:independent", False))
            if rng.random() < 0.6:                 # one container object of t1 at two positions (lead's broadcast, point 2)
                xs, ok = share(rng, [x, gen_xvalue(rng, depth=2), {"a": gen_xvalue(rng, depth=1), "b": gen_xvalue(rng, depth=1)}])
                if ok:
                    y, how = edit(rng, copy.deepcopy(xs))
                    out.append((xs, y if how else copy.deepcopy(xs), "nested:shared_container", not how))
    return out


# ---------------------------------------------------------------------------
# streams
# ---------------------------------------------------------------------------

def run_dd(t1, t2, **kw):
    from deepdiff import DeepDiff
    try:
        return DeepDiff(t1, t2, **kw)
    except Exception as e:  # noqa
        return e


def _stable(v):
    for _ in range(8):
        w = copy.deepcopy(v)
        if repr(w) == repr(v):
            return w
        v = w
    return v


def pair_cases(ctx, t1, t2, kind, zips, thrs, verboses, positional_only=False):
    """tree + text correspondence cases for one pair (DeepDiff runs on the very objects given to the model)"""
    cases = []
    tag0 = {"t1": repr(t1)[:300], "t2": repr(t2)[:300], "kind": kind}
    for zip_ in zips:
        for thr in thrs:
            a, b = copy.deepcopy(t1), copy.deepcopy(t2)
            r = run_dd(a, b, view="tree", zip_ordered_iterables=zip_, threshold_to_diff_deeper=thr, verbose_level=2)
            tag = dict(tag0, zip=zip_, thr=thr, view="tree")
            if isinstance(r, Exception):
                cases.append(("SA \"model does not raise\"", "DeepDiff raised " + repr(r)[:200], tag))
                continue
            try:
                obs = [tree_obs(r), recorded_opcode_paths(r, a)]
            except Exception as e:  # noqa  (a value outside the universe in the result: the model never yields one)
                cases.append(("SA \"a result inside the universe\"", "result cannot be canonicalised: " + repr(e)[:200], tag))
                continue
            cases.append((model_tree_expr(a, b, zip_, thr), obs, tag))
            for verbose in verboses:
                ip = ctx.rng.random() < 0.5
                a, b = copy.deepcopy(t1), copy.deepcopy(t2)
                r = run_dd(a, b, zip_ordered_iterables=zip_, threshold_to_diff_deeper=thr, verbose_level=verbose, ignore_private_variables=ip)
                tag = dict(tag0, zip=zip_, thr=thr, view="text", verbose=verbose, ip=ip)
                if isinstance(r, Exception):
                    cases.append(("SA \"model does not raise\"", "DeepDiff raised " + repr(r)[:200], tag))
                    continue
                try:
                    obs = text_obs(r)
                except Exception as e:  # noqa
                    cases.append(("SA \"a result inside the universe\"", "result cannot be canonicalised: " + repr(e)[:200], tag))
                    continue
                cases.append((model_text_expr(a, b, zip_, thr, verbose, ip), obs, tag))
    return cases


def atom_cases(rng, n):
    """Python == vs py_eq, and the DeepHash pre-hash text of exotic atoms"""
    from deepdiff import DeepHash
    cases = []
    pool = [gen_exotic(rng) for _ in range(40)] + [1, 1.0, True, 0, 0.5, 2.5, 100, "a", None, -3, 12]
    for _ in range(n):
        a = rng.choice(pool)
        b = rng.choice([v for v, _h in variants(rng, a)] if is_exotic(a) and rng.random() < 0.7 else pool)
        try:
            eq = bool(a == b)
        except Exception:  # noqa
            continue
        cases.append(("sx_bool (py_eq %s %s)" % (atom_to_coq(a), atom_to_coq(b)), eq, {"what": "py_eq", "a": repr(a), "b": repr(b)}))
    for a in pool:
        if is_exotic(a):
            _r, strs, secs = oracle_tables(a)
            text = DeepHash(a, apply_hash=False)[a]
            cases.append(("sx_str (exotic_text (tbl_atom %s) (tbl_secs %s) %s)" % (strs, secs, atom_to_coq(a)), text,
                          {"what": "DeepHash pre-hash text", "a": repr(a)}))
    # the oracle hypotheses of Diff/XuHashSound.v observed on Python's str(): injective within a kind (on the normalised
    # datetimes), str(seconds) injective in the time of day, and never the same text for a datetime / a time's seconds / a date
    from deepdiff.helper import time_to_seconds
    ex = [a for a in pool if is_exotic(a)]
    dts = {fields(normalised(a)): str(normalised(a)) for a in ex if isinstance(a, datetime.datetime)}
    dates = {fields(a): str(a) for a in ex if isinstance(a, datetime.date) and not isinstance(a, datetime.datetime)}
    tds = {fields(a): str(a) for a in ex if isinstance(a, datetime.timedelta)}
    decs = {fields(a): str(a) for a in ex if isinstance(a, decimal.Decimal)}
    secs = {fields(a)[1]: str(time_to_seconds(a)) for a in ex if isinstance(a, datetime.time)}
    inj = all(len(set(d.values())) == len(d) for d in (dts, dates, tds, decs, secs))
    apart = not (set(dts.values()) & set(secs.values())) and not (set(dts.values()) & set(dates.values())) and not (set(secs.values()) & set(dates.values()))
    cases.append(("sx_bool true", bool(inj and apart), {"what": "str() oracle hypotheses (injective per kind, kinds apart)", "n": len(ex)}))
    return cases


def _has_private(v):
    if isinstance(v, dict):
        return any((isinstance(k, str) and k.startswith("__")) or _has_private(x) for k, x in v.items())
    if isinstance(v, (list, tuple)):
        return any(_has_private(x) for x in v)
    return False


def set_members(*vals):
    out = []

    def walk(v):
        if isinstance(v, (set, frozenset)):
            out.extend(v)
        elif isinstance(v, (list, tuple)):
            for x in v:
                walk(x)
        elif isinstance(v, dict):
            for x in v.values():
                walk(x)
    for v in vals:
        walk(v)
    return out


def hypothesis_cases(t1, t2, tag):
    """the hash hypothesis of C02x_empty_sound_partial OBSERVED: on the set members of this pair that satisfy the guard
    [ok_x k] (both k) the model of the real item hash gives equal hashes only to ==-equal members; and Python agrees
    with the model's ok_x / py_eq on them (DeepHash run per member on a fresh table)"""
    from deepdiff import DeepHash
    ms = set_members(t1, t2)
    out = []
    _r, strs, secs = oracle_tables(*ms)
    for k in ((True, False) if ms else ()):
        out.append(("sx_bool (hash_separates (hatom_x %s %s) (filter (ok_x %s) %s))" % (strs, secs, "true" if k else "false", coq_list(atom_to_coq(a) for a in ms)),
                    True, dict(tag, what="hash hypothesis observed", k=k)))
    # the opcode hypothesis (valid_ops) observed on difflib's answers for lists of exotic atoms
    for cp, ops in opcode_table(t1, t2):
        xs, ys = t1, t2
        for tg, x in cp:
            xs, ys = xs[x], ys[x]
        out.append(("sx_bool (valid_opcodes %s [%s] [%s])" % (
            coq_list("mkOp %s %d %d %d %d" % (D.TAGS[o[0]], o[1], o[2], o[3], o[4]) for o in ops),
            "; ".join(to_coq(x) for x in xs), "; ".join(to_coq(y) for y in ys)), True, dict(tag, what="difflib opcodes valid (extended universe)")))
    # the same on the implementation: members inside the guard with one DeepHash are ==
    def ok_py(a, k):
        if isinstance(a, datetime.datetime):
            return (a.tzinfo is not None) == k
        if isinstance(a, datetime.time):
            return a.tzinfo is None
        return not (isinstance(a, str) and (a == "NONE" or ":" in a))
    hs = [(a, DeepHash(a)[a]) for a in ms]
    for k in ((True, False) if ms else ()):
        good = all((not (ha == hb)) or a == b for a, ha in hs for b, hb in hs if ok_py(a, k) and ok_py(b, k))
        out.append(("sx_bool true", good, dict(tag, what="hash hypothesis on the implementation (DeepHash per member)", k=k)))
    return out


def stream_c02(ctx, pairs):
    rng = ctx.rng
    cases = []
    for (t1, t2, kind, _is_copy) in pairs:
        t1, t2 = _stable(t1), _stable(t2)
        if not alias_free(t1, t2):
            ctx.count("xu:skipped:==-aliased_set_members(table)")
            continue
        ctx.count("xu:c02:" + ":".join(kind.split("@")[0].split(":")[:2]))
        cases += pair_cases(ctx, t1, t2, kind, zips=(rng.random() < 0.5,), thrs=(rng.choice([0, 0.33, 1]),), verboses=(rng.choice([1, 2]),))
        # the CONCLUSION of C02x_empty_sound_unguarded observed: DeepDiff empty (default options) and set members inside the hash guard
        # => the model's py_eqv on the leaf-normalised values is true; and Python's == on the inputs decides py_eqv
        r0 = run_dd(copy.deepcopy(t1), copy.deepcopy(t2))
        if not isinstance(r0, Exception):
            if r0 == {} and set_members_hash_safe(t1, t2) and not _has_private(t1) and not _has_private(t2):
                ctx.count("xu:c02:unguarded_conclusion_observed")
                cases.append(("sx_bool (py_eqv (normL %s) (normL %s))" % (to_coq(t1), to_coq(t2)), True,
                              {"what": "empty diff => == after reading naive datetime leaves as UTC", "t1": repr(t1)[:300], "t2": repr(t2)[:300]}))
            try:
                eq = bool(t1 == t2)
                cases.append(("sx_bool (py_eqv %s %s)" % (to_coq(t1), to_coq(t2)), eq, {"what": "py_eqv vs Python ==", "t1": repr(t1)[:300], "t2": repr(t2)[:300]}))
            except Exception:  # noqa
                pass
        hc = hypothesis_cases(t1, t2, {"t1": repr(t1)[:300], "t2": repr(t2)[:300], "kind": kind})
        ctx.count("xu:c02:hash_hypothesis_observed", len(hc))
        cases += hc
    cases += atom_cases(rng, 2400 if ctx.thorough else 300)
    for c in cases[:1]:
        ctx.sample(c[2])
    return ctx.coq_cases("c02xu", HDR, cases, shard=150, label="datetime_decimal_tree_text_pyeq_hashtext")


def dt_normal(*vals):
    """every datetime at a LEAF position is already what datetime_normalize returns (aware, UTC)"""
    ok = True

    def walk(v, leaf):
        nonlocal ok
        if isinstance(v, (list, tuple)):
            for x in v:
                walk(x, True)
        elif isinstance(v, dict):
            for x in v.values():
                walk(x, True)
        elif isinstance(v, (set, frozenset)):
            pass
        elif isinstance(v, datetime.datetime) and leaf:
            if v.tzinfo is None or v.utcoffset() != datetime.timedelta(0):
                ok = False
    for v in vals:
        walk(v, True)
    return ok


def set_members_hash_safe(*vals):
    """where the item hash is injective: no tag-like str member (K1), datetime members already aware-UTC
    (C02-NAIVE-AWARE), time members naive (C02-TIME-TZ-IN-SET)"""
    if D.tag_unsafe(*vals):
        return False
    ok = True

    def walk(v):
        nonlocal ok
        if isinstance(v, (set, frozenset)):
            for x in v:
                if isinstance(x, datetime.datetime) and (x.tzinfo is None or x.utcoffset() != datetime.timedelta(0)):
                    ok = False
                if isinstance(x, datetime.time) and x.tzinfo is not None:
                    ok = False
        elif isinstance(v, (list, tuple)):
            for x in v:
                walk(x)
        elif isinstance(v, dict):
            for x in v.values():
                walk(x)
    for v in vals:
        walk(v)
    return ok


def stream_c03(ctx, pairs):
    rng = ctx.rng
    cm, cs = [], []
    for (t1, t2, kind, _is_copy) in pairs:
        t1, t2 = _stable(t1), _stable(t2)
        if not alias_free(t1, t2):
            ctx.count("xu:skipped:==-aliased_set_members(table)")
            continue
        ip = rng.random() < 0.5
        a, b = copy.deepcopy(t1), copy.deepcopy(t2)
        r = run_dd(a, b, zip_ordered_iterables=True, threshold_to_diff_deeper=0, verbose_level=2, ignore_private_variables=ip)
        tag = {"t1": repr(t1)[:300], "t2": repr(t2)[:300], "kind": kind, "ip": ip}
        if isinstance(r, Exception):
            cm.append(("SA \"model does not raise\"", "DeepDiff raised " + repr(r)[:200], tag))
            continue
        try:
            obs = text_obs(r)
        except Exception as e:  # noqa
            cm.append(("SA \"a result inside the universe\"", "result cannot be canonicalised: " + repr(e)[:200], tag))
            continue
        cm.append((model_text_expr(a, b, True, 0, 2, ip), obs, dict(tag, what="model vs implementation")))
        if set_members_hash_safe(t1, t2):
            ctx.count("xu:c03:coqspec_n_vs_impl")
            cs.append((spec_n_expr(a, b, ip), obs, dict(tag, what="coq spec_n (no leaf guard) vs implementation")))
        if dt_normal(t1, t2) and set_members_hash_safe(t1, t2):
            ctx.count("xu:c03:coqspec_vs_impl")
            cs.append((spec_expr(a, b, ip), obs, dict(tag, what="coq spec vs implementation")))
        else:
            ctx.count("xu:c03:outside_dt_normal_guard")
    ctx.coq_cases("c03xu", HDR, cm, shard=150, label="datetime_decimal_model_vs_impl")
    ctx.coq_cases("c03xs", HDR, cs, shard=150, label="datetime_decimal_coqspec_vs_impl")

"""Numeric numpy arrays in the diff model (coq/theories/Diff/NpModel.v): generators,
canonicalisers mirroring Diff/NpShow.v, and the correspondence stream of C02.

    pairs = gen_pairs(rng, n)      [(a, b, kind, is_copy)]   n base arrays, ~6 pairs each + fixed pairs
    stream_c02(ctx, pairs=None)    DeepDiff(a, b) tree view / text view (verbose_level 1, 2),
                                   np.array_equal, ndarray.tolist  ==  the model, x zip_ordered_iterables

Arrays: 1-3 dimensions, 0-4 elements per axis (zero-length axes at every position), dtypes
int64 / int32 / float64 (half-integers only) / bool, in C, Fortran, transposed-view and
strided-view memory layouts (the layout must not matter).
"""
import numpy as np

from harness import values as V
from harness import diffcommon as D
from harness.core import coq_bool, coq_list, sx_sorted

DT_COQ = {"int64": "DInt64", "int32": "DInt32", "float64": "DFloat64", "bool": "DBool"}
DT_SX = {"int64": "int64", "int32": "int32", "float64": "float64", "bool": "npbool"}
NP_TYPES = {np.int64: "int64", np.int32: "int32", np.float64: "float64", np.bool_: "npbool"}
DTYPES = ["int64", "int32", "float64", "bool"]

HDR = ("From DD Require Import Base.PyStr Base.Value Path.PathModel Diff.Tree Diff.DiffModel Diff.TextView "
       "Diff.DiffShow Diff.NpModel Diff.NpShow.")


# ---------------------------------------------------------------------------
# arrays <-> Coq / canonical observables
# ---------------------------------------------------------------------------

def flat(a):
    """the elements in row-major order, as Python scalars"""
    return np.ascontiguousarray(a).reshape(-1).tolist()


def arr_to_coq(a):
    return "(mkArr %s %s %s)" % (DT_COQ[a.dtype.name], coq_list("%d" % d for d in a.shape),
                                 coq_list(V.atom_to_coq(x) for x in flat(a)))


def canon_arr(a):
    if a.dtype.name not in DT_SX:
        return ["UNEXPECTED-DTYPE", a.dtype.name]
    return ["arr", DT_SX[a.dtype.name], [int(d) for d in a.shape], [V.canon_atom(x) for x in flat(a)]]


def canon_obj(x):
    """a leaf object with its numpy-ness: whole array / numpy scalar + dtype / Python object"""
    if isinstance(x, np.ndarray):
        return canon_arr(x)
    if isinstance(x, np.generic):           # before the Python check: np.float64 is a subclass of float
        if type(x) not in NP_TYPES:
            return ["UNEXPECTED-SCALAR", type(x).__name__]
        return ["np", NP_TYPES[type(x)], V.canon_atom(x.item())]
    try:
        return ["py", V.canon(x)]
    except Exception:  # noqa
        return ["UNEXPECTED-OBJECT", repr(x)[:80]]


def canon_opt(x):
    return None if x is D.notpresent() else ["Some", canon_obj(x)]


def canon_npath(plist):
    """level.path(output_format='list'): ints (indexes) and tuples of ints (NumpyArrayRelationship.param)"""
    out = []
    for el in plist:
        if type(el) is tuple and all(type(i) is int for i in el):
            out.append(["t", list(el)])
        elif type(el) is int:
            out.append(["x", el])
        else:
            out.append(["UNEXPECTED-KEY", repr(el)])
    return out


def tree_obs(tree):
    out = []
    for kind in D.KINDS:
        for lv in tree.get(kind, []) or []:
            e = [kind, canon_npath(lv.path(output_format="list")), canon_npath(lv.path(use_t2=True, output_format="list")),
                 canon_opt(lv.t1), canon_opt(lv.t2)]
            if lv.additional:
                e.append(["UNEXPECTED-ADDITIONAL", repr(lv.additional)[:80]])
            out.append(e)
    for k in sorted(set(tree.keys()) - set(D.KINDS)):
        if tree.get(k):
            out.append(["UNEXPECTED-CATEGORY", k])
    return sx_sorted(out)


def type_name(t):
    return NP_TYPES.get(t) or D.TYPE_NAMES.get(t) or ("UNEXPECTED-TYPE " + repr(t))


def text_obs(res):
    """canonical text-view result (mirror of NpShow.sx_ntext)"""
    opt = D._opt
    out = []
    for p, ch in res.get("type_changes", {}).items():
        vals = [canon_obj(ch["old_value"]), canon_obj(ch["new_value"])] if "old_value" in ch else None
        out.append(["type_changes", p, type_name(ch["old_type"]), type_name(ch["new_type"]), opt(ch.get("new_path")), opt(vals)])
    for p, ch in res.get("values_changed", {}).items():
        out.append(["values_changed", p, canon_obj(ch["old_value"]), canon_obj(ch["new_value"]), opt(ch.get("new_path")), opt(ch.get("diff"))])
    for cat in ("iterable_item_added", "iterable_item_removed"):
        for p, v in res.get(cat, {}).items():
            out.append([cat, p, canon_obj(v)])
    for p, ch in res.get("iterable_item_moved", {}).items():
        out.append(["iterable_item_moved", p, ch["new_path"], canon_obj(ch["value"])])
    known = {"type_changes", "values_changed", "iterable_item_added", "iterable_item_removed", "iterable_item_moved"}
    for k in sorted(set(res.keys()) - known):
        out.append(["UNEXPECTED-CATEGORY", k])
    return sx_sorted(out)


def ops_table(a, b):
    """difflib's real opcodes for every pair of all-scalar lists the tolist branch compares
    (asked for by the base list model only when dtypes agree and shapes differ)"""
    if a.dtype != b.dtype or a.shape == b.shape or a.ndim == 0 or b.ndim == 0:
        return "[]"
    return D.coq_ops_table(D.opcode_table(a.tolist(), b.tolist()))


def model_run(a, b, zip_):
    return "(np_run_diff (tbl_ops %s) %s %s %s)" % (ops_table(a, b), coq_bool(zip_), arr_to_coq(a), arr_to_coq(b))


def describe(a):
    return "%s%s%s" % (a.dtype.name, list(a.shape), flat(a))


def tag(a, b, kind, **kw):
    return dict(t1=describe(a), t2=describe(b), kind=kind, layouts=[layout_of(a), layout_of(b)], **kw)


def layout_of(a):
    return "C" if a.flags.c_contiguous else ("F" if a.flags.f_contiguous else "strided")


def branch_of(a, b):
    if a.dtype != b.dtype:
        return "dtype_differs"
    if np.array_equal(a, b):
        return "array_equal"
    if a.shape != b.shape:
        return "tolist"
    return "rows_1d" if a.ndim == 1 else "rows_nd"


def pair_cases(a, b, kind, zips=(False, True), verbose=(1, 2)):
    """correspondence cases (coq expr, expected, tag) for one pair; DeepDiff is run on the very
    objects given (memory layout included)"""
    from deepdiff import DeepDiff

    def run(obs, **kw):
        try:
            return obs(DeepDiff(a, b, **kw))
        except Exception as e:  # noqa - the model never raises: a mismatch
            return ["DeepDiff-RAISED", type(e).__name__, str(e)[:120]]
    cases = []
    for z in zips:
        cases.append(("sx_ntree %s" % model_run(a, b, z), run(tree_obs, view="tree", zip_ordered_iterables=z, verbose_level=2),
                      tag(a, b, kind, zip=z, view="tree")))
    z = zips[-1]
    for v in verbose:
        cases.append(("sx_ntext (np_text_view %d %s)" % (v, model_run(a, b, z)), run(text_obs, zip_ordered_iterables=z, verbose_level=v),
                      tag(a, b, kind, zip=z, view="text", verbose=v)))
    ca, cb = arr_to_coq(a), arr_to_coq(b)
    cases.append(("SL [sx_bool (array_equal %s %s); sx_bool (array_eqb %s %s); sx_value (tolist %s); sx_value (tolist %s); "
                  "sx_bool (nwf %s && nwf %s)]" % (ca, cb, ca, cb, ca, cb, ca, cb),
                  [bool(np.array_equal(a, b)), bool(a.dtype == b.dtype and np.array_equal(a, b)),
                   V.canon(a.tolist()), V.canon(b.tolist()), True],
                  tag(a, b, kind, view="array_equal/tolist")))
    return cases


# ---------------------------------------------------------------------------
# generators
# ---------------------------------------------------------------------------

def gen_shape(rng, nd=None):
    nd = nd or rng.choice([1, 1, 2, 2, 2, 3, 3])
    return tuple(rng.choice([0, 1, 2, 2, 3, 3, 4]) if rng.random() < 0.85 else 0 for _ in range(nd))


def gen_data(rng, dtype, size):
    if dtype == "bool":
        return [rng.random() < 0.5 for _ in range(size)]
    if rng.random() < 0.4:
        vals = list(range(size))                      # all elements distinct
    else:
        vals = [rng.randrange(-2, 4) for _ in range(size)]
    if dtype == "float64":
        return [v / 2 for v in vals]                  # half-integers only
    return vals


def gen_array(rng, shape=None, dtype=None):
    shape = gen_shape(rng) if shape is None else shape
    dtype = dtype or rng.choice(DTYPES)
    size = int(np.prod(shape)) if shape else 1
    return np.array(gen_data(rng, dtype, size), dtype=dtype).reshape(shape)


def layouts(rng, a):
    """the same array (shape, dtype, content) in another memory layout"""
    k = rng.randrange(4)
    if k == 0:
        return np.asfortranarray(a), "fortran"
    if k == 1 and a.ndim >= 2:
        perm = list(range(a.ndim))
        rng.shuffle(perm)
        inv = [perm.index(i) for i in range(a.ndim)]
        return np.ascontiguousarray(a.transpose(perm)).transpose(inv), "transposed_view"
    if k == 2 and a.ndim >= 1:
        big = np.zeros((a.shape[0] * 2,) + a.shape[1:], dtype=a.dtype, order=rng.choice("CF"))
        big[::2] = a
        return big[::2], "strided_view"
    return a.copy(order="C"), "c_copy"


def other_value(rng, x, dtype):
    if dtype == "bool":
        return not x
    return x + rng.choice([1, 2, -1]) if dtype != "float64" else x + rng.choice([0.5, 1.0, -0.5])


FIXED_SHAPES = [((0, 3), (0, 2)), ((0,), (0, 1)), ((2, 0), (3, 0)), ((2, 0), (0, 2)), ((2, 0), (2, 0)),
                ((2, 0, 3), (2, 0, 5)), ((0, 3), (0, 3)), ((1, 0), (0,)), ((2, 0), (2, 1, 0))]


def gen_pairs(rng, n):
    """[(a, b, kind, is_copy)]: the fixed no-element pairs, then for each of n base arrays: a copy in another
    layout, one element changed, rows permuted, the same data reshaped, one axis longer / shorter, a dimension
    added, the dtype changed, an element inserted / deleted (1-d), an unrelated array"""
    out = []
    for sh1, sh2 in FIXED_SHAPES:
        dt = rng.choice(DTYPES)
        out.append((np.zeros(sh1, dtype=dt), np.zeros(sh2, dtype=dt), "no_elements", sh1 == sh2))
    # NpProofs.np_mutual_fires_in_tolist_branch: root[1] is removed and added by the difflib pass and becomes a values_changed
    out.append((np.array([7, 8, 1, 2, 3, 4]), np.array([1, 9, 2, 3, 4]), "mutual_fires", False))
    # every run has arrays whose leading dimensions are all > 1 (the row order of get_numpy_ndarray_rows matters)
    forced = [(2, 3, 2), (3, 2, 3), (2, 2, 2, 2), (3, 2), (4,)]
    for k in range(n + len(forced)):
        a = gen_array(rng, forced[k] if k < len(forced) else None)
        dtype, shape, nd, size = a.dtype.name, a.shape, a.ndim, a.size
        if rng.random() < 0.3:
            a = layouts(rng, a)[0]
        b, how = layouts(rng, a)
        out.append((a, b, "copy_in_other_layout:" + how, True))
        if size:
            c = np.array(a, order=rng.choice("CF"))
            idx = tuple(rng.randrange(d) for d in shape)
            c[idx] = other_value(rng, c[idx].item(), dtype)
            if rng.random() < 0.4 and size > 1:
                idx = tuple(rng.randrange(d) for d in shape)
                c[idx] = other_value(rng, c[idx].item(), dtype)
            out.append((a, layouts(rng, c)[0], "element_changed", False))
        if nd >= 2 and shape[0] > 1:
            perm = list(range(shape[0]))
            rng.shuffle(perm)
            out.append((a, layouts(rng, a[perm])[0], "rows_permuted", None))
        # the same data under another shape
        cands = [(size,), (size, 1), (1, size), tuple(reversed(shape)), shape + (1,), (1,) + shape]
        if size % 2 == 0:
            cands += [(2, size // 2), (size // 2, 2)]
        if size == 0:
            cands += [(0, 2), (3, 0), (1, 0, 2), (0,)]
        cands = [s for s in cands if s != shape and len(s) <= 4]
        if cands:
            sh = rng.choice(cands)
            out.append((a, layouts(rng, np.ascontiguousarray(a).reshape(sh))[0], "reshaped", False))
        # one axis longer / shorter
        ax = rng.randrange(nd)
        if rng.random() < 0.5 or shape[ax] == 0:
            slab_shape = shape[:ax] + (1,) + shape[ax + 1:]
            c = np.concatenate([a, gen_array(rng, slab_shape, dtype)], axis=ax)
            out.append((a, layouts(rng, c)[0], "axis_longer", False))
        else:
            k = rng.randrange(shape[ax])
            c = np.delete(a, k, axis=ax)
            out.append((a, layouts(rng, c)[0], "axis_shorter", False))
        if rng.random() < 0.5:
            other = rng.choice([d for d in DTYPES if d != dtype])
            out.append((a, a.astype(other), "dtype_changed", False))
        if nd == 1 and size:
            c = list(flat(a))
            for _e in range(rng.randint(1, 2)):
                if rng.random() < 0.5 and c:
                    del c[rng.randrange(len(c))]
                else:
                    c.insert(rng.randint(0, len(c)), rng.choice(c) if c and rng.random() < 0.5 else other_value(rng, flat(a)[0], dtype))
            out.append((a, np.array(c, dtype=dtype), "items_inserted_deleted", None))
        if rng.random() < 0.5:
            out.append((a, gen_array(rng, None, dtype), "unrelated", None))
    res = []
    for a, b, kind, is_copy in out:
        if is_copy is None:
            is_copy = bool(a.dtype == b.dtype and a.shape == b.shape and np.array_equal(a, b))
        res.append((a, b, kind, is_copy))
    return res


def grid_pairs():
    """deterministic: every dtype x 1-d / 2-d / 3-d x C / Fortran order with one element changed, and every ordered pair of
    dtypes on the same 2-d data in Fortran order (dtype / shape / layout combinations, lead's hint 5)"""
    out = []
    shapes = [(4,), (2, 3), (2, 2, 2)]
    for dt in DTYPES:
        for sh in shapes:
            size = int(np.prod(sh))
            base = np.array([(i % 2 == 0) if dt == "bool" else (i / 2 if dt == "float64" else i) for i in range(size)], dtype=dt).reshape(sh)
            for order in ("C", "F"):
                a = np.array(base, order=order)
                b = np.array(base, order="F" if order == "C" else "C")
                idx = tuple(d - 1 for d in sh)
                b[idx] = (not b[idx]) if dt == "bool" else b[idx] + 1
                out.append((a, b, "grid_element_changed:%s:%dd:%s" % (dt, len(sh), order), False))
                out.append((a, np.array(base, order="F" if order == "C" else "C"), "grid_copy:%s:%dd:%s" % (dt, len(sh), order), True))
    data = np.arange(6).reshape(2, 3)
    for d1 in DTYPES:
        for d2 in DTYPES:
            if d1 != d2:
                out.append((np.asfortranarray(data.astype(d1)), data.astype(d2), "grid_dtype_pair:%s:%s" % (d1, d2), False))
    return out


def in_model(a):
    return isinstance(a, np.ndarray) and a.ndim >= 1 and a.dtype.name in DT_COQ


def stream_c02(ctx, pairs=None):
    """correspondence of DeepDiff on numeric arrays with Diff/NpModel.v np_run_diff / np_text_view"""
    if pairs is None:
        pairs = gen_pairs(ctx.rng, 100 if ctx.thorough else 12)
    pairs = list(pairs) + grid_pairs()
    cases = []
    for (a, b, kind, is_copy) in pairs:
        if not (in_model(a) and in_model(b)):
            ctx.count("np:outside_model")
            continue
        ctx.count("np:gen:" + kind.split(":")[0])
        br = branch_of(a, b)
        ctx.count("np:branch:" + br)
        if is_copy:
            ctx.count("np:copies")
        zips = (False, True) if br == "tolist" else (ctx.rng.random() < 0.5,)
        cases += pair_cases(a, b, kind, zips=zips)
    for c in cases[:1]:
        ctx.sample(c[2])
    return ctx.coq_cases("c02np", HDR, cases, shard=150, label="numpy_tree_text_array_equal_tolist")

"""Fail-closed translator for the scalar kernels of deepdiff/distance.py (source tie of C19, DESIGN.md section 4.5).

translate(repo_root) -> text of coq/srctie/DistGen.v, regenerated from the CURRENT source on every run.

Translated (Python name -> generated definition):
    _get_numbers_distance            g__get_numbers_distance (+ g__get_numbers_distance_default_arg{2,3,4})
    _numpy_div                       g__numpy_div (+ _default_arg2)               element-wise
    _get_numpy_array_distance        g__get_numpy_array_distance (+ defaults)     element-wise
    _get_datetime_distance / _get_date_distance / _get_timedelta_distance / _get_time_distance
    TYPES_TO_DIST_FUNC               g_TYPES_TO_DIST_FUNC
    get_numeric_types_distance       g_get_numeric_types_distance (+ _loop, the `for` over the table)
    DistanceMixin._get_rough_distance    g__get_rough_distance
Pinned, not translated (the statement that calls them is translated to the hand model's primitive; any change of
their text rejects the source): DistanceMixin.__get_item_rough_length, DistanceMixin.__calculate_item_deephash
(-> DistModel.root_count), _get_item_length (-> DistModel.item_length).

The translation is syntax-directed: one Python statement -> one Gallina line, same order, same case analysis.  It is
TYPED: the Gallina types of the parameters are fixed per function below (by position); every expression form is
translated by the rule for its operand types, anything else raises Unsupported(file:line: node: why).  What a
primitive means on the model's types is fixed by hand in coq/theories/Dist/DistSrcPrims.v.  Rules (each one is part of
the trusted base of this tie and is listed in coq/theories/Dist/NOTES_SRCTIE.md):

  R1  docstring (first statement a string constant) skipped; comments (`# pragma: no cover`) are not in the ast
  R2  `x / y` on floats in a Python function: first `if y =? 0 then <raise ZeroDivisionError>`; in a numpy
      (element-wise) function: plain IEEE division, never raises
  R3  `float(x)` on a number: `to_float x`, None -> <raise OverflowError>;  `x.timestamp()`, `.toordinal()`,
      `.total_seconds()`, `time_to_seconds(x)`: the py_* primitive, None -> <raise AttributeError>
  R4  `if not isinstance(x, float): x = float(x)`: x rebinds from a number to a float:
      `match (if <test> then <float(x)> else py_the_float x) with None => <raise OverflowError> | Some x => ...`
  R5  `try: return E  except Exception: return H`: every <raise> inside E becomes H's value
  R6  <raise e> outside a try: DErr e / RErr e according to the function's result type
  R7  an int literal where a float is expected: the float of the same value (|n| < 2**53); `return 0` from a function
      returning a number-or-error: DInt0 (the int 0 is kept apart from 0.0)
  R8  `==` on numbers: pynum_eq (Python's exact mixed comparison); on floats: PrimFloat.eqb; on counts: Nat.eqb;
      `<` `>` `<=` `>=` on floats: PrimFloat.ltb / leb (operands swapped for > >=), `!=`: negb of ==; `min(a, b)`: py_min a b; `abs`: PrimFloat.abs; + - : PrimFloat.add / sub, the
      expression tree is kept as it is
  R9  `logarithmic_distance(a, b)`, `numpy_apply_log_keep_sign(x)`: uninterpreted functions (Section variables
      o_logarithmic_distance, o_numpy_apply_log_keep_sign); the equivalences are stated for use_log_scale = false
  R10 numpy, element-wise: np.full(shape=_.shape, fill_value=v, dtype=np_float64) = v;
      np.divide(a, b, out=o, where=w, dtype=np_float64) = if w then a / b else o;  `r[c] = v` = if c then v else r;
      np.clip(np.absolute(x), lo, hi) = np_clip (abs x) lo hi;  `if flag: x = e` (no else) = if flag then e else x
  R11 `for type_, func in TYPES_TO_DIST_FUNC: if C: return E` followed by S: a Fixpoint over the generated table, S in
      the empty case; isinstance(x, type_) = py_isinstance; func(...) = application; _get_numbers_distance in the
      table = lift_num
  R12 `return not_found` / `if x is not not_found: return x`: None / match x with Some x => ... | None => ...
  R13 self.<attr> = the field self_<attr> of DistSrcPrims.dself;  get_numeric_types_distance(self.t1, self.t2, ...) on
      roots = call_on_roots;  the statement `item = self if self.view == DELTA_VIEW else self._to_delta_dict(
      report_repetition_required=False)` (exact text) = the model's input self_delta_view self;
      self.__get_item_rough_length(x) = root_count x;  _get_item_length(x) = item_length x (LErr e -> <raise e>);
      int / int = RFrac n m after `if m = 0 then <raise ZeroDivisionError>`
  R14 a call with fewer arguments than parameters takes the callee's defaults, translated from ITS signature
      (g_<f>_default_arg<i>)

No eval, no import of deepdiff: the file is read and ast.parse'd.
"""
import ast
import hashlib
import os

SOURCE = "deepdiff/distance.py"


class Unsupported(Exception):
    pass


def bad(node, why):
    raise Unsupported("%s:%s: %s: %s" % (SOURCE, getattr(node, "lineno", "?"), type(node).__name__, why))


# ---- the typed signatures (by position) --------------------------------------------------------------------------
FUNCS = {
    "_get_numbers_distance": (["pynum", "pynum", "float", "bool", "float"], "dres", "py"),
    "_numpy_div": (["float", "float", "float"], "float", "np"),
    "_get_numpy_array_distance": (["float", "float", "float", "bool", "float"], "float", "np"),
    "_get_datetime_distance": (["scalar", "scalar", "float", "bool", "float"], "dres", "py"),
    "_get_date_distance": (["scalar", "scalar", "float", "bool", "float"], "dres", "py"),
    "_get_timedelta_distance": (["scalar", "scalar", "float", "bool", "float"], "dres", "py"),
    "_get_time_distance": (["scalar", "scalar", "float", "bool", "float"], "dres", "py"),
    "get_numeric_types_distance": (["scalar", "scalar", "float", "bool", "float"], "odres", "py"),
}
ORDER = ["_get_numbers_distance", "_numpy_div", "_get_numpy_array_distance", "_get_datetime_distance", "_get_date_distance",
         "_get_timedelta_distance", "_get_time_distance", "TYPES_TO_DIST_FUNC", "get_numeric_types_distance", "_get_rough_distance"]
COQTYPE = {"pynum": "pynum", "float": "float", "bool": "bool", "scalar": "scalar", "dres": "dres", "odres": "option dres",
           "rres": "rres", "self": "dself", "pytype": "pytype", "distfn": "distfn", "nat": "nat", "root": "root", "dv": "dv"}
ORACLES = {"logarithmic_distance": (["pynum", "pynum"], "float"), "numpy_apply_log_keep_sign": (["float"], "float")}
ORACLE_TYPES = {"logarithmic_distance": "pynum -> pynum -> float", "numpy_apply_log_keep_sign": "float -> float"}
METHODS = {"timestamp": "py_timestamp", "toordinal": "py_toordinal", "total_seconds": "py_total_seconds"}
SELF_ATTRS = {"t1": "root", "t2": "root", "cutoff_distance_for_pairs": "float", "use_log_scale": "bool",
              "log_scale_similarity_threshold": "float"}
TYPE_NAMES = {"only_numbers": "TOnlyNumbers", "datetime.datetime": "TDatetime", "datetime.date": "TDate",
              "datetime.timedelta": "TTimedelta", "datetime.time": "TTime"}
ERR_OF_RET = {"dres": "DErr %s", "rres": "RErr %s"}
DELTA_STMT = "item = self if self.view == DELTA_VIEW else self._to_delta_dict(report_repetition_required=False)"
# functions the translated statements call through a primitive of the hand model: pinned by the sha256 of their ast
PINNED = {
    "DistanceMixin.__get_item_rough_length": "1cf01857e2e12053",
    "DistanceMixin.__calculate_item_deephash": "2e81ee658ac3d45f",
    "_get_item_length": "73c5cb5e507be780",
}


def pin_of(fn):
    """sha256 (first 16 hex digits) of the function's ast without its docstring"""
    body = fn.body[1:] if is_docstring(fn.body[0]) else fn.body
    txt = ast.dump(ast.FunctionDef(name=fn.name, args=fn.args, body=body, decorator_list=fn.decorator_list,
                                   returns=None, type_comment=None, type_params=[]), annotate_fields=True, include_attributes=False)
    return hashlib.sha256(txt.encode()).hexdigest()[:16]


def is_docstring(st):
    return isinstance(st, ast.Expr) and isinstance(st.value, ast.Constant) and isinstance(st.value.value, str)


def comment(st):
    try:
        t = ast.unparse(st).splitlines()[0]
    except Exception:  # noqa
        t = type(st).__name__
    t = t.replace('"', "'").replace("(*", "( *").replace("*)", "* )")
    return "(* %s *)" % t[:150]


def v(name):
    return "v_" + name


def float_lit(x, node):
    if isinstance(x, bool):
        bad(node, "a bool where a float is expected")
    if isinstance(x, int):
        if abs(x) >= 2 ** 53:
            bad(node, "int literal too large to be an exact float")
        x = float(x)
    if not isinstance(x, float):
        bad(node, "literal %r where a float is expected" % (x,))
    if x != x:
        return "nan"
    if x in (float("inf"), float("-inf")):
        return "infinity" if x > 0 else "neg_infinity"
    h = x.hex()
    return "(%s)" % h if h.startswith("-") else h


class Fn:
    """translation of one function body"""

    def __init__(self, T, name, ret, mode):
        self.T, self.name, self.ret, self.mode = T, name, ret, mode
        self.aux = []          # auxiliary definitions (the loop Fixpoint), emitted before the function
        self.tmp = 0
        self.params = []       # [(python name, type)]

    # ---- expressions: (text, type, pre); pre = [("check", cond, err) | ("bind", var, option term, err) | ("bindl", var, lres term)]
    def fresh(self):
        self.tmp += 1
        return "t%d" % self.tmp

    def as_float(self, node, env):
        if isinstance(node, ast.Constant):
            return float_lit(node.value, node), []
        if isinstance(node, ast.UnaryOp) and isinstance(node.op, ast.USub) and isinstance(node.operand, ast.Constant) \
                and isinstance(node.operand.value, (int, float)) and not isinstance(node.operand.value, bool):
            return float_lit(-node.operand.value, node), []
        t, ty, pre = self.expr(node, env)
        if ty != "float":
            bad(node, "a float is expected here, found %s" % ty)
        return t, pre

    def expr(self, node, env):
        if isinstance(node, ast.Name):
            if node.id in env:
                return env[node.id][0], env[node.id][1], []
            bad(node, "name %r is not a parameter / local of the translated function" % node.id)
        if isinstance(node, ast.Constant):
            if isinstance(node.value, bool):
                return ("true" if node.value else "false"), "bool", []
            if isinstance(node.value, float):
                return float_lit(node.value, node), "float", []
            bad(node, "constant %r in a position without a typing rule" % (node.value,))
        if isinstance(node, ast.Attribute):
            if isinstance(node.value, ast.Name) and node.value.id in env and env[node.value.id][1] == "self":
                if node.attr not in SELF_ATTRS:
                    bad(node, "self.%s is not an attribute the model knows" % node.attr)
                return "(self_%s %s)" % (node.attr, env[node.value.id][0]), SELF_ATTRS[node.attr], []
            bad(node, "attribute access outside the white-list")
        if isinstance(node, ast.UnaryOp):
            if isinstance(node.op, ast.Not):
                t, ty, pre = self.expr(node.operand, env)
                if ty != "bool":
                    bad(node, "`not` on a %s" % ty)
                return "(negb %s)" % t, "bool", pre
            bad(node, "unary operator outside the white-list")
        if isinstance(node, ast.BoolOp):
            if isinstance(node.op, ast.And) and len(node.values) == 2:
                (a, ta, pa), (b, tb, pb) = self.expr(node.values[0], env), self.expr(node.values[1], env)
                if ta != "bool" or tb != "bool" or pa or pb:
                    bad(node, "`and` needs two pure bools")
                return "(%s && %s)" % (a, b), "bool", []
            bad(node, "boolean operator outside the white-list")
        if isinstance(node, ast.BinOp):
            return self.binop(node, env)
        if isinstance(node, ast.Compare):
            return self.compare(node, env)
        if isinstance(node, ast.Call):
            return self.call(node, env)
        bad(node, "expression form outside the white-list")

    def static_type(self, node, env):
        """type of an operand without emitting anything (literals have the type their context gives them)"""
        if isinstance(node, ast.Constant) and isinstance(node.value, (int, float)) and not isinstance(node.value, bool):
            return "lit"
        if isinstance(node, ast.Name) and node.id in env:
            return env[node.id][1]
        return self.expr(node, env)[1]

    def binop(self, node, env):
        lt, rt = self.static_type(node.left, env), self.static_type(node.right, env)
        if "nat" in (lt, rt):
            if lt != "nat" or rt != "nat":
                bad(node, "arithmetic between a count and a %s" % (rt if lt == "nat" else lt))
            (a, _, pa), (b, _, pb) = self.expr(node.left, env), self.expr(node.right, env)
            if isinstance(node.op, ast.Add):
                return "(Nat.add %s %s)" % (a, b), "nat", pa + pb
            if isinstance(node.op, ast.Div):       # R13: int / int is kept as a fraction
                return "%s %s" % (a, b), "frac", pa + pb + [("check", "Nat.eqb %s 0%%nat" % b, "EZeroDiv")]
            bad(node, "operator on counts outside the white-list")
        a, pa = self.as_float(node.left, env)
        b, pb = self.as_float(node.right, env)
        if isinstance(node.op, ast.Add):
            return "(%s + %s)" % (a, b), "float", pa + pb
        if isinstance(node.op, ast.Sub):
            return "(%s - %s)" % (a, b), "float", pa + pb
        if isinstance(node.op, ast.Div):
            pre = pa + pb
            if self.mode == "py":                  # R2
                pre = pre + [("check", "%s =? 0" % b, "EZeroDiv")]
            return "(%s / %s)" % (a, b), "float", pre
        bad(node, "arithmetic operator outside the white-list")

    def compare(self, node, env):
        if len(node.ops) != 1:
            bad(node, "chained comparison")
        op, l, r = node.ops[0], node.left, node.comparators[0]
        lt = self.static_type(l, env)
        rt = self.static_type(r, env)
        if lt == "pynum" and rt == "pynum" and isinstance(op, (ast.Eq, ast.NotEq)):
            (a, _, pa), (b, _, pb) = self.expr(l, env), self.expr(r, env)
            t = "(pynum_eq %s %s)" % (a, b)
            return (t if isinstance(op, ast.Eq) else "(negb %s)" % t), "bool", pa + pb
        if lt == "nat" and isinstance(r, ast.Constant) and type(r.value) is int and r.value >= 0:
            a, _, pa = self.expr(l, env)
            if isinstance(op, ast.Eq):
                return "(Nat.eqb %s %d%%nat)" % (a, r.value), "bool", pa
            if isinstance(op, ast.NotEq):
                return "(negb (Nat.eqb %s %d%%nat))" % (a, r.value), "bool", pa
            if isinstance(op, ast.Gt):
                return "(Nat.ltb %d%%nat %s)" % (r.value, a), "bool", pa
            bad(node, "comparison operator on a count outside the white-list")
        if "float" in (lt, rt) and lt in ("float", "lit") and rt in ("float", "lit"):
            a, pa = self.as_float(l, env)
            b, pb = self.as_float(r, env)
            if isinstance(op, ast.Eq):
                return "(%s =? %s)" % (a, b), "bool", pa + pb
            if isinstance(op, ast.NotEq):
                return "(negb (%s =? %s))" % (a, b), "bool", pa + pb
            if isinstance(op, ast.Lt):
                return "(%s <? %s)" % (a, b), "bool", pa + pb
            if isinstance(op, ast.Gt):
                return "(%s <? %s)" % (b, a), "bool", pa + pb
            if isinstance(op, ast.LtE):
                return "(%s <=? %s)" % (a, b), "bool", pa + pb
            if isinstance(op, ast.GtE):
                return "(%s <=? %s)" % (b, a), "bool", pa + pb
            bad(node, "comparison operator on floats outside the white-list")
        bad(node, "comparison between %s and %s outside the white-list" % (lt, rt))

    def kwargs(self, node, allowed):
        kw = {}
        for k in node.keywords:
            if k.arg is None or k.arg not in allowed or k.arg in kw:
                bad(node, "keyword argument %r outside the white-list" % (k.arg,))
            kw[k.arg] = k.value
        return kw

    def call(self, node, env):
        f = node.func
        # ---- methods -------------------------------------------------------------------------------------------
        if isinstance(f, ast.Attribute):
            if isinstance(f.value, ast.Name) and f.value.id == "np" and "np" not in env:
                return self.numpy_call(node, env)
            if isinstance(f.value, ast.Name) and f.value.id in env and env[f.value.id][1] == "self":
                if f.attr == "__get_item_rough_length" and len(node.args) == 1 and not node.keywords:   # R13
                    a, ty, pre = self.expr(node.args[0], env)
                    if ty != "root":
                        bad(node, "__get_item_rough_length of a %s" % ty)
                    return "(root_count %s)" % a, "nat", pre
                bad(node, "method of self outside the white-list")
            if f.attr in METHODS and not node.args and not node.keywords:        # R3
                a, ty, pre = self.expr(f.value, env)
                if ty != "scalar":
                    bad(node, ".%s() of a %s" % (f.attr, ty))
                t = self.fresh()
                return t, "pynum", pre + [("bind", t, "%s %s" % (METHODS[f.attr], a), "EAttr")]
            bad(node, "method call outside the white-list")
        if not isinstance(f, ast.Name):
            bad(node, "call of a computed function")
        name = f.id
        # ---- a local variable holding a function (the loop variable `func`) -----------------------------------------
        if name in env:
            if env[name][1] != "distfn" or node.keywords or len(node.args) != 5:
                bad(node, "call of a local variable outside the white-list")
            args, pre = [], []
            for a, want in zip(node.args, ["scalar", "scalar", "float", "bool", "float"]):
                t, ty, p = self.expr(a, env)
                if ty != want:
                    bad(a, "argument of type %s where %s is expected" % (ty, want))
                args.append(t)
                pre += p
            return "(%s %s)" % (env[name][0], " ".join(args)), "dres", pre
        # ---- builtins ----------------------------------------------------------------------------------------------
        if name == "isinstance" and len(node.args) == 2 and not node.keywords:
            a, ty, pre = self.expr(node.args[0], env)
            c = node.args[1]
            if ty == "pynum" and isinstance(c, ast.Name) and c.id == "float" and "float" not in env:
                return "(py_is_float %s)" % a, "bool", pre
            if ty == "scalar" and isinstance(c, ast.Name) and c.id in env and env[c.id][1] == "pytype":
                return "(py_isinstance %s %s)" % (a, env[c.id][0]), "bool", pre
            bad(node, "isinstance outside the white-list")
        if name == "float" and len(node.args) == 1 and not node.keywords:        # R3
            a, ty, pre = self.expr(node.args[0], env)
            if ty != "pynum":
                bad(node, "float() of a %s" % ty)
            t = self.fresh()
            return t, "float", pre + [("bind", t, "to_float %s" % a, "EOverflow")]
        if name == "abs" and len(node.args) == 1 and not node.keywords:
            a, pre = self.as_float(node.args[0], env)
            return "(abs %s)" % a, "float", pre
        if name == "min" and len(node.args) == 2 and not node.keywords:
            a, pa = self.as_float(node.args[0], env)
            b, pb = self.as_float(node.args[1], env)
            return "(py_min %s %s)" % (a, b), "float", pa + pb
        if name == "time_to_seconds" and len(node.args) == 1 and not node.keywords:   # R3
            a, ty, pre = self.expr(node.args[0], env)
            if ty != "scalar":
                bad(node, "time_to_seconds of a %s" % ty)
            t = self.fresh()
            return t, "pynum", pre + [("bind", t, "py_time_to_seconds %s" % a, "EAttr")]
        if name == "_get_item_length" and len(node.args) == 1 and not node.keywords:   # R13
            a, ty, pre = self.expr(node.args[0], env)
            if ty != "dv":
                bad(node, "_get_item_length of a %s" % ty)
            t = self.fresh()
            return t, "nat", pre + [("bindl", t, "item_length %s" % a)]
        if name in ORACLES:                                                        # R9
            want, ret = ORACLES[name]
            if node.keywords or len(node.args) != len(want):
                bad(node, "call of %s outside the white-list" % name)
            args, pre = [], []
            for a, w in zip(node.args, want):
                t, ty, p = self.expr(a, env)
                if ty != w:
                    bad(a, "argument of type %s where %s is expected" % (ty, w))
                args.append(t)
                pre += p
            self.T.used_oracles.add(name)
            return "(o_%s %s)" % (name, " ".join(args)), ret, pre
        # ---- translated functions --------------------------------------------------------------------------------
        if name in FUNCS:
            return self.call_translated(node, name, env)
        bad(node, "call of %r outside the white-list" % name)

    def call_translated(self, node, name, env):
        if name not in self.T.done:
            bad(node, "call of %s before its definition in the generated file" % name)
        ptypes, ret, _mode = FUNCS[name]
        pnames = self.T.param_names[name]
        kw = self.kwargs(node, pnames)
        if len(node.args) > len(pnames):
            bad(node, "too many arguments")
        actual = {}
        for i, a in enumerate(node.args):
            actual[pnames[i]] = a
        for k, a in kw.items():
            if k in actual:
                bad(node, "argument %r given twice" % k)
            actual[k] = a
        args, pre, roots = [], [], []
        for i, (p, want) in enumerate(zip(pnames, ptypes)):
            if p not in actual:                                                     # R14
                if i not in self.T.defaults[name]:
                    bad(node, "missing argument %r" % p)
                args.append("g_%s_default_arg%d" % (name, i))
                continue
            a = actual[p]
            if want == "float":
                t, pr = self.as_float(a, env)
                ty = "float"
            else:
                t, ty, pr = self.expr(a, env)
            if want == "scalar" and ty == "root" and ret == "odres" and i < 2 and not pr:      # R13
                roots.append(t)
                args.append("s%d" % (i + 1))
                continue
            if ty != want:
                bad(a, "argument of type %s where %s is expected" % (ty, want))
            args.append(t)
            pre += pr
        gname = "g_%s" % name
        if roots:
            if len(roots) != 2:
                bad(node, "one root and one scalar argument")
            return "(call_on_roots (fun s1 s2 => %s %s) %s %s)" % (gname, " ".join(args), roots[0], roots[1]), ret, pre
        return "(%s %s)" % (gname, " ".join(args)), ret, pre

    def numpy_call(self, node, env):                                                # R10
        if self.mode != "np":
            bad(node, "numpy call in a function that is not translated element-wise")
        a = node.func.attr
        if a == "full" and not node.args:
            kw = self.kwargs(node, ["shape", "fill_value", "dtype"])
            if set(kw) != {"shape", "fill_value", "dtype"}:
                bad(node, "np.full: keyword set")
            s = kw["shape"]
            if not (isinstance(s, ast.Attribute) and s.attr == "shape" and isinstance(s.value, ast.Name) and s.value.id in env
                    and env[s.value.id][1] == "float"):
                bad(node, "np.full: shape is not <array>.shape")
            self.np_dtype(kw["dtype"])
            t, pre = self.as_float(kw["fill_value"], env)
            return t, "float", pre
        if a == "divide" and len(node.args) == 2:
            kw = self.kwargs(node, ["out", "where", "dtype"])
            if set(kw) != {"out", "where", "dtype"}:
                bad(node, "np.divide: keyword set")
            self.np_dtype(kw["dtype"])
            x, px = self.as_float(node.args[0], env)
            y, py = self.as_float(node.args[1], env)
            o, po = self.as_float(kw["out"], env)
            w, tw, pw = self.expr(kw["where"], env)
            if tw != "bool" or px or py or po or pw:
                bad(node, "np.divide: arguments")
            return "(if %s then %s / %s else %s)" % (w, x, y, o), "float", []
        if a == "absolute" and len(node.args) == 1 and not node.keywords:
            x, px = self.as_float(node.args[0], env)
            return "(abs %s)" % x, "float", px
        if a == "clip" and len(node.args) == 3 and not node.keywords:
            parts, pre = [], []
            for q in node.args:
                t, p = self.as_float(q, env)
                parts.append(t)
                pre += p
            return "(np_clip %s)" % " ".join(parts), "float", pre
        bad(node, "numpy function outside the white-list")

    def np_dtype(self, node):
        if not (isinstance(node, ast.Name) and node.id == "np_float64"):
            bad(node, "dtype is not np_float64")

    # ---- statements ------------------------------------------------------------------------------------------------
    def raise_(self, err, handler):
        if handler is not None:
            return handler
        if self.ret not in ERR_OF_RET:
            bad(self.node, "an exception in a function whose result type has no error value")
        return ERR_OF_RET[self.ret] % err

    def with_pre(self, pre, body, handler, ind):
        """wrap `body` (text) in the checks / binds of `pre`, in evaluation order"""
        out, close = [], []
        for p in pre:
            if p[0] == "check":
                out.append("%sif %s then %s else" % (ind, p[1], self.raise_(p[2], handler)))
            elif p[0] == "bind":
                out.append("%smatch %s with None => %s | Some %s =>" % (ind, p[2], self.raise_(p[3], handler), p[1]))
                close.append("end")
            else:
                if handler is not None:
                    err = handler
                else:
                    err = self.raise_("e", None)
                out.append("%smatch %s with LErr e => %s | LOk %s =>" % (ind, p[2], err, p[1]))
                close.append("end")
        out.append(body)
        if close:
            out.append(ind + " ".join(close))
        return "\n".join(out)

    def ret_value(self, node, env, handler, ind):
        """the value of `return <node>` for this function's result type (with its checks)"""
        val = node.value
        if val is None:
            bad(node, "bare return")
        if self.ret in ("dres", "rres") and isinstance(val, ast.Constant) and type(val.value) is int:     # R7
            if val.value == 0:
                return ind + ("DInt0" if self.ret == "dres" else "RInt0")
            if self.ret == "dres":
                return ind + "DVal %s" % float_lit(val.value, val)
            bad(node, "return of a non-zero int literal")
        if self.ret == "odres" and isinstance(val, ast.Name) and val.id == "not_found" and "not_found" not in env:   # R12
            return ind + "None"
        t, ty, pre = self.expr(val, env)
        if self.ret == "dres":
            if ty == "float":
                body = "DVal %s" % t
            elif ty == "dres":
                body = t
            else:
                bad(node, "return of a %s from a function returning a number" % ty)
        elif self.ret == "odres":
            if ty != "dres":
                bad(node, "return of a %s" % ty)
            body = "Some %s" % t
        elif self.ret == "float":
            if ty != "float":
                bad(node, "return of a %s" % ty)
            body = t
        elif self.ret == "rres":
            if ty == "dres":
                body = "RDist %s" % t
            elif ty == "frac":
                body = "RFrac %s" % t
            else:
                bad(node, "return of a %s from _get_rough_distance" % ty)
        else:
            bad(node, "result type")
        return self.with_pre(pre, ind + body, handler, ind)

    def block(self, stmts, env, handler=None, ind="  "):
        """translate a statement list that ends in a return on every path"""
        if not stmts:
            bad(self.node, "a path through %s does not end in a return" % self.name)
        st, rest = stmts[0], stmts[1:]
        self.node = st
        c = ind + comment(st) + "\n"
        if is_docstring(st):                                                       # R1
            return self.block(rest, env, handler, ind)
        if isinstance(st, ast.Return):
            if rest:
                bad(rest[0], "statement after a return")
            return c + self.ret_value(st, env, handler, ind)
        if isinstance(st, ast.Assign):
            return c + self.assign(st, rest, env, handler, ind)
        if isinstance(st, ast.If):
            return c + self.if_(st, rest, env, handler, ind)
        if isinstance(st, ast.Try):
            if rest:
                bad(rest[0], "statement after a try whose branches all return")
            if handler is not None or st.orelse or st.finalbody or len(st.handlers) != 1:
                bad(st, "try statement outside the white-list")
            h = st.handlers[0]
            if not (isinstance(h.type, ast.Name) and h.type.id == "Exception" and h.name is None
                    and len(h.body) == 1 and isinstance(h.body[0], ast.Return)):
                bad(h, "handler is not `except Exception: return <value>`")
            hv = self.ret_value(h.body[0], env, None, "").strip()
            if "\n" in hv or " then " in hv or "match" in hv:
                bad(h, "the handler's value can raise")
            return c + self.block(st.body, env, "(%s)" % hv if " " in hv else hv, ind)     # R5
        if isinstance(st, ast.For):
            return c + self.for_(st, rest, env, handler, ind)
        bad(st, "statement form outside the white-list")

    def assign(self, st, rest, env, handler, ind):
        if len(st.targets) != 1:
            bad(st, "multiple assignment")
        tg = st.targets[0]
        if isinstance(tg, ast.Subscript):                                           # R10  r[c] = v
            if self.mode != "np" or not (isinstance(tg.value, ast.Name) and tg.value.id in env and env[tg.value.id][1] == "float"):
                bad(st, "subscript assignment outside the white-list")
            cnd, tc, pc = self.expr(tg.slice, env)
            val, pv = self.as_float(st.value, env)
            if tc != "bool" or pc or pv:
                bad(st, "masked assignment: mask / value")
            x = env[tg.value.id][0]
            return "%slet %s := if %s then %s else %s in\n" % (ind, x, cnd, val, x) + self.block(rest, env, handler, ind)
        if not isinstance(tg, ast.Name):
            bad(st, "assignment target")
        if self.name == "_get_rough_distance" and ast.dump(st) == ast.dump(ast.parse(DELTA_STMT).body[0]):   # R13
            sv = [n for n, (_c, ty) in env.items() if ty == "self"]
            if len(sv) != 1:
                bad(st, "self")
            env2 = dict(env)
            env2[tg.id] = (v(tg.id), "dv")
            return "%slet %s := self_delta_view %s in\n" % (ind, v(tg.id), env[sv[0]][0]) + self.block(rest, env2, handler, ind)
        t, ty, pre = self.expr(st.value, env)
        if ty in ("frac", "lit"):
            bad(st, "assignment of a %s" % ty)
        if tg.id in env and env[tg.id][1] != ty and not (env[tg.id][1], ty) == ("pynum", "float"):
            bad(st, "%s changes its type from %s to %s" % (tg.id, env[tg.id][1], ty))
        env2 = dict(env)
        env2[tg.id] = (v(tg.id), ty)
        body = "%slet %s := %s in\n" % (ind, v(tg.id), t) + self.block(rest, env2, handler, ind)
        return self.with_pre(pre, body, handler, ind)

    def returns(self, stmts):
        """every path through the statement list ends in a return"""
        if not stmts:
            return False
        last = stmts[-1]
        if isinstance(last, ast.Return):
            return True
        if isinstance(last, ast.Try):
            return self.returns(last.body) and all(self.returns(h.body) for h in last.handlers) and not last.orelse and not last.finalbody
        if isinstance(last, ast.If):
            return self.returns(last.body) and self.returns(last.orelse)
        return False

    def if_(self, st, rest, env, handler, ind):
        # R12  if x is not not_found: return x
        t = st.test
        if (isinstance(t, ast.Compare) and len(t.ops) == 1 and isinstance(t.ops[0], ast.IsNot) and isinstance(t.left, ast.Name)
                and isinstance(t.comparators[0], ast.Name) and t.comparators[0].id == "not_found" and "not_found" not in env
                and t.left.id in env and env[t.left.id][1] == "odres" and not st.orelse and self.returns(st.body)):
            x = t.left.id
            env1 = dict(env)
            env1[x] = (env[x][0], "dres")
            env0 = {k: q for k, q in env.items() if k != x}
            return ("%smatch %s with Some %s =>\n" % (ind, env[x][0], env[x][0]) + self.block(st.body, env1, handler, ind + "  ")
                    + "\n%s| None =>\n" % ind + self.block(rest, env0, handler, ind) + "\n%send" % ind)
        # R4  if not isinstance(x, float): x = float(x)
        if (not st.orelse and len(st.body) == 1 and isinstance(st.body[0], ast.Assign) and len(st.body[0].targets) == 1
                and isinstance(st.body[0].targets[0], ast.Name) and st.body[0].targets[0].id in env
                and env[st.body[0].targets[0].id][1] == "pynum"):
            x = st.body[0].targets[0].id
            tt, tty, tpre = self.expr(t, env)
            val, vty, vpre = self.expr(st.body[0].value, env)
            isin = "(negb (py_is_float %s))" % env[x][0]
            if tty != "bool" or tpre or tt != isin:
                bad(st, "a number is rebound under a test that is not `not isinstance(%s, float)`" % x)
            if vty != "float" or len(vpre) != 1 or vpre[0][0] != "bind" or vpre[0][1] != val:
                bad(st, "a number is rebound to something that is not float(...) of a number")
            env2 = dict(env)
            env2[x] = (v(x), "float")
            return ("%smatch (if %s then %s else py_the_float %s) with None => %s | Some %s =>\n"
                    % (ind, tt, vpre[0][2], env[x][0], self.raise_(vpre[0][3], handler), v(x))
                    + self.block(rest, env2, handler, ind) + "\n%send" % ind)
        tt, tty, tpre = self.expr(t, env)
        if tty != "bool":
            bad(st, "the test is a %s" % tty)
        # if C: ... return   [else: ... return]   then the rest
        if self.returns(st.body):
            if st.orelse:
                if not self.returns(st.orelse) or rest:
                    bad(st, "if / else where only one branch returns")
                els = self.block(st.orelse, env, handler, ind)
            else:
                els = self.block(rest, env, handler, ind)
            body = "%sif %s then\n" % (ind, tt) + self.block(st.body, env, handler, ind + "  ") + "\n%selse\n" % ind + els
            return self.with_pre(tpre, body, handler, ind)
        # R10  if flag: x = e; y = e'   (no else, no return): conditional rebinding, types unchanged
        if st.orelse or tpre or not isinstance(t, ast.Name):
            bad(st, "if statement outside the white-list")
        out = ""
        for s in st.body:
            if isinstance(s, ast.Assign) and len(s.targets) == 1 and isinstance(s.targets[0], ast.Subscript):
                tg = s.targets[0]
                if self.mode != "np" or not (isinstance(tg.value, ast.Name) and tg.value.id in env and env[tg.value.id][1] == "float"):
                    bad(s, "subscript assignment outside the white-list")
                cnd, tc, pc = self.expr(tg.slice, env)
                val, pv = self.as_float(s.value, env)
                if tc != "bool" or pc or pv:
                    bad(s, "masked assignment: mask / value")
                x = env[tg.value.id][0]
                out += "%s%s\n%slet %s := if %s then (if %s then %s else %s) else %s in\n" % (ind + "  ", comment(s), ind, x, tt, cnd, val, x, x)
                continue
            if not (isinstance(s, ast.Assign) and len(s.targets) == 1 and isinstance(s.targets[0], ast.Name)
                    and s.targets[0].id in env and s.targets[0].id != t.id):
                bad(s, "conditional statement outside the white-list")
            x = s.targets[0].id
            val, vty, vpre = self.expr(s.value, env)
            if vty != env[x][1] or vpre:
                bad(s, "conditional rebinding that changes the type or can raise")
            out += "%s%s\n%slet %s := if %s then %s else %s in\n" % (ind + "  ", comment(s), ind, v(x), tt, val, env[x][0])
            env = dict(env)
            env[x] = (v(x), vty)
        return out + self.block(rest, env, handler, ind)

    def for_(self, st, rest, env, handler, ind):                                    # R11
        if handler is not None or st.orelse or self.aux:
            bad(st, "for statement outside the white-list")
        if not (isinstance(st.iter, ast.Name) and st.iter.id == "TYPES_TO_DIST_FUNC" and "TYPES_TO_DIST_FUNC" in self.T.done
                and "TYPES_TO_DIST_FUNC" not in env):
            bad(st, "loop over something that is not the table TYPES_TO_DIST_FUNC")
        tg = st.target
        if not (isinstance(tg, ast.Tuple) and len(tg.elts) == 2 and all(isinstance(e, ast.Name) for e in tg.elts)
                and tg.elts[0].id != tg.elts[1].id and not {tg.elts[0].id, tg.elts[1].id} & set(env)):
            bad(st, "loop target is not a pair of fresh names")
        if [n for n in env if n not in [p for p, _ in self.params]]:
            bad(st, "a local variable is assigned before the loop")
        if not (len(st.body) == 1 and isinstance(st.body[0], ast.If) and not st.body[0].orelse and self.returns(st.body[0].body)):
            bad(st, "loop body is not `if C: return E`")
        a, b = tg.elts[0].id, tg.elts[1].id
        env2 = dict(env)
        env2[a] = (v(a), "pytype")
        env2[b] = (v(b), "distfn")
        inner = st.body[0]
        tt, tty, tpre = self.expr(inner.test, env2)
        if tty != "bool" or tpre:
            bad(inner, "loop test")
        lname = "g_%s_loop" % self.name
        pnames = " ".join(env[p][0] for p, _ in self.params)
        binders = " ".join("(%s : %s)" % (env[p][0], COQTYPE[ty]) for p, ty in self.params)
        body = ("  match l with\n  | [] =>\n" + self.block(rest, env, None, "    ") + "\n  | (%s, %s) :: l' =>\n" % (v(a), v(b))
                + "    %s\n" % comment(inner)
                + "    if %s then\n" % tt + self.block(inner.body, env2, None, "      ")
                + "\n    else %s l' %s\n  end" % (lname, pnames))
        self.aux.append("Fixpoint %s (l : list (pytype * distfn)) %s : %s :=\n%s." % (lname, binders, COQTYPE[self.ret], body))
        return "%s%s g_TYPES_TO_DIST_FUNC %s" % (ind, lname, pnames)


class Translator:
    def __init__(self, tree):
        self.tree = tree
        self.done = set()
        self.param_names = {}
        self.defaults = {}
        self.used_oracles = set()
        self.out = []

    def find(self):
        top, cls = {}, {}
        for node in self.tree.body:
            if isinstance(node, ast.FunctionDef):
                if node.name in top:
                    bad(node, "second definition of %s" % node.name)
                top[node.name] = node
            elif isinstance(node, ast.ClassDef):
                if node.name in top:
                    bad(node, "second definition of %s" % node.name)
                top[node.name] = node
                if node.name == "DistanceMixin":
                    if node.decorator_list or node.bases or node.keywords:
                        bad(node, "DistanceMixin has decorators / bases")
                    for m in node.body:
                        if isinstance(m, ast.FunctionDef):
                            if m.name in cls:
                                bad(m, "second definition of DistanceMixin.%s" % m.name)
                            cls[m.name] = m
                        elif not is_docstring(m):
                            bad(m, "statement in the body of DistanceMixin that is not a method")
            elif isinstance(node, (ast.Assign, ast.AnnAssign, ast.AugAssign)):
                for tg in (node.targets if isinstance(node, ast.Assign) else [node.target]):
                    for n in ast.walk(tg):
                        if isinstance(n, ast.Name):
                            if n.id in top:
                                bad(node, "second binding of %s" % n.id)
                            top[n.id] = node
            elif isinstance(node, (ast.Import, ast.ImportFrom)):
                for al in node.names:
                    nm = (al.asname or al.name).split(".")[0]
                    if nm in FUNCS or nm in ORACLES or nm in ("TYPES_TO_DIST_FUNC", "_get_item_length", "DistanceMixin"):
                        bad(node, "import rebinding %s" % nm)
            elif isinstance(node, ast.If):
                # `if TYPE_CHECKING:` only: its body is never executed
                if not (isinstance(node.test, ast.Name) and node.test.id == "TYPE_CHECKING" and not node.orelse):
                    bad(node, "module-level if that is not `if TYPE_CHECKING:`")
            elif not is_docstring(node):
                bad(node, "module-level statement outside the white-list")
        # a translated name must not be rebound anywhere else (global / nested assignment, del)
        watched = set(FUNCS) | set(ORACLES) | {"TYPES_TO_DIST_FUNC", "_get_item_length", "not_found", "time_to_seconds", "np_float64", "only_numbers"}
        stores = {}
        for node in ast.walk(self.tree):
            if isinstance(node, (ast.Global, ast.Nonlocal)) and set(node.names) & watched:
                bad(node, "global statement on a translated name")
            if isinstance(node, ast.Name) and isinstance(node.ctx, (ast.Store, ast.Del)) and node.id in watched:
                stores[node.id] = stores.get(node.id, 0) + 1
                if stores[node.id] > (1 if node.id == "TYPES_TO_DIST_FUNC" else 0):
                    bad(node, "rebinding of %s" % node.id)
        for nm in watched & (set(FUNCS) | {"_get_item_length"}):
            if not isinstance(top.get(nm), ast.FunctionDef):
                bad(self.tree.body[0], "%s is not a module-level function" % nm)
        for nm in ORACLES:
            if not isinstance(top.get(nm), ast.FunctionDef):
                bad(self.tree.body[0], "%s is not a module-level function" % nm)
        return top, cls

    def signature(self, fn, name, ptypes, is_method=False):
        a = fn.args
        if fn.decorator_list:
            bad(fn, "decorator on %s" % name)
        if a.vararg or a.kwarg or a.kwonlyargs or a.posonlyargs or a.kw_defaults:
            bad(fn, "parameter kinds outside the white-list")
        if len(a.args) != len(ptypes):
            bad(fn, "%s has %d parameters, the model knows %d" % (name, len(a.args), len(ptypes)))
        names = [p.arg for p in a.args]
        if len(set(names)) != len(names):
            bad(fn, "duplicate parameter")
        defaults = {}
        first = len(names) - len(a.defaults)
        lines = []
        for i, d in enumerate(a.defaults):
            k = first + i
            ty = ptypes[k]
            if ty == "float":
                if isinstance(d, ast.Constant) and isinstance(d.value, (int, float)) and not isinstance(d.value, bool):
                    txt = float_lit(d.value, d)
                elif isinstance(d, ast.UnaryOp) and isinstance(d.op, ast.USub) and isinstance(d.operand, ast.Constant) \
                        and isinstance(d.operand.value, (int, float)) and not isinstance(d.operand.value, bool):
                    txt = float_lit(-d.operand.value, d)
                else:
                    bad(d, "default of %s is not a number literal" % names[k])
            elif ty == "bool":
                if not (isinstance(d, ast.Constant) and isinstance(d.value, bool)):
                    bad(d, "default of %s is not a bool literal" % names[k])
                txt = "true" if d.value else "false"
            else:
                bad(d, "default value for a parameter of type %s" % ty)
            defaults[k] = txt
            lines.append("Definition g_%s_default_arg%d : %s := %s.   (* %s=%s *)" % (name, k, COQTYPE[ty], txt, names[k], comment(d)[3:-3]))
        return names, defaults, lines

    def function(self, fn, name, ptypes, ret, mode):
        names, defaults, lines = self.signature(fn, name, ptypes)
        self.param_names[name], self.defaults[name] = names, defaults
        F = Fn(self, name, ret, mode)
        F.params = list(zip(names, ptypes))
        F.node = fn
        env = {n: (v(n), ty) for n, ty in F.params}
        body = F.block(fn.body, env)
        binders = " ".join("(%s : %s)" % (v(n), COQTYPE[ty]) for n, ty in F.params)
        hdr = "(* %s:%d  def %s(%s) *)" % (SOURCE, fn.lineno, name, comment(fn.args)[3:-3])
        self.out.append("\n".join([hdr] + lines + F.aux + ["Definition g_%s %s : %s :=\n%s." % (name, binders, COQTYPE[ret], body)]))
        self.done.add(name)

    def table(self, node):
        if not (isinstance(node, ast.Assign) and len(node.targets) == 1 and isinstance(node.value, ast.List)):
            bad(node, "TYPES_TO_DIST_FUNC is not a list literal")
        rows = []
        for e in node.value.elts:
            if not (isinstance(e, ast.Tuple) and len(e.elts) == 2 and isinstance(e.elts[1], ast.Name)):
                bad(e, "entry of TYPES_TO_DIST_FUNC is not a (type, function) pair")
            ty, fn = e.elts
            try:
                key = ast.unparse(ty)
            except Exception:  # noqa
                key = None
            if key not in TYPE_NAMES:
                bad(ty, "type %r is not one the model knows" % key)
            if fn.id not in FUNCS or fn.id not in self.done or FUNCS[fn.id][1] != "dres":
                bad(fn, "%s is not a translated distance function" % fn.id)
            g = "g_%s" % fn.id
            if FUNCS[fn.id][0][:2] == ["pynum", "pynum"]:
                g = "lift_num %s" % g                                                    # R11
            rows.append("   (%s, %s)" % (TYPE_NAMES[key], g))
        self.out.append("(* %s:%d  TYPES_TO_DIST_FUNC *)\nDefinition g_TYPES_TO_DIST_FUNC : list (pytype * distfn) :=\n  [\n%s\n  ]."
                        % (SOURCE, node.lineno, ";\n".join(rows)))
        self.done.add("TYPES_TO_DIST_FUNC")

    def run(self):
        top, cls = self.find()
        # R13: the code behind the primitives root_count / item_length is the code the model was written against
        for key, want in sorted(PINNED.items()):
            fn = cls.get(key.split(".")[1]) if "." in key else top.get(key)
            if not isinstance(fn, ast.FunctionDef):
                bad(self.tree.body[0], "%s not found" % key)
            got = pin_of(fn)
            if got != want:
                bad(fn, "%s is called through a primitive of the hand model and its text changed (ast sha256 %s, pinned %s)" % (key, got, want))
        for name in ORDER:
            if name == "TYPES_TO_DIST_FUNC":
                self.table(top.get(name))
            elif name == "_get_rough_distance":
                fn = cls.get(name)
                if fn is None:
                    bad(self.tree.body[0], "DistanceMixin._get_rough_distance not found")
                self.function(fn, name, ["self"], "rres", "py")
            else:
                ptypes, ret, mode = FUNCS[name]
                self.function(top[name], name, ptypes, ret, mode)
        head = ["(* GENERATED by harness/translate/distance.py from %s - do not edit.\n"
                "   Regenerated from the current source and compiled on every run of ./check C19;\n"
                "   coq/srctie/DistGenEquiv.v proves every definition below equal to the hand-written model. *)" % SOURCE,
                "From Coq Require Import List ZArith NArith Bool PrimFloat.",
                "Import ListNotations.",
                "From DD Require Import Base.Value Dist.DistModel Dist.DistSrcPrims.",
                "Local Open Scope float_scope.",
                "",
                "Section Oracles.",
                "(* R9: functions of the source that are not translated (math.log) *)"]
        for o in ORACLES:
            head.append("Variable o_%s : %s." % (o, ORACLE_TYPES[o]))
        return "\n".join(head) + "\n\n" + "\n\n".join(self.out) + "\n\nEnd Oracles.\n"


def translate(repo_root):
    p = os.path.join(repo_root, SOURCE)
    with open(p, encoding="utf-8") as f:
        src = f.read()
    try:
        tree = ast.parse(src)
    except SyntaxError as e:
        raise Unsupported("%s: does not parse: %s" % (SOURCE, e))
    return Translator(tree).run()


if __name__ == "__main__":
    import sys
    root = sys.argv[1] if len(sys.argv) > 1 else "/repo"
    if len(sys.argv) > 2 and sys.argv[2] == "--pins":
        T = Translator(ast.parse(open(os.path.join(root, SOURCE)).read()))
        top, cls = T.find()
        for key in sorted(PINNED):
            fn = cls.get(key.split(".")[1]) if "." in key else top.get(key)
            print(key, pin_of(fn))
    else:
        sys.stdout.write(translate(root))

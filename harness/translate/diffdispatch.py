"""Source tie of C02 / C03: deepdiff/diff.py (dispatcher + per-type comparers)  ->  Gallina
(coq/srctie/DiffGen.v, module DDGen.DiffGen).

translate(repo_root) reads /repo's CURRENT deepdiff/diff.py (and four names of deepdiff/helper.py), walks the
`ast` of the methods listed in FUNCS with an explicit white-list of node shapes and emits one Gallina
definition `g_<method>` per method (15 methods: the dispatcher, the leaf comparers, _diff_dict, and the sequence
comparers _diff_iterable_in_order / _diff_by_forming_pairs_and_comparing_one_by_one / _get_matching_pairs /
_compare_in_order / _diff_ordered_iterable_by_difflib), statement by statement, over the Python-level primitives of
coq/theories/Diff/DiffSrcPrims.v (levels, branch_deeper, isinstance, SetOrdered algebra, the item-hash table,
...).  None of the functions of Diff/DiffModel.v that are re-derived here is used.  Anything outside the
white-list raises Unsupported(file:line: what).  No eval, no import of deepdiff.

SHAPE OF THE OUTPUT.  Every method returns what it adds to the result tree (`res` = reported levels x recorded
opcode paths).  Inside a method the accumulated output is the variable `r` (initially nil_res); a statement
that reports appends to it (`let r := seq r (...) in`), an assignment is a `let`, `return` yields `r`, an
`if` whose branches never return is joined through the tuple of the variables it assigns, an `if` with a
returning branch gets the rest of the method as the continuation of both branches (textual duplication),
`for x in l: body` is `for_each (fun x => body) l`.  The recursive call self._diff(level') is the section
variable `rec` (open recursion); DiffGen.g_run closes it by fuel.  Equality with the hand-written model is
the business of coq/srctie/DiffGenEquiv.v.

RULES (each is part of the trusted base of this tie; listed in coq/theories/Diff/NOTES_srctie.md)
 D   DEFAULT-OPTIONS FORM.  `self.<option>` for an option outside the model's configuration is replaced by its
     default value, which is READ FROM THE SIGNATURE of DeepDiff.__init__ in the current source and must be the
     falsy / None value listed in DEFAULT_OPTIONS (a changed default is rejected).  Conditions are folded over
     these constants only (`K and x` / `K or x` / `not K` / `K is None` / `x if K else y`); an `if` / `elif` whose
     test folds to a constant is replaced by the live branch, a `for` over a default-empty option is dropped.
     Model options: zip_ordered_iterables, ignore_private_variables, threshold_to_diff_deeper (a ratio),
     exclude_paths (truthiness = the boolean `has_excl`, membership = the oracle `excl`).
 D2  parameters `override`, `print_as_attribute`, `override_t1`, `override_t2` of _diff_dict have their default
     value (no caller inside the fragment passes them; _diff_obj / _diff_enum are outside the universe).
 D3  self._skip_this_key(..) = False (include_paths default None), self._use_custom_operator(..) = False
     (custom_operators default None): both defaults are checked.
 O   OUT-OF-UNIVERSE CLASSES.  isinstance(x, C) is False for C in datetime.*, ipranges, uuids, np_ndarray,
     np_floating, PydanticBaseModel, Enum (no such value in Base/Value.v); the branch is dropped.  The final
     `else: self._diff_obj(..)` and a namedtuple's `_diff_obj` become `out_of_universe`.
 S1  skipped statements: docstrings; `if self._count_diff() is StopIteration: return` (max_diffs default None is
     checked); cycle-guard statements (`item_id = id(..)`, `if parents_ids and item_id in parents_ids: continue`,
     `parents_ids_added = add_to_frozen_set(..)`) - values are trees; `<level>.report_type = ..`;
     `tree = self.tree if local_tree is None else local_tree`.
 S2  arguments parents_ids / _original_type / local_tree=local_tree are dropped (the output tree is `r`).
 S3  an assignment whose right-hand side is built from names / attributes / constants / conditional expressions
     only and cannot be translated binds an OPAQUE local; any later use of it is rejected.
 T   fixed-shape statements (compared by ast.dump with the template): the union-of-child-paths set
     comprehension of _diff_dict; unified_diff(..splitlines(), ..splitlines(), lineterm=''); list(diff);
     '\\n'.join(diff); level.additional['diff'] = ..; try/except of `.decode('ascii')` and of `._asdict`.
 H   helper.py: strings = (str, bytes), bytes_type = bytes, booleans = (bool, np_bool_), numbers contains
     int and float (only_numbers) - checked textually.
 S4  `opcodes_with_values` (the Opcode objects with the old / new values) is an opaque local: its `.append(..)` statements
     are skipped, `return opcodes_with_values` returns nothing, and `self._iterable_opcodes[level.path(force=FORCE_DEFAULT)] = ..`
     records the level's path (what DiffModel records).  A call `x = self.<comparer>(.., local_tree=T)` adds the comparer's
     output to the local TreeResult T (`TreeResult()` = nil_res); `for report_type, levels in T.items(): if levels:
     self.tree[report_type] |= levels` (fixed shape) adds T to the output.
 T2  fixed shapes of the sequence methods: `[((e1, e2), (x, y)) for i, (x, y) in enumerate(zip_longest(a, b,
     fillvalue=ListItemRemovedOrAdded))]`; `difflib.SequenceMatcher(isjunk=None, a=level.t1, b=level.t2, autojunk=False)` +
     `.get_opcodes()` (the oracle `ops` at the level's path); loops `for (i, j), (x, y) in <pairs>`, `for index, x in
     enumerate(seq[a:b])`, `for tag, i1, i2, j1, j2 in opcodes`; index parameters are `option nat` (`x is None`, `i + x`).
     self._iterables_subscriptable / self._all_values_basic_hashable are primitives (not translated).
"""
import ast
import os

SRC = "deepdiff/diff.py"
HELPER = "deepdiff/helper.py"


class Unsupported(Exception):
    pass


def bad(node, what):
    raise Unsupported("%s:%s: %s%s" % (SRC, getattr(node, "lineno", "?"), what,
                                       (" [" + type(node).__name__ + "]") if node is not None else ""))


class K:
    """a constant known at translation time (rule D)"""
    def __init__(self, v):
        self.v = v


class Lit:
    """a string literal (its reading depends on the consumer)"""
    def __init__(self, s):
        self.s = s


# option -> the default value it must have in DeepDiff.__init__ (as source text of the default expression)
DEFAULT_OPTIONS = {
    "ignore_string_case": ("False", False), "ignore_numeric_type_changes": ("False", False),
    "ignore_string_type_changes": ("False", False), "use_log_scale": ("False", False),
    "math_epsilon": ("None", None), "significant_digits": ("None", None), "use_enum_value": ("False", False),
    "ignore_nan_inequality": ("False", False), "ignore_order": ("False", False), "ignore_order_func": ("None", None),
    "iterable_compare_func": ("None", None), "include_paths": ("None", None), "custom_operators": ("None", None),
    "ignore_type_in_groups": ("None", None), "max_diffs": ("None", None), "report_repetition": ("False", False),
}
EMPTY_BY_DEFAULT = {"ignore_type_in_groups", "custom_operators"}
MODEL_OPTIONS = {
    "zip_ordered_iterables": ("(zip c)", "bool"), "ignore_private_variables": ("(ignore_private c)", "bool"),
    "threshold_to_diff_deeper": ("c", "thr"), "exclude_paths": ("excl", "exclpaths"),
}
KINDS = {"type_changes": "KType", "values_changed": "KValue", "dictionary_item_added": "KDictAdd",
         "dictionary_item_removed": "KDictRem", "iterable_item_added": "KIterAdd", "iterable_item_removed": "KIterRem",
         "iterable_item_moved": "KIterMoved", "set_item_added": "KSetAdd", "set_item_removed": "KSetRem"}
CLASSES = {"booleans": "C_booleans", "strings": "C_strings", "numbers": "C_numbers", "Mapping": "C_Mapping",
           "tuple": "C_tuple", "set": "C_set", "frozenset": "C_frozenset", "SetOrdered": "C_SetOrdered",
           "Iterable": "C_Iterable", "Sequence": "C_Sequence", "bytes_type": "C_bytes_type", "str": "C_str"}
OUTSIDE_CLASSES = {"datetime.datetime", "datetime.date", "datetime.timedelta", "datetime.time", "ipranges", "uuids",
                   "np_ndarray", "np_floating", "PydanticBaseModel", "Enum"}
RELCLASSES = {"DictRelationship", "AttributeRelationship", "SubscriptableIterableRelationship",
              "NonSubscriptableIterableRelationship", "SetRelationship"}
OUTSIDE_COMPARERS = {"_diff_datetime", "_diff_ipranges", "_diff_time", "_diff_uuids", "_diff_numpy_array", "_diff_obj",
                     "_diff_enum", "_diff_iterable_with_deephash"}
COQTY = {"level": "level", "obj": "obj", "atom": "atom", "nat": "nat", "bool": "bool", "kind": "rkind",
         "atoms": "list atom", "paths": "list path", "ht": "list (pystr * atom)", "hashes": "list pystr",
         "hash": "pystr", "tree": "res", "relclass": "relclass", "pystr": "pystr", "lines": "pystr", "ty": "ty",
         "onat": "option nat", "items": "list obj", "pairs": "list ((nat * nat) * (obj * obj))", "opcodes": "list opcode",
         "optag": "optag"}
DROPPED_PARAMS = {"parents_ids", "_original_type", "local_tree"}

# method -> (parameters after self: (name, default source text or None, kind)), kind: a COQTY key, "drop", or ("fixed", value)
FUNCS = {
    "_report_result": [("report_type", None, "kind"), ("change_level", None, "level"), ("local_tree", "None", "drop")],
    "_diff_booleans": [("level", None, "level"), ("local_tree", "None", "drop")],
    "_diff_numbers": [("level", None, "level"), ("local_tree", "None", "drop"), ("report_type_change", "True", "bool")],
    "_diff_types": [("level", None, "level"), ("local_tree", "None", "drop")],
    "_diff_str": [("level", None, "level"), ("local_tree", "None", "drop")],
    "_diff_set": [("level", None, "level"), ("local_tree", "None", "drop")],
    "_compare_in_order": [("level", None, "level"), ("t1_from_index", "None", "onat"), ("t1_to_index", "None", "onat"),
                          ("t2_from_index", "None", "onat"), ("t2_to_index", "None", "onat")],
    "_get_matching_pairs": [("level", None, "level"), ("t1_from_index", "None", "onat"), ("t1_to_index", "None", "onat"),
                            ("t2_from_index", "None", "onat"), ("t2_to_index", "None", "onat")],
    "_diff_by_forming_pairs_and_comparing_one_by_one": [
        ("level", None, "level"), ("local_tree", None, "drop"), ("parents_ids", "frozenset()", "drop"), ("_original_type", "None", "drop"),
        ("child_relationship_class", "None", "relclass"), ("t1_from_index", "None", "onat"), ("t1_to_index", "None", "onat"),
        ("t2_from_index", "None", "onat"), ("t2_to_index", "None", "onat")],
    "_diff_ordered_iterable_by_difflib": [
        ("level", None, "level"), ("local_tree", None, "drop"), ("parents_ids", "frozenset()", "drop"), ("_original_type", "None", "drop"),
        ("child_relationship_class", "None", "relclass")],
    "_diff_iterable_in_order": [("level", None, "level"), ("parents_ids", "frozenset()", "drop"), ("_original_type", "None", "drop"),
                                ("local_tree", "None", "drop")],
    "_diff_iterable": [("level", None, "level"), ("parents_ids", "frozenset()", "drop"), ("_original_type", "None", "drop"),
                       ("local_tree", "None", "drop")],
    "_diff_tuple": [("level", None, "level"), ("parents_ids", None, "drop"), ("local_tree", "None", "drop")],
    "_diff_dict": [("level", None, "level"), ("parents_ids", "frozenset([])", "drop"), ("print_as_attribute", "False", ("fixed", False)),
                   ("override", "False", ("fixed", False)), ("override_t1", "None", ("fixed", None)),
                   ("override_t2", "None", ("fixed", None)), ("local_tree", "None", "drop")],
    "_diff": [("level", None, "level"), ("parents_ids", "frozenset()", "drop"), ("_original_type", "None", "drop"),
              ("local_tree", "None", "drop")],
}
ORDER = ["_report_result", "_diff_booleans", "_diff_numbers", "_diff_types", "_diff_str", "_diff_set", "_compare_in_order",
         "_get_matching_pairs", "_diff_by_forming_pairs_and_comparing_one_by_one", "_diff_ordered_iterable_by_difflib",
         "_diff_iterable_in_order", "_diff_iterable", "_diff_tuple", "_diff_dict", "_diff"]
USES_REC = {"_diff_dict", "_diff_iterable", "_diff_tuple", "_diff", "_diff_by_forming_pairs_and_comparing_one_by_one",
            "_diff_ordered_iterable_by_difflib", "_diff_iterable_in_order"}
RETURNS = {"_compare_in_order": "pairs", "_get_matching_pairs": "pairs"}          # value-returning methods (others return res)
OPTAGS = {"equal": "OEqual", "replace": "OReplace", "delete": "ODelete", "insert": "OInsert"}       # checked: exactly the methods whose text mentions rec

T_UNION = ("SetComp(elt=JoinedStr(values=[FormattedValue(value=Call(func=Attribute(value=Name(id='level', ctx=Load()), attr='path', "
           "ctx=Load()), args=[], keywords=[]), conversion=-1), Constant(value='['), FormattedValue(value=Call(func=Name(id='repr', "
           "ctx=Load()), args=[Name(id='key', ctx=Load())], keywords=[]), conversion=-1), Constant(value=']')]), "
           "generators=[comprehension(target=Name(id='key', ctx=Store()), iter=%s, ifs=[], is_async=0)])")


def clean(s):
    return s.replace("(*", "( *").replace("*)", "* )").replace('"', "'")


def is_doc(s):
    return isinstance(s, ast.Expr) and isinstance(s.value, ast.Constant) and isinstance(s.value.value, str)


def dotted(e):
    if isinstance(e, ast.Name):
        return e.id
    if isinstance(e, ast.Attribute):
        d = dotted(e.value)
        return None if d is None else d + "." + e.attr
    return None


class Fn:
    def __init__(self, tr, name, node):
        self.tr, self.name, self.node = tr, name, node
        self.selfname = None
        self.uses_rec = False
        self.ntmp = 0
        self.ret = RETURNS.get(name)

    # ---------------------------------------------------------------- signature
    def signature(self):
        fn, spec = self.node, FUNCS[self.name]
        a = fn.args
        if fn.decorator_list or a.vararg or a.kwarg or a.kwonlyargs or a.posonlyargs or getattr(fn, "type_params", None):
            bad(fn, "unsupported signature / decorator of %s" % self.name)
        names = [x.arg for x in a.args]
        if len(names) != len(spec) + 1 or names[1:] != [p[0] for p in spec]:
            bad(fn, "parameters of %s are %s, expected %s" % (self.name, names[1:], [p[0] for p in spec]))
        self.selfname = names[0]
        defaults = [None] * (len(a.args) - len(a.defaults)) + list(a.defaults)
        env = {}
        self.params = []
        for arg, d, (pname, dsrc, kind) in zip(a.args[1:], defaults[1:], spec):
            got = None if d is None else ast.unparse(d)
            if got != dsrc:
                bad(fn, "default of parameter %s of %s is %s, expected %s" % (pname, self.name, got, dsrc))
            if kind == "drop":
                continue
            if isinstance(kind, tuple):
                env[pname] = K(kind[1])
                continue
            env[pname] = kind
            self.params.append((pname, kind))
        return env

    # ---------------------------------------------------------------- expressions
    def var(self, n):
        return "v_" + n

    def lookup(self, e, env):
        if e.id in env:
            t = env[e.id]
            if isinstance(t, K):
                return t
            if t == "opaque":
                bad(e, "use of the opaque local %r (rule S3)" % e.id)
            return (self.var(e.id), t)
        if e.id == "notpresent":
            return ("notpresent", "obj")
        if e.id in RELCLASSES:
            return (e.id, "relclass")
        bad(e, "unknown name %r" % e.id)

    def option(self, e):
        nm = e.attr
        if nm in MODEL_OPTIONS:
            return MODEL_OPTIONS[nm]
        if nm in DEFAULT_OPTIONS:
            self.tr.need_default(nm, e)
            return K(DEFAULT_OPTIONS[nm][1])
        bad(e, "self.%s is not a known option" % nm)

    def is_self(self, e):
        return isinstance(e, ast.Name) and e.id == self.selfname

    def truthy(self, x, node):
        """boolean reading of a translated expression"""
        if isinstance(x, K):
            return K(bool(x.v))
        t, ty = x
        if ty == "bool":
            return x
        if ty in ("atoms", "paths", "hashes"):
            return ("(negb (Nat.eqb (length %s) 0))" % t, "bool")
        if ty == "lines":
            return ("(lines_nonempty %s)" % t, "bool")
        if ty == "thr":
            return ("(thr_truthy c)", "bool")
        if ty == "exclpaths":
            return ("has_excl", "bool")
        bad(node, "truthiness of a %s" % ty)

    def term(self, x, node):
        if isinstance(x, K):
            if x.v is True:
                return ("true", "bool")
            if x.v is False:
                return ("false", "bool")
            bad(node, "constant %r used as a value" % (x.v,))
        if isinstance(x, Lit):
            bad(node, "string literal %r in an unsupported position" % x.s)
        return x

    def as_obj(self, x, node):
        t, ty = self.term(x, node)
        if ty == "obj":
            return t
        if ty == "atom":
            return "(oa %s)" % t
        bad(node, "a %s where an object is expected" % ty)

    def as_onat(self, x, node):
        if isinstance(x, K) and x.v is None:
            return "None"
        t, ty = self.term(x, node)
        if ty == "onat":
            return t
        if ty == "nat":
            return "(Some %s)" % t
        bad(node, "a %s where an index or None is expected" % ty)

    def as_items(self, x, node):
        t, ty = self.term(x, node)
        if ty == "items":
            return t
        if ty == "obj":
            return "(iter_items %s)" % t
        bad(node, "iteration over a %s as a sequence" % ty)

    def as_param(self, x, node):
        t, ty = self.term(x, node)
        if ty == "atom":
            return "(PmKey %s)" % t
        if ty == "nat":
            return "(PmIdx %s)" % t
        bad(node, "a %s as child_relationship_param" % ty)

    def expr(self, e, env):
        if isinstance(e, ast.Constant):
            if e.value is None or e.value is True or e.value is False:
                return K(e.value)
            if isinstance(e.value, int):
                if e.value < 0:
                    bad(e, "negative constant")
                return (str(e.value), "nat")
            if isinstance(e.value, str):
                return Lit(e.value)
            bad(e, "constant %r" % (e.value,))
        if isinstance(e, ast.Name):
            if not isinstance(e.ctx, ast.Load):
                bad(e, "name in store context")
            return self.lookup(e, env)
        if isinstance(e, ast.Attribute):
            if self.is_self(e.value):
                return self.option(e)
            if isinstance(e.value, ast.Subscript) and e.attr == "item":                      # table[h].item
                tb = self.term(self.expr(e.value.value, env), e)
                ix = self.term(self.expr(e.value.slice, env), e)
                if tb[1] != "ht" or ix[1] != "hash":
                    bad(e, "[..].item on %s / %s" % (tb[1], ix[1]))
                return ("(ht_item %s %s)" % (tb[0], ix[0]), "atom")
            v = self.term(self.expr(e.value, env), e)
            if v[1] == "level" and e.attr in ("t1", "t2"):
                return ("(l%s %s)" % (e.attr, v[0]), "obj")
            bad(e, "attribute %r of a %s" % (e.attr, v[1]))
        if isinstance(e, ast.UnaryOp):
            if not isinstance(e.op, ast.Not):
                bad(e, "unary operator")
            x = self.truthy(self.expr(e.operand, env), e)
            if isinstance(x, K):
                return K(not x.v)
            return ("(negb %s)" % x[0], "bool")
        if isinstance(e, ast.BoolOp):
            is_and = isinstance(e.op, ast.And)
            parts = []
            for v in e.values:
                x = self.truthy(self.expr_lazy(v, env), v)
                if isinstance(x, K):
                    if x.v != is_and:          # False in an `and`, True in an `or`: decides (operands are pure)
                        return K(x.v)
                    parts.append("true" if x.v else "false")
                else:
                    parts.append(x[0])
            if all(p in ("true", "false") for p in parts):
                return K(is_and)
            return ("(%s)" % (" && " if is_and else " || ").join(parts), "bool")
        if isinstance(e, ast.IfExp):
            c = self.truthy(self.expr(e.test, env), e)
            if isinstance(c, K):
                return self.expr(e.body if c.v else e.orelse, env)
            a, b = self.term(self.expr(e.body, env), e), self.term(self.expr(e.orelse, env), e)
            if a[1] != b[1]:
                bad(e, "conditional expression of types %s / %s" % (a[1], b[1]))
            return ("(if %s then %s else %s)" % (c[0], a[0], b[0]), a[1])
        if isinstance(e, ast.Compare):
            return self.compare(e, env)
        if isinstance(e, ast.BinOp):
            a, b = self.term(self.expr(e.left, env), e), self.term(self.expr(e.right, env), e)
            op = type(e.op)
            if (a[1], b[1]) == ("atoms", "atoms") and op in (ast.BitAnd, ast.Sub, ast.BitOr):
                f = {ast.BitAnd: "so_and", ast.Sub: "so_sub", ast.BitOr: "so_or"}[op]
                return ("(%s %s %s)" % (f, a[0], b[0]), "atoms")
            if (a[1], b[1]) == ("hashes", "hashes") and op is ast.Sub:
                return ("(hashes_sub %s %s)" % (a[0], b[0]), "hashes")
            if (a[1], b[1]) == ("nat", "nat") and op is ast.Add:
                return ("(%s + %s)" % (a[0], b[0]), "nat")
            if (a[1], b[1]) == ("nat", "onat") and op is ast.Add:
                return ("(%s + oget %s)" % (a[0], b[0]), "nat")
            if (a[1], b[1]) == ("nat", "nat") and op is ast.Div:
                return ((a[0], b[0]), "quot")
            bad(e, "binary operator %s on %s, %s" % (op.__name__, a[1], b[1]))
        if isinstance(e, ast.Subscript):
            if not isinstance(e.ctx, ast.Load):
                bad(e, "subscript in store context")
            if isinstance(e.slice, ast.Slice):
                a = self.term(self.expr(e.value, env), e)
                if a[1] != "obj" or e.slice.step is not None or e.slice.lower is None or e.slice.upper is None:
                    bad(e, "slice")
                lo, hi = (self.as_onat(self.expr(z, env), e) for z in (e.slice.lower, e.slice.upper))
                return ("(py_slice %s %s %s)" % (a[0], lo, hi), "items")
            a, b = self.term(self.expr(e.value, env), e), self.term(self.expr(e.slice, env), e)
            if (a[1], b[1]) == ("obj", "atom"):
                return ("(dict_getitem %s %s)" % (a[0], b[0]), "obj")
            bad(e, "subscript of a %s by a %s" % (a[1], b[1]))
        if isinstance(e, ast.ListComp):
            return self.listcomp(e, env)
        if isinstance(e, ast.SetComp):
            g = e.generators[0] if len(e.generators) == 1 else bad(e, "set comprehension")
            if ast.dump(e) != T_UNION % ast.dump(g.iter):
                bad(e, "set comprehension that is not the child-path template (rule T)")
            if env.get("level") != "level":
                bad(e, "template T-union outside a method with a level")
            it = self.term(self.expr(g.iter, env), e)
            if it[1] != "atoms":
                bad(e, "child paths of a %s" % it[1])
            return ("(child_paths %s %s)" % (self.var("level"), it[0]), "paths")
        if isinstance(e, ast.Call):
            return self.call(e, env)
        bad(e, "expression")

    def expr_lazy(self, e, env):
        return self.expr(e, env)

    def compare(self, e, env):
        if len(e.ops) != 1:
            bad(e, "chained comparison")
        op, L, R = e.ops[0], e.left, e.comparators[0]
        a = self.expr(L, env)
        b = K("fill") if (isinstance(R, ast.Name) and R.id == "ListItemRemovedOrAdded") else self.expr(R, env)
        neg = isinstance(op, (ast.NotEq, ast.IsNot, ast.NotIn))

        def out(t):
            return ("(negb %s)" % t if neg else t, "bool")
        if isinstance(op, (ast.Is, ast.IsNot)) and isinstance(R, ast.Name) and R.id == "ListItemRemovedOrAdded":
            a = self.term(self.expr(L, env), e)
            if a[1] != "obj":
                bad(e, "`is ListItemRemovedOrAdded` on a %s" % a[1])
            return out("(is_fill %s)" % a[0])
        if isinstance(op, (ast.Is, ast.IsNot)):
            if isinstance(b, K) and b.v is None and not isinstance(a, K) and not isinstance(a, Lit) and a[1] == "onat":
                return out("(onat_is_None %s)" % a[0])
            if isinstance(b, K) and b.v is None:
                if isinstance(a, K):
                    return K((a.v is None) != neg)
                a = self.term(a, e)
                if a[1] != "obj":
                    bad(e, "`is None` on a %s" % a[1])
                return out("(is_None %s)" % a[0])
            a, b = self.term(a, e), self.term(b, e)
            if (a[1], b[1]) != ("obj", "obj"):
                bad(e, "`is` on %s, %s" % (a[1], b[1]))
            return out("(is_same_object %s %s)" % (a[0], b[0]))
        if isinstance(op, (ast.Eq, ast.NotEq)) and isinstance(b, Lit) and not isinstance(a, (K, Lit)) and a[1] == "optag":
            if b.s not in OPTAGS:
                bad(e, "opcode tag %r" % b.s)
            return out("(optag_eqb %s %s)" % (a[0], OPTAGS[b.s]))
        if isinstance(op, (ast.Eq, ast.NotEq)):
            a, b = self.term(a, e), self.term(b, e)
            f = {("obj", "obj"): "obj_eq", ("ty", "ty"): "ty_eqb", ("nat", "nat"): "Nat.eqb"}.get((a[1], b[1]))
            if f is None:
                bad(e, "== on %s, %s" % (a[1], b[1]))
            return out("(%s %s %s)" % (f, a[0], b[0]))
        if isinstance(op, (ast.In, ast.NotIn)):
            if isinstance(a, Lit) and a.s == "\n":
                b = self.term(b, e)
                if b[1] != "obj":
                    bad(e, "'\\n' in a %s" % b[1])
                return out("(str_contains nl %s)" % b[0])
            bad(e, "`in`")
        if isinstance(op, (ast.Lt, ast.Gt, ast.LtE, ast.GtE)):
            a, b = self.term(a, e), self.term(b, e)
            if isinstance(op, ast.Lt) and a[1] == "quot" and b[1] == "thr":
                return ("(ratio_lt_thr c %s %s)" % a[0], "bool")
            if (a[1], b[1]) != ("nat", "nat"):
                bad(e, "order comparison on %s, %s" % (a[1], b[1]))
            if isinstance(op, ast.Lt):
                return ("(Nat.ltb %s %s)" % (a[0], b[0]), "bool")
            if isinstance(op, ast.Gt):
                return ("(Nat.ltb %s %s)" % (b[0], a[0]), "bool")
            if isinstance(op, ast.LtE):
                return ("(Nat.leb %s %s)" % (a[0], b[0]), "bool")
            return ("(Nat.leb %s %s)" % (b[0], a[0]), "bool")
        bad(e, "comparison operator")

    ELEM = {"obj": ("atom", "dict_iter"), "atoms": ("atom", None), "hashes": ("hash", None)}

    def listcomp(self, e, env):
        if len(e.generators) != 1:
            bad(e, "list comprehension with several generators")
        g = e.generators[0]
        if isinstance(g.target, ast.Tuple):                                                   # rule T: pairs by position
            it = g.iter
            ok = (not g.ifs and not g.is_async and len(g.target.elts) == 2 and isinstance(g.target.elts[0], ast.Name)
                  and isinstance(g.target.elts[1], ast.Tuple) and len(g.target.elts[1].elts) == 2
                  and all(isinstance(z, ast.Name) for z in g.target.elts[1].elts)
                  and isinstance(it, ast.Call) and dotted(it.func) == "enumerate" and len(it.args) == 1 and not it.keywords
                  and isinstance(it.args[0], ast.Call) and dotted(it.args[0].func) == "zip_longest" and len(it.args[0].args) == 2
                  and len(it.args[0].keywords) == 1 and it.args[0].keywords[0].arg == "fillvalue"
                  and dotted(it.args[0].keywords[0].value) == "ListItemRemovedOrAdded"
                  and isinstance(e.elt, ast.Tuple) and len(e.elt.elts) == 2 and isinstance(e.elt.elts[0], ast.Tuple) and len(e.elt.elts[0].elts) == 2
                  and isinstance(e.elt.elts[1], ast.Tuple) and len(e.elt.elts[1].elts) == 2)
            if not ok:
                bad(e, "list comprehension with a tuple target that is not the enumerate(zip_longest(..)) template (rule T)")
            ni, nx, ny = g.target.elts[0].id, g.target.elts[1].elts[0].id, g.target.elts[1].elts[1].id
            if len({ni, nx, ny}) != 3 or [z.id if isinstance(z, ast.Name) else None for z in e.elt.elts[1].elts] != [nx, ny]:
                bad(e, "enumerate(zip_longest(..)) template: the element must be ((.., ..), (x, y))")
            a, b = (self.as_items(self.expr(z, env), e) for z in it.args[0].args)
            env2 = dict(env)
            env2[ni], env2[nx], env2[ny] = "nat", "obj", "obj"
            i1, i2 = (self.term(self.expr(z, env2), e) for z in e.elt.elts[0].elts)
            if (i1[1], i2[1]) != ("nat", "nat"):
                bad(e, "index pair of types %s, %s" % (i1[1], i2[1]))
            return ("(map (fun '(%s, (%s, %s)) => ((%s, %s), (%s, %s))) (enumerate (zip_longest %s %s)))" % (
                self.var(ni), self.var(nx), self.var(ny), i1[0], i2[0], self.var(nx), self.var(ny), a, b), "pairs")
        if g.is_async or not isinstance(g.target, ast.Name):
            bad(e, "list comprehension target")
        it = self.term(self.expr(g.iter, env), e)
        if it[1] not in self.ELEM:
            bad(e, "iteration over a %s" % it[1])
        ety, conv = self.ELEM[it[1]]
        src = "(%s %s)" % (conv, it[0]) if conv else it[0]
        env2 = dict(env)
        env2[g.target.id] = ety
        x = self.var(g.target.id)
        for c in g.ifs:
            ct = self.term(self.truthy(self.expr(c, env2), c), c)
            src = "(filter (fun %s : %s => %s) %s)" % (x, COQTY[ety], ct[0], src)
        if isinstance(e.elt, ast.Name) and e.elt.id == g.target.id:
            return (src, {"atom": "atoms", "hash": "hashes"}[ety])
        el = self.term(self.expr(e.elt, env2), e)
        rty = {"atom": "atoms", "hash": "hashes"}.get(el[1])
        if rty is None:
            bad(e, "list of %s" % el[1])
        return ("(map (fun %s : %s => %s) %s)" % (x, COQTY[ety], el[0], src), rty)

    def kwargs(self, e, allowed):
        out = {}
        for k in e.keywords:
            if k.arg is None:
                bad(e, "** argument")
            if k.arg not in allowed:
                bad(e, "unexpected keyword %r" % k.arg)
            if k.arg in out:
                bad(e, "keyword given twice")
            out[k.arg] = k.value
        if any(isinstance(a, ast.Starred) for a in e.args):
            bad(e, "* argument")
        return out

    def call(self, e, env):
        f = e.func
        d = dotted(f)
        if d == "isinstance" and len(e.args) == 2 and not e.keywords:
            return self.isinstance(e, env)
        if d in ("get_type", "type") and len(e.args) == 1 and not e.keywords:
            a = self.term(self.expr(e.args[0], env), e)
            if a[1] != "obj":
                bad(e, "type of a %s" % a[1])
            return ("(get_type %s)" % a[0], "ty")
        if d == "len" and len(e.args) == 1 and not e.keywords:
            a = self.term(self.expr(e.args[0], env), e)
            if a[1] in ("atoms", "paths", "hashes"):
                return ("(length %s)" % a[0], "nat")
            if a[1] == "tree":
                return ("(tree_len %s)" % a[0], "nat")
            bad(e, "len of a %s" % a[1])
        if d == "TreeResult" and not e.args and not e.keywords:
            return ("nil_res", "tree")
        if d == "enumerate" and len(e.args) == 1 and not e.keywords:
            return ("(enumerate %s)" % self.as_items(self.expr(e.args[0], env), e), "enum_items")
        if d == "difflib.SequenceMatcher":                                                     # rule T
            kw = self.kwargs(e, {"isjunk", "a", "b", "autojunk"})
            ok = (not e.args and set(kw) == {"isjunk", "a", "b", "autojunk"} and isinstance(kw["isjunk"], ast.Constant) and kw["isjunk"].value is None
                  and isinstance(kw["autojunk"], ast.Constant) and kw["autojunk"].value is False
                  and ast.unparse(kw["a"]) == "level.t1" and ast.unparse(kw["b"]) == "level.t2" and env.get("level") == "level")
            if not ok:
                bad(e, "SequenceMatcher call that is not the template (rule T)")
            return (self.var("level"), "matcher")
        if d == "SetOrdered" and len(e.args) == 1 and not e.keywords:
            a = self.term(self.expr(e.args[0], env), e)
            if a[1] != "atoms":
                bad(e, "SetOrdered of a %s" % a[1])
            return ("(SetOrdered_of %s)" % a[0], "atoms")
        if d == "set" and len(e.args) == 1 and not e.keywords:
            a = self.term(self.expr(e.args[0], env), e)
            if a[1] != "hashes":
                bad(e, "set() of a %s" % a[1])
            return a
        if d == "list" and len(e.args) == 1 and not e.keywords:
            a = self.term(self.expr(e.args[0], env), e)
            if a[1] != "lines":
                bad(e, "list() of a %s" % a[1])
            return a
        if d == "difflib.unified_diff":                                                        # rule T
            kw = self.kwargs(e, {"lineterm"})
            ok = (len(e.args) == 2 and set(kw) == {"lineterm"} and isinstance(kw["lineterm"], ast.Constant) and kw["lineterm"].value == ""
                  and all(isinstance(a, ast.Call) and isinstance(a.func, ast.Attribute) and a.func.attr == "splitlines" and not a.args and not a.keywords
                          for a in e.args))
            if not ok:
                bad(e, "unified_diff call that is not the template (rule T)")
            a, b = (self.as_obj(self.expr(x.func.value, env), e) for x in e.args)
            return ("(unified_diff udiff %s %s)" % (a, b), "lines")
        if isinstance(f, ast.Attribute):
            if isinstance(f.value, ast.Constant) and f.value.value == "\n" and f.attr == "join" and len(e.args) == 1 and not e.keywords:
                a = self.term(self.expr(e.args[0], env), e)
                if a[1] != "lines":
                    bad(e, "join of a %s" % a[1])
                return (a[0], "pystr")
            if f.attr == "get_opcodes" and not e.args and not e.keywords:
                a = self.term(self.expr(f.value, env), e)
                if a[1] != "matcher":
                    bad(e, ".get_opcodes() of a %s" % a[1])
                return ("(get_opcodes ops %s)" % a[0], "opcodes")
            if f.attr == "keys" and not e.args and not e.keywords:
                a = self.term(self.expr(f.value, env), e)
                if a[1] != "ht":
                    bad(e, ".keys() of a %s" % a[1])
                return ("(ht_keys %s)" % a[0], "hashes")
            if f.attr == "startswith" and len(e.args) == 1 and not e.keywords:
                a = self.term(self.expr(f.value, env), e)
                p = self.expr(e.args[0], env)
                if a[1] != "atom" or not (isinstance(p, Lit) and p.s == "__"):
                    bad(e, "startswith")
                return ("(str_startswith %s dunder)" % a[0], "bool")
            if f.attr == "branch_deeper":
                lv = self.term(self.expr(f.value, env), e)
                if lv[1] != "level" or len(e.args) != 2:
                    bad(e, "branch_deeper")
                kw = self.kwargs(e, {"child_relationship_class", "child_relationship_param", "child_relationship_param2"})
                if "child_relationship_class" not in kw:
                    bad(e, "branch_deeper without child_relationship_class")
                a, b = (self.as_obj(self.expr(x, env), e) for x in e.args)
                rc = self.term(self.expr(kw["child_relationship_class"], env), e)
                if rc[1] != "relclass":
                    bad(e, "child_relationship_class of type %s" % rc[1])
                p1 = self.as_param(self.expr(kw["child_relationship_param"], env), e) if "child_relationship_param" in kw else "PmNone"
                p2 = self.as_param(self.expr(kw["child_relationship_param2"], env), e) if "child_relationship_param2" in kw else "PmNone"
                return ("(branch_deeper %s %s %s %s %s %s)" % (lv[0], a, b, rc[0], p1, p2), "level")
            if self.is_self(f.value):
                return self.self_call(e, env)
        bad(e, "call of %s" % (d or ast.unparse(f)[:40]))

    def isinstance(self, e, env):
        x = self.term(self.expr(e.args[0], env), e)
        c = e.args[1]
        names = [dotted(z) for z in c.elts] if isinstance(c, ast.Tuple) else [dotted(c)]
        if any(n is None or (n not in CLASSES and n not in OUTSIDE_CLASSES) for n in names):
            bad(e, "isinstance with an unknown class %s" % ast.unparse(c))
        inside = [CLASSES[n] for n in names if n in CLASSES]
        if not inside:
            return K(False)                                                                      # rule O
        if x[1] == "atom":
            if len(inside) != 1 or len(names) != 1:
                bad(e, "isinstance of a key with a tuple of classes")
            return ("(isinstance_v (VAtom %s) %s)" % (x[0], inside[0]), "bool")
        if x[1] != "obj":
            bad(e, "isinstance of a %s" % x[1])
        if len(names) == 1:
            return ("(isinstance_ %s %s)" % (x[0], inside[0]), "bool")
        return ("(isinstance_any %s [%s])" % (x[0], "; ".join(inside)), "bool")

    def self_call(self, e, env):
        """self.<method>(...) as an EXPRESSION"""
        m = e.func.attr
        if m == "_skip_this" and len(e.args) == 1 and not e.keywords:
            a = self.term(self.expr(e.args[0], env), e)
            if a[1] != "level":
                bad(e, "_skip_this of a %s" % a[1])
            return ("(skip_this skip %s)" % a[0], "bool")
        if m == "_skip_this_key" and len(e.args) == 2 and not e.keywords:                      # rule D3
            self.tr.need_default("include_paths", e)
            return K(False)
        if m == "_use_custom_operator" and len(e.args) == 1 and not e.keywords:                # rule D3
            self.tr.need_default("custom_operators", e)
            return K(False)
        if m == "_create_hashtable" and len(e.args) == 2 and not e.keywords:
            a = self.term(self.expr(e.args[0], env), e)
            s = self.expr(e.args[1], env)
            if a[1] != "level" or not (isinstance(s, Lit) and s.s in ("t1", "t2")):
                bad(e, "_create_hashtable")
            return ("(create_hashtable hatom %s %s)" % (a[0], s.s.upper()), "ht")
        if m == "_iterables_subscriptable" and len(e.args) == 2 and not e.keywords:
            a, b = (self.as_obj(self.expr(z, env), e) for z in e.args)
            return ("(iterables_subscriptable %s %s)" % (a, b), "bool")
        if m == "_all_values_basic_hashable" and len(e.args) == 1 and not e.keywords:
            return ("(all_values_basic_hashable %s)" % self.as_obj(self.expr(e.args[0], env), e), "bool")
        if m in RETURNS:
            t, _tgt = self.fn_call(e, env)
            return (t, RETURNS[m])
        bad(e, "self.%s(..) as a value" % m)

    def res_call(self, e, env):
        """self.<comparer>(...) as a STATEMENT: the Gallina term of type res, and the tree it is added to"""
        m = e.func.attr
        target = "r"
        kws = {k.arg: k.value for k in e.keywords}
        lt = kws.get("local_tree")
        if lt is not None:
            if not isinstance(lt, ast.Name):
                bad(e, "local_tree= something else than a name")
            if lt.id != "local_tree":
                if env.get(lt.id) != "tree":
                    bad(e, "local_tree=%s, which is not a local TreeResult()" % lt.id)
                target = lt.id
        if m in RETURNS:
            bad(e, "call of the value-returning method %s as a statement" % m)
        if m == "_report_result":
            kw = self.kwargs(e, {"local_tree"})
            if len(e.args) != 2:
                bad(e, "_report_result arguments")
            k = self.expr(e.args[0], env)
            if isinstance(k, Lit):
                if k.s not in KINDS:
                    bad(e, "report type %r" % k.s)
                kt = KINDS[k.s]
            else:
                k = self.term(k, e)
                if k[1] != "kind":
                    bad(e, "report type of type %s" % k[1])
                kt = k[0]
            lv = self.term(self.expr(e.args[1], env), e)
            if lv[1] != "level":
                bad(e, "_report_result of a %s" % lv[1])
            self.tr.called("_report_result", e)
            return "(g__report_result E rec %s %s)" % (kt, lv[0]), target
        if m in OUTSIDE_COMPARERS:                                                             # rule O
            return "out_of_universe", target
        if m == "_diff":
            if not e.args:
                bad(e, "arguments of self._diff")
            a = self.term(self.expr(e.args[0], env), e)
            if a[1] != "level":
                bad(e, "self._diff of a %s" % a[1])
            for x in e.args[1:]:
                if not (isinstance(x, ast.Name) and x.id in ("parents_ids", "parents_ids_added")):
                    bad(e, "positional argument of self._diff")
            self.kwargs(e, {"local_tree", "_original_type", "parents_ids"})
            self.uses_rec = True
            return "(rec %s)" % a[0], target
        if m in FUNCS:
            return self.fn_call(e, env, target)
        bad(e, "call of self.%s" % m)

    def fn_call(self, e, env, target="r"):
        """self.<translated method>(...): the application of its generated definition"""
        m = e.func.attr
        kws = {k.arg: k.value for k in e.keywords}
        if True:
            spec = FUNCS[m]
            self.tr.called(m, e)
            slots = {}
            if len(e.args) > len(spec):
                bad(e, "too many arguments")
            for (pname, _d, kind), a in zip(spec, e.args):
                slots[pname] = a
            for k, v in kws.items():
                if k not in [p[0] for p in spec]:
                    bad(e, "unknown keyword %r of %s" % (k, m))
                if k in slots:
                    bad(e, "argument %r given twice" % k)
                slots[k] = v
            ts = []
            for (pname, dsrc, kind) in spec:
                if kind == "drop":
                    if pname == "local_tree":
                        continue                                                                 # handled by res_call (the target tree)
                    if pname in slots and not (isinstance(slots[pname], ast.Name) and slots[pname].id in DROPPED_PARAMS | {"parents_ids_added"}):
                        bad(e, "argument %r of %s is not a dropped name (rule S2)" % (pname, m))
                    continue
                if isinstance(kind, tuple):
                    if pname in slots:
                        bad(e, "argument %r of %s is passed (rule D2)" % (pname, m))
                    continue
                if pname not in slots:
                    if dsrc is None:
                        bad(e, "missing argument %r of %s" % (pname, m))
                    if kind == "onat" and dsrc == "None":
                        ts.append("None")
                        continue
                    if dsrc not in ("True", "False"):
                        bad(e, "default of %r" % pname)
                    ts.append(dsrc.lower())
                    continue
                if kind == "onat":
                    ts.append(self.as_onat(self.expr(slots[pname], env), e))
                    continue
                a = self.term(self.expr(slots[pname], env), e)
                if a[1] != kind:
                    bad(e, "argument %r of %s has type %s, expected %s" % (pname, m, a[1], kind))
                ts.append(a[0])
            if m in USES_REC:
                self.uses_rec = True
            return "(g_%s E rec %s)" % (m, " ".join(ts)), target
        bad(e, "call of self.%s" % m)

    # ---------------------------------------------------------------- statements
    def skipped(self, s):
        """rule S1"""
        if is_doc(s):
            return "docstring"
        u = ast.unparse(s)
        if isinstance(s, ast.If) and u.startswith("if %s._count_diff() is StopIteration:\n    return" % self.selfname) and not s.orelse and len(s.body) == 1:
            self.tr.need_default("max_diffs", s)
            return "S1 _count_diff"
        if u.startswith("item_id = id(") and isinstance(s, ast.Assign):
            return "S1 cycle guard"
        if u == "if parents_ids and item_id in parents_ids:\n    continue":
            return "S1 cycle guard"
        if u == "parents_ids_added = add_to_frozen_set(parents_ids, item_id)":
            return "S1 cycle guard"
        if isinstance(s, ast.Assign) and len(s.targets) == 1 and isinstance(s.targets[0], ast.Attribute) and s.targets[0].attr == "report_type" \
                and isinstance(s.targets[0].value, ast.Name):
            return "S1 report_type field"
        if u == "tree = %s.tree if local_tree is None else local_tree" % self.selfname:
            return "S1 tree"
        if isinstance(s, ast.Expr) and isinstance(s.value, ast.Call) and isinstance(s.value.func, ast.Attribute) and s.value.func.attr == "append" \
                and isinstance(s.value.func.value, ast.Name) and s.value.func.value.id == "opcodes_with_values":
            return "S1 opcodes_with_values (the model records the path only)"
        return None

    def has_exit(self, stmts):
        return any(isinstance(n, (ast.Return, ast.Continue, ast.Break)) for s in stmts if not self.skipped(s) for n in ast.walk(s))

    def assigned(self, stmts, env):
        """variables (incl. r, level) assigned by a statement list without exits, in order of first assignment"""
        out = []

        def add(n):
            if n not in out:
                out.append(n)
        for s in stmts:
            if self.skipped(s):
                continue
            if isinstance(s, (ast.Assign, ast.AugAssign)):
                tgts = s.targets if isinstance(s, ast.Assign) else [s.target]
                if isinstance(s, ast.Assign) and self.is_res_call(s.value):
                    lt = [k.value for k in s.value.keywords if k.arg == "local_tree"]
                    add(lt[0].id if lt and isinstance(lt[0], ast.Name) and lt[0].id != "local_tree" else "r")
                for t in tgts:
                    if isinstance(t, ast.Name):
                        add(t.id)
                    elif isinstance(t, ast.Subscript) and ast.unparse(t) == "level.additional['diff']":
                        add("level")
                    elif isinstance(t, ast.Subscript) and ast.unparse(t).startswith("%s._iterable_opcodes[" % self.selfname):
                        add("r")
                    else:
                        bad(t, "assignment target")
            elif isinstance(s, ast.Expr):
                lt = [k.value for k in s.value.keywords if k.arg == "local_tree"] if isinstance(s.value, ast.Call) else []
                add(lt[0].id if lt and isinstance(lt[0], ast.Name) and lt[0].id != "local_tree" else "r")
            elif isinstance(s, (ast.Continue, ast.Return)):
                pass
            elif isinstance(s, ast.If):
                for n in self.assigned(s.body, env) + self.assigned(s.orelse, env):
                    add(n)
            elif isinstance(s, ast.Try):
                for h in s.handlers:
                    for n in self.assigned(h.body, env):
                        add(n)
                for n in self.assigned(s.body, env) + self.assigned(s.orelse, env):
                    add(n)
            elif isinstance(s, ast.For):
                add("r")
            else:
                bad(s, "statement")
        return out

    def is_res_call(self, v):
        return (isinstance(v, ast.Call) and isinstance(v.func, ast.Attribute) and self.is_self(v.func.value)
                and v.func.attr in FUNCS and v.func.attr not in RETURNS)

    MERGE = "for report_type, levels in %s.items():\n    if levels:\n        %s.tree[report_type] |= levels"

    def comment(self, s, what=None):
        try:
            txt = ast.unparse(s).splitlines()[0]
        except Exception:
            txt = type(s).__name__
        return "(* %d%s: %s *)" % (s.lineno, (" [" + what + "]") if what else "", clean(txt)[:120])

    def tuple_of(self, vs):
        names = ["r" if v == "r" else self.var(v) for v in vs]
        return names[0] if len(names) == 1 else "(%s)" % ", ".join(names)

    def pat_of(self, vs):
        names = ["r" if v == "r" else self.var(v) for v in vs]
        return names[0] if len(names) == 1 else "'(%s)" % ", ".join(names)

    def join_vars(self, s, branches, env):
        """variables joined after a non-returning compound statement: assigned in it and either defined before or
        assigned on every branch"""
        per = [self.assigned(b, env) for b in branches]
        allv = []
        for p in per:
            for n in p:
                if n not in allv:
                    allv.append(n)
        return [n for n in allv if n == "r" or n in env or all(n in p for p in per)]

    def block(self, stmts, env, cont, ind):
        """lines for stmts followed by cont(env) (lines of an expression); env: name -> type"""
        pad = "  " * ind
        if not stmts:
            return cont(env, ind)
        s, rest = stmts[0], stmts[1:]
        sk = self.skipped(s)
        if sk:
            return [pad + self.comment(s, "skipped, " + sk)] + self.block(rest, env, cont, ind)
        L = [pad + self.comment(s)]
        if isinstance(s, ast.Return):
            if rest:
                bad(rest[0], "statement after return")
            if self.ret is not None:
                if s.value is None:
                    bad(s, "bare return in a value-returning method")
                v = self.term(self.expr(s.value, env), s)
                if v[1] != self.ret:
                    bad(s, "return of a %s, expected %s" % (v[1], self.ret))
                return L + [pad + v[0]]
            if s.value is not None:
                if not (isinstance(s.value, ast.Name) and env.get(s.value.id) == "opaque"):
                    bad(s, "return with a value")
                L[0] = pad + self.comment(s, "rule S3: the returned opaque value is dropped")
            return L + [pad + "r"]
        if isinstance(s, ast.Continue):
            if rest:
                bad(rest[0], "statement after continue")
            return L + [pad + "r"]
        if isinstance(s, ast.Expr):
            if not (isinstance(s.value, ast.Call) and isinstance(s.value.func, ast.Attribute)):
                bad(s, "expression statement")
            f = s.value.func
            if self.is_self(f.value):
                t, tgt = self.res_call(s.value, env)
                tv = "r" if tgt == "r" else self.var(tgt)
                return L + [pad + "let %s := seq %s %s in" % (tv, tv, t)] + self.block(rest, env, cont, ind)
            if ast.unparse(s) == "tree[report_type].add(change_level)" and env.get("report_type") == "kind" and env.get("change_level") == "level":
                return L + [pad + "let r := seq r (tree_add %s %s) in" % (self.var("report_type"), self.var("change_level"))] + self.block(rest, env, cont, ind)
            bad(s, "call statement")
        if isinstance(s, ast.Assign):
            return L + [pad + q for q in self.assign(s, env)] + self.block(rest, env, cont, ind)
        if isinstance(s, ast.AugAssign):
            if isinstance(s.op, ast.Sub) and isinstance(s.target, ast.Name) and env.get(s.target.id) == "paths" \
                    and isinstance(s.value, ast.Attribute) and self.is_self(s.value.value) and s.value.attr == "exclude_paths":
                v = self.var(s.target.id)
                return L + [pad + "let %s := paths_minus_excluded excl %s in" % (v, v)] + self.block(rest, env, cont, ind)
            bad(s, "augmented assignment")
        if isinstance(s, ast.If):
            c = self.truthy(self.expr(s.test, env), s)
            if isinstance(c, K):                                                                 # rule D
                live = s.body if c.v else s.orelse
                L[0] = pad + self.comment(s, "rule D / O: condition is %s" % c.v)
                if live and isinstance(live[-1], (ast.Return, ast.Continue)) and rest:
                    L.append(pad + "(* rule D: %d statement(s) after the always-returning live branch are dead *)" % len(rest))
                    rest = []
                return L + self.block(list(live) + list(rest), env, cont, ind)
            if self.has_exit(s.body) or self.has_exit(s.orelse):
                k2 = (lambda env2, ind2: self.block(rest, env2, cont, ind2))
                return (L + [pad + "if %s then (" % c[0]] + self.block(s.body, dict(env), k2, ind + 1)
                        + [pad + ") else ("] + self.block(s.orelse, dict(env), k2, ind + 1) + [pad + ")"])
            return L + self.join(s, c[0], [s.body, s.orelse], env, rest, cont, ind)
        if isinstance(s, ast.Try):
            return L + self.try_(s, env, rest, cont, ind)
        if isinstance(s, ast.For):
            return L + self.for_(s, env, rest, cont, ind)
        bad(s, "statement")

    def join(self, s, cterm, branches, env, rest, cont, ind, heads=None):
        pad = "  " * ind
        vs = self.join_vars(s, branches, env)
        if not vs:
            vs = ["r"]
        # dry run: locals that are opaque (rule S3) / constant on some path are not joined; they become opaque afterwards
        saved = (self.ntmp, dict(getattr(self, "rename", {})))
        envs = [dict(env) for _ in branches]
        for b, e2 in zip(branches, envs):
            self.block(b, e2, (lambda env2, ind2: []), ind + 1)
        self.ntmp = saved[0]
        self.rename = saved[1]
        dropped = [v for v in vs if v != "r" and any(isinstance(e2.get(v), K) or e2.get(v) in (None, "opaque") for e2 in envs)]
        vs = [v for v in vs if v not in dropped] or ["r"]
        envs = [dict(env) for _ in branches]
        bl = [self.block(b, e2, self.checked_tail(vs, s), ind + 1) for b, e2 in zip(branches, envs)]
        for v in dropped:
            env[v] = "opaque"
        for v in vs:
            if v == "r":
                continue
            tys = [e2.get(v) for e2 in envs]
            if any(t is None or isinstance(t, K) for t in tys) or len(set(tys)) != 1:
                bad(s, "local %r has no single type after this statement (%r)" % (v, tys))
            env[v] = tys[0]
        heads = heads or ["if %s then (" % cterm, ") else ("]
        out = [pad + "let %s := %s" % (self.pat_of(vs), heads[0])]
        for i, b in enumerate(bl):
            out += b
            out.append(pad + (heads[i + 1] if i + 1 < len(bl) else ") in"))
        if heads[-1] != ") else (":
            out[-1] = pad + heads[-1]
        return out + self.block(rest, env, cont, ind)

    def checked_tail(self, vs, s):
        def k(env2, ind2):
            for v in vs:
                if v != "r" and (v not in env2 or isinstance(env2[v], K) or env2[v] == "opaque"):
                    bad(s, "local %r is not a translatable value on every path through this statement" % v)
            return ["  " * ind2 + self.tuple_of(vs)]
        return k

    def try_(self, s, env, rest, cont, ind):
        pad = "  " * ind
        if s.finalbody or len(s.handlers) != 1 or s.handlers[0].name is not None or len(s.body) != 1:
            bad(s, "try statement")
        h = s.handlers[0]
        b = s.body[0]
        hn = dotted(h.type) if h.type is not None else None
        # level.t1._asdict / except AttributeError / else
        if hn == "AttributeError" and isinstance(b, ast.Expr) and isinstance(b.value, ast.Attribute) and b.value.attr == "_asdict":
            o = self.term(self.expr(b.value.value, env), s)
            if o[1] != "obj":
                bad(s, "._asdict of a %s" % o[1])
            k2 = (lambda env2, ind2: self.block(rest, env2, cont, ind2))
            return ([pad + "if has_asdict %s then (" % o[0]] + self.block(s.orelse, dict(env), k2, ind + 1)
                    + [pad + ") else ("] + self.block(h.body, dict(env), k2, ind + 1) + [pad + ")"])
        # x = <bytes>.decode('ascii') / except UnicodeDecodeError
        if hn == "UnicodeDecodeError" and not s.orelse and isinstance(b, ast.Assign) and len(b.targets) == 1 and isinstance(b.targets[0], ast.Name) \
                and isinstance(b.value, ast.Call) and isinstance(b.value.func, ast.Attribute) and b.value.func.attr == "decode" \
                and len(b.value.args) == 1 and not b.value.keywords and isinstance(b.value.args[0], ast.Constant) and b.value.args[0].value == "ascii":
            if self.has_exit(h.body):
                bad(s, "return inside the handler")
            o = self.term(self.expr(b.value.func.value, env), s)
            if o[1] != "obj":
                bad(s, ".decode of a %s" % o[1])
            x = b.targets[0].id
            tmp = "d%d" % self.fresh()
            ok_branch = [ast.Assign(targets=[ast.Name(id=x, ctx=ast.Store())], value=ast.Name(id="__decoded__" + tmp, ctx=ast.Load()), lineno=b.lineno)]
            env = env                                                                         # noqa
            env["__decoded__" + tmp] = "obj"
            self.rename = getattr(self, "rename", {})
            self.rename["__decoded__" + tmp] = tmp
            out = self.join(s, None, [ok_branch, h.body], env, rest, cont, ind,
                            heads=["match decode_ascii %s with Some %s => (" % (o[0], tmp), ") | None => (", ") end in"])
            return out
        bad(s, "try statement that is not one of the two templates (rule T)")

    def fresh(self):
        self.ntmp += 1
        return self.ntmp

    def for_(self, s, env, rest, cont, ind):
        pad = "  " * ind
        if isinstance(s.iter, ast.Call) and isinstance(s.iter.func, ast.Attribute) and s.iter.func.attr == "items" and isinstance(s.iter.func.value, ast.Name) \
                and ast.unparse(s) == self.MERGE % (s.iter.func.value.id, self.selfname) and env.get(s.iter.func.value.id) == "tree":    # rule T
            return [pad + "let r := seq r %s in" % self.var(s.iter.func.value.id)] + self.block(rest, env, cont, ind)
        if s.orelse:
            bad(s, "for-else")
        if isinstance(s.target, ast.Tuple):
            return self.for_tuple(s, env, rest, cont, ind)
        if not isinstance(s.target, ast.Name):
            bad(s, "for statement")
        if isinstance(s.iter, ast.Attribute) and self.is_self(s.iter.value) and s.iter.attr in EMPTY_BY_DEFAULT:     # rule D
            self.tr.need_default(s.iter.attr, s)
            return [pad + "(* rule D: loop over the default-empty option %s dropped *)" % s.iter.attr] + self.block(rest, env, cont, ind)
        it = self.term(self.expr(s.iter, env), s)
        if it[1] not in ("atoms", "hashes"):
            bad(s, "for over a %s" % it[1])
        ety = {"atoms": "atom", "hashes": "hash"}[it[1]]
        if any(isinstance(n, (ast.Return, ast.Break)) for b in s.body if not self.skipped(b) for n in ast.walk(b)):
            bad(s, "return / break inside a loop")
        inner = self.assigned(s.body, env)
        for n in inner:
            if n != "r" and n != s.target.id and n in env:
                bad(s, "the loop body assigns the outer local %r" % n)
        env2 = dict(env)
        env2[s.target.id] = ety
        body = self.block(s.body, env2, (lambda e3, i3: ["  " * i3 + "r"]), ind + 2)
        return ([pad + "let r := seq r (for_each (fun %s : %s =>" % (self.var(s.target.id), COQTY[ety]), pad + "    let r := nil_res in"]
                + body + [pad + "  ) %s) in" % it[0]] + self.block(rest, env, cont, ind))

    def for_tuple(self, s, env, rest, cont, ind):
        """for (i, j), (x, y) in <pairs> / for index, x in enumerate(<items>) / for tag, a, b, c, d in <opcodes>"""
        pad = "  " * ind
        it = self.term(self.expr(s.iter, env), s)
        tg = s.target
        env2 = dict(env)
        pre = []
        if it[1] == "pairs":
            ok = (len(tg.elts) == 2 and all(isinstance(z, ast.Tuple) and len(z.elts) == 2 and all(isinstance(q, ast.Name) for q in z.elts) for z in tg.elts))
            if not ok:
                bad(s, "target of a loop over matching pairs")
            (ni, nj), (nx, ny) = [[q.id for q in z.elts] for z in tg.elts]
            env2[ni], env2[nj], env2[nx], env2[ny] = "nat", "nat", "obj", "obj"
            names = [ni, nj, nx, ny]
            binder = "'((%s, %s), (%s, %s))" % tuple(self.var(n) for n in names)
        elif it[1] == "enum_items":
            if not (len(tg.elts) == 2 and all(isinstance(q, ast.Name) for q in tg.elts)):
                bad(s, "target of a loop over enumerate(..)")
            ni, nx = [q.id for q in tg.elts]
            env2[ni], env2[nx] = "nat", "obj"
            names = [ni, nx]
            binder = "'(%s, %s)" % (self.var(ni), self.var(nx))
        elif it[1] == "opcodes":
            if not (len(tg.elts) == 5 and all(isinstance(q, ast.Name) for q in tg.elts)):
                bad(s, "target of a loop over opcodes")
            names = [q.id for q in tg.elts]
            binder = "o : opcode"
            for n, (fld, ty) in zip(names, [("otag", "optag"), ("oi1", "nat"), ("oi2", "nat"), ("oj1", "nat"), ("oj2", "nat")]):
                env2[n] = ty
                pre.append(pad + "    let %s := %s o in" % (self.var(n), fld))
        else:
            bad(s, "for with a tuple target over a %s" % it[1])
        if len(set(names)) != len(names):
            bad(s, "duplicate loop variable")
        if any(isinstance(n, (ast.Return, ast.Break)) for b in s.body if not self.skipped(b) for n in ast.walk(b)):
            bad(s, "return / break inside a loop")
        for n in self.assigned(s.body, env):
            if n != "r" and n not in names and n in env:
                bad(s, "the loop body assigns the outer local %r" % n)
        body = self.block(s.body, env2, (lambda e3, i3: ["  " * i3 + "r"]), ind + 2)
        return ([pad + "let r := seq r (for_each (fun %s =>" % binder] + pre + [pad + "    let r := nil_res in"]
                + body + [pad + "  ) %s) in" % it[0]] + self.block(rest, env, cont, ind))

    def assign(self, s, env):
        if getattr(s, "type_comment", None):
            bad(s, "type comment")
        # level.additional['diff'] = <text>
        if len(s.targets) == 1 and isinstance(s.targets[0], ast.Subscript):
            t = s.targets[0]
            if ast.unparse(t) == "level.additional['diff']" and env.get("level") == "level":
                v = self.term(self.expr(s.value, env), s)
                if v[1] != "pystr":
                    bad(s, "additional['diff'] := %s" % v[1])
                return ["let %s := set_additional_diff %s %s in" % (self.var("level"), self.var("level"), v[0])]
            if ast.unparse(t) == "%s._iterable_opcodes[level.path(force=FORCE_DEFAULT)]" % self.selfname and env.get("level") == "level":
                return ["let r := seq r (record_opcodes %s) in" % self.var("level")]
            bad(s, "subscript assignment")
        if not all(isinstance(t, ast.Name) for t in s.targets):
            bad(s, "assignment target")
        for t in s.targets:
            if t.id == self.selfname:
                bad(s, "assignment to self")
        if self.is_res_call(s.value):                  # x = self.<comparer>(..): the output goes to the target tree, x is opaque
            t, tgt = self.res_call(s.value, env)
            tv = "r" if tgt == "r" else self.var(tgt)
            for tg in s.targets:
                env[tg.id] = "opaque"
            return ["let %s := seq %s %s in" % (tv, tv, t), "(* rule S3: opaque local(s) %s *)" % ", ".join(tg.id for tg in s.targets)]
        try:
            x = self.expr(s.value, env)
        except Unsupported:
            if all(isinstance(n, (ast.Name, ast.Attribute, ast.Constant, ast.IfExp, ast.Load, ast.List)) for n in ast.walk(s.value)) \
                    and not any(isinstance(n, ast.List) and n.elts for n in ast.walk(s.value)):
                for t in s.targets:                                                             # rule S3
                    env[t.id] = "opaque"
                return ["(* rule S3: opaque local(s) %s *)" % ", ".join(t.id for t in s.targets)]
            raise
        if isinstance(x, K) and isinstance(x.v, bool):
            x = ("true" if x.v else "false", "bool")
        if isinstance(x, K):
            for t in s.targets:
                env[t.id] = x
            return ["(* constant local(s) %s = %r (rule D) *)" % (", ".join(t.id for t in s.targets), x.v)]
        if isinstance(x, Lit):
            if x.s in KINDS:
                x = (KINDS[x.s], "kind")
            else:
                for t in s.targets:
                    env[t.id] = "opaque"
                return ["(* rule S3: opaque local(s) %s *)" % ", ".join(t.id for t in s.targets)]
        if x[1] in ("quot", "thr", "exclpaths", "enum_items"):
            bad(s, "assignment of a %s" % x[1])
        out = []
        for t in s.targets:
            out.append("let %s := %s in" % (self.var(t.id), x[0]))
            env[t.id] = x[1]
        return out

    # ---------------------------------------------------------------- whole method
    def emit(self):
        env = self.signature()
        for n in ast.walk(self.node):
            if isinstance(n, (ast.With, ast.AsyncWith, ast.While, ast.Lambda, ast.Yield, ast.YieldFrom, ast.Await, ast.Global, ast.Nonlocal,
                              ast.Delete, ast.AnnAssign, ast.ClassDef, ast.NamedExpr, ast.DictComp, ast.GeneratorExp, ast.Starred,
                              ast.Import, ast.ImportFrom, ast.Assert, ast.Raise, ast.AsyncFor, ast.AsyncFunctionDef)) \
                    or (isinstance(n, ast.FunctionDef) and n is not self.node):
                bad(n, "unsupported construct in %s" % self.name)
        def fall(e2, i2):
            if self.ret is not None:
                bad(self.node, "%s can fall off its end without returning a value" % self.name)
            return ["  " * i2 + "r"]
        lines = self.block(list(self.node.body), env, fall, 1)
        txt = "\n".join(lines)
        for k, v in getattr(self, "rename", {}).items():
            txt = txt.replace(self.var(k), v)
        if self.uses_rec != (self.name in USES_REC):
            bad(self.node, "%s %s the recursive call, unlike the table USES_REC" % (self.name, "uses" if self.uses_rec else "does not use"))
        ps = "".join(" (%s : %s)" % (self.var(n), COQTY[t]) for n, t in self.params)
        return "(* %s, %s:%d *)\nDefinition g_%s (E : genv) (rec : level -> res)%s : %s :=\n%s  let r := nil_res in\n%s.\n" % (
            self.name, SRC, self.node.lineno, self.name, ps, COQTY[self.ret] if self.ret else "res", ENVLETS, txt)


class Translator:
    def __init__(self, tree):
        self.tree = tree
        self.emitted = []
        self.defaults = {}

    def need_default(self, opt, node):
        src, _v = DEFAULT_OPTIONS[opt]
        if self.defaults.get(opt) != src:
            bad(node, "option %s does not have the default %s in DeepDiff.__init__ (found %r): the default-options form (rule D) is not applicable"
                % (opt, src, self.defaults.get(opt)))

    def called(self, m, node):
        if m not in self.emitted:
            bad(node, "call of %s before its definition (emission order)" % m)

    def run(self):
        cls = [s for s in self.tree.body if isinstance(s, ast.ClassDef) and s.name == "DeepDiff"]
        if len(cls) != 1:
            bad(self.tree, "class DeepDiff not found exactly once")
        cls = cls[0]
        meths = {}
        for s in cls.body:
            if isinstance(s, ast.FunctionDef):
                if s.name in meths:
                    bad(s, "method %s defined twice" % s.name)
                meths[s.name] = s
        init = meths.get("__init__") or bad(cls, "DeepDiff.__init__ not found")
        a = init.args
        dfl = [None] * (len(a.args) - len(a.defaults)) + list(a.defaults)
        for arg, d in zip(a.args, dfl):
            if d is not None:
                self.defaults[arg.arg] = ast.unparse(d)
        for opt in MODEL_OPTIONS:
            if opt not in self.defaults:
                bad(init, "option %s is not a parameter of DeepDiff.__init__" % opt)
        # every option is stored as self.<option> = <parameter> (or a normalisation of it) exactly by name: checked loosely -
        # the attribute must be assigned somewhere in __init__
        assigned = {t.attr for n in ast.walk(init) if isinstance(n, ast.Assign) for t in n.targets
                    if isinstance(t, ast.Attribute) and isinstance(t.value, ast.Name) and t.value.id == a.args[0].arg}
        for opt in list(MODEL_OPTIONS) + list(DEFAULT_OPTIONS):
            if opt not in assigned:
                bad(init, "self.%s is not assigned in DeepDiff.__init__" % opt)
        out = []
        for m in ORDER:
            if m not in meths:
                bad(cls, "method %s not found" % m)
            f = Fn(self, m, meths[m])
            out.append(f.emit())
            self.emitted.append(m)
        return out


def check_helper(repo):
    """rule H"""
    p = os.path.join(repo, HELPER)
    tree = ast.parse(open(p).read())
    want = {"strings": "(str, bytes)", "bytes_type": "bytes", "booleans": "(bool, np_bool_)",
            "only_numbers": "(int, float, complex, Decimal) + numpy_numbers", "numbers": "only_numbers + datetimes"}
    seen = {}
    for s in tree.body:
        tgt, val = None, None
        if isinstance(s, ast.Assign) and len(s.targets) == 1 and isinstance(s.targets[0], ast.Name):
            tgt, val = s.targets[0].id, s.value
        elif isinstance(s, ast.AnnAssign) and isinstance(s.target, ast.Name) and s.value is not None:
            tgt, val = s.target.id, s.value
        if tgt in want:
            if tgt in seen:
                raise Unsupported("%s:%d: %s assigned twice" % (HELPER, s.lineno, tgt))
            seen[tgt] = ast.unparse(val)
            if seen[tgt] != want[tgt]:
                raise Unsupported("%s:%d: %s = %s, expected %s (rule H)" % (HELPER, s.lineno, tgt, seen[tgt], want[tgt]))
    if set(seen) != set(want):
        raise Unsupported("%s: %s not found at module level (rule H)" % (HELPER, sorted(set(want) - set(seen))))


ENVLETS = ("  let hatom := e_hatom E in let udiff := e_udiff E in let ops := e_ops E in let skip := e_skip E in\n"
           "  let excl := e_excl E in let has_excl := e_has_excl E in let c := e_c E in\n")

HEADER = """(* GENERATED by /verif/harness/translate/diffdispatch.py from %s (DeepDiff._report_result, _diff_booleans,
   _diff_numbers, _diff_types, _diff_str, _diff_set, _compare_in_order, _get_matching_pairs,
   _diff_by_forming_pairs_and_comparing_one_by_one, _diff_ordered_iterable_by_difflib, _diff_iterable_in_order,
   _diff_iterable, _diff_tuple, _diff_dict, _diff) and %s
   (strings, bytes_type, booleans, numbers).  DO NOT EDIT: regenerated from the current source on every run of
   ./check C02 / C03.  Definitions only.  Types and Python-level primitives are those of DD.Diff.DiffSrcPrims;
   none of the comparers of DD.Diff.DiffModel that are re-derived here is used. *)
From Coq Require Import List ZArith NArith Bool Arith.
Import ListNotations.
From DD Require Import Base.PyStr Base.Value Diff.Tree Diff.DiffModel Diff.DiffSrcPrims.

(* E : the oracles and the configuration of Diff/DiffModel.v (+ has_excl = bool(self.exclude_paths));
   rec : self._diff, for the recursive calls (open recursion; closed by g_run below) *)

"""

FOOTER = """
(* the recursion of self._diff closed by fuel: n bounds the nesting depth of the calls *)
Fixpoint g_run (E : genv) (n : nat) (l : level) {struct n} : res :=
  match n with
  | 0 => nil_res
  | S n' => g__diff E (g_run E n') l
  end.
"""


def translate(repo):
    p = os.path.join(repo, SRC)
    src = open(p).read()
    try:
        tree = ast.parse(src)
    except SyntaxError as e:
        raise Unsupported("%s: does not parse: %s" % (SRC, e))
    check_helper(repo)
    defs = Translator(tree).run()
    return HEADER % (SRC, HELPER) + "\n".join(defs) + FOOTER


if __name__ == "__main__":
    import sys
    sys.stdout.write(translate(sys.argv[1] if len(sys.argv) > 1 else "/repo"))

"""Source tie of C11: option-dependent fragments of deepdiff/diff.py, deepdiff/base.py, deepdiff/helper.py
->  Gallina (coq/srctie/OptionsGen.v, module DDGen.OptionsGen).

translate(repo_root) reads /repo's CURRENT sources, walks the `ast` of the functions listed in FUNCS with an
explicit white-list of node shapes and emits one Gallina definition `g_<python name>` per function, statement by
statement, in the exception monad of coq/theories/Options/YModel.v (`res`), over the typed embedding of Python
fixed in coq/theories/Options/OptSrcPrims.v.  Anything outside the white-list raises Unsupported(file:line: what).
No eval, no import of deepdiff.  The translation is syntax-directed and dumb: one Python statement -> one group
of Gallina lines, same order, same case analysis; equality with the hand model is the business of
coq/srctie/OptionsGenEquiv.v.  Rules (each is part of the trusted base; see coq/theories/Options/NOTES_SRCTIE.md):

 T1  every translated function returns `res T`; `return e` = `Ok e`, `raise XError(..)` = `Err EX`, a procedure
     (the _diff_* methods) carries the hidden list `out` of reported entries and falls off with `Ok out`.
 T2  `x = e` = `let x := e in` (`do x <- e;` when e can raise); `a = b = e`: e once, targets left to right.
 T3  `if c: A else: B` in tail position = `if c then (A) else (B)`; elsewhere the variables assigned in A or B
     (incl. `out`, `level`) are joined: `do v <- (if c then (A; Ok v) else (B; Ok v));`; when A (or B) returns
     on every path the rest of the block continues in the other branch only.
 T4  `self.<option>` reads are fields of the option record (table ATTRS); the translator checks that
     DeepDiff.__init__ assigns each attribute exactly once, in the recorded form, with the recorded default.
     An option outside the record is its default constant and a branch guarded by it is dropped (use_log_scale).
 T5  isinstance(x, C) = py_isinstance x <class of table CLASSES> (helper.py's tuples are checked to be the
     expected ones); attribute / method calls, str.format, dict and SetOrdered operations, round / int / abs /
     quantize / format are the primitives of OptSrcPrims.v; argument types are given by the static tables
     (Python is untyped: a wrong table entry makes the generated file ill-typed or the equivalence proof fail).
 T6  coercions are explicit: optional -> value `py_the`, atom -> text `py_str`, text -> atom `py_obj_of_text`,
     atom -> number `PAtom`, str -> atom `AStr`.
 T7  `for key in keys:` with loop-carried variables = a Fixpoint over the list (`_loop`) whose step is the
     translated body (`_body`).
 S1  skipped: docstrings, comments / pragmas / type-ignore (not in the ast), `logger.<level>(...)` statements,
     the parameters `local_tree`, and `level` of _get_clean_to_keys_mapping (checked to occur only in the
     skipped logging call).
 S2  number_to_string: `try: using = number_formatting[n] except KeyError: raise ValueError(..) from None` is the
     table lookup with that error; `with localcontext() as ctx: ctx.prec = ..; try: S except
     InvalidDecimalOperation: ctx.prec += 1; S` (same S) is S in exact arithmetic; the body of the
     `isinstance(number, only_complex_number)` branch is outside the universe (Err EType; the test is false on
     every atom).
 S4  _diff_str: difflib.unified_diff(x.splitlines(), y.splitlines(), lineterm=''), list(diff) and '\\n'.join(diff) are the hand
     model's oracle udiff on the two texts (AttributeError when an operand is not a str); level.additional['diff'] = e sets the
     level's diff text.
 S5  `try: x = b.decode('ascii') except UnicodeDecodeError: <simple statements>` = py_try_decode_ascii + match.
 S3  _diff_dict: only the contiguous slice from the statement that first assigns t1_clean_to_keys to the one that
     assigns t_keys_removed is translated (free: t1_keys, t2_keys; no other statement of the function assigns
     the slice's variables after it).
"""
import ast
import os

DIFF = "deepdiff/diff.py"
BASE = "deepdiff/base.py"
HELPER = "deepdiff/helper.py"


class Unsupported(Exception):
    pass


class Ctxt:
    """where we are, for error messages"""
    def __init__(self, src):
        self.src = src


def bad(src, node, what):
    raise Unsupported("%s:%s: %s [%s]" % (src, getattr(node, "lineno", "?"), what, type(node).__name__))


# ---- static tables ----------------------------------------------------------------------------------------
# T4: attribute of self -> (Coq term, type, form of the assignment in DeepDiff.__init__, default of the parameter)
ATTRS = {
    "ignore_string_case": ("(o_case F)", "bool", ("name", "ignore_string_case"), False),
    "ignore_string_type_changes": ("(o_strty F)", "bool", ("name", "ignore_string_type_changes"), False),
    "ignore_numeric_type_changes": ("(o_numty F)", "bool", ("name", "ignore_numeric_type_changes"), False),
    "use_enum_value": ("(o_enum F)", "bool", ("name", "use_enum_value"), False),
    "ignore_nan_inequality": ("(o_nan F)", "bool", ("name", "ignore_nan_inequality"), False),
    "math_epsilon": ("(o_eps F)", "optdy", ("name", "math_epsilon"), None),
    "significant_digits": ("(eff_sig F)", "optN", ("call", "get_significant_digits", ["significant_digits", "ignore_numeric_type_changes"]), None),
    "truncate_datetime": ("(o_trunc F)", "opttunit", ("fcall", "get_truncate_datetime", ["truncate_datetime"]), None),
    "default_timezone": ("(o_tz F)", "tz", ("name", "default_timezone"), "utc"),
    "number_format_notation": ("(py_notation F)", "notation", ("name", "number_format_notation"), "f"),
    "use_log_scale": ("false", "constfalse", ("name", "use_log_scale"), False),
    "number_to_string": (None, "fn", ("or", "number_to_string_func", "number_to_string"), None),
}
# T5: Python class expressions -> pyclass
CLASSES = {"bytes": "CBytes", "bytes_type": "CBytes", "str": "CStr", "Enum": "CEnum", "numbers": "CNumbers",
           "Decimal": "CDecimal", "only_complex_number": "COnlyComplex"}
CLASS_TUPLES = {("float", "np_floating"): "CFloats", ("datetime.datetime", "datetime.time"): "CDatetimeOrTime"}
# helper.py constants the embedding relies on: name -> expected source text (ast.unparse)
HELPER_CONSTS = {
    "strings": "(str, bytes)", "bytes_type": "bytes",
    "only_complex_number": "(complex,) + numpy_complex_numbers",
    "only_numbers": "(int, float, complex, Decimal) + numpy_numbers",
    "datetimes": "(datetime.datetime, datetime.date, datetime.timedelta, datetime.time)",
    "numbers": "only_numbers + datetimes",
    "KEY_TO_VAL_STR": "'{}:{}'",
}
COQTY = {"difftext": "pystr", "bool": "bool", "str": "pystr", "obj": "atom", "text": "ptext", "optN": "option N", "N": "N", "optdy": "option dy",
         "dy": "dy", "notation": "notation", "level": "plevel", "dict": "pydict", "optdict": "option pydict",
         "keys": "list atom", "pnum": "pnum", "tmpl": "pystr", "out": "list entry", "opttunit": "option tunit"}
RESERVED = {"using", "type", "end", "in", "at", "as", "return", "match", "with", "fun", "let", "if", "then", "else", "fix", "for",
            "where", "of", "Set", "Prop", "Type", "forall", "exists", "do", "F", "out", "mod"}
EXC = {"ValueError": "EValue", "TypeError": "EType", "AttributeError": "EAttr"}
REBIND_OK = {"ignore_numeric_type_changes": "numbers", "ignore_string_type_changes": "strings"}
KINDS = {"values_changed": "KValue", "type_changes": "KType"}


def vname(n):
    return n + "_" if (n in RESERVED or n.startswith("g_") or n.startswith("py_")) else n


def coq_str(s):
    if any(ord(c) > 127 for c in s):
        raise Unsupported("string constant %r outside ASCII" % (s,))
    if not all(32 <= ord(c) < 127 for c in s) or '"' in s:
        return "[%s]%%N" % "; ".join(str(ord(c)) for c in s)
    return '(s2p "%s")' % s


def clean_comment(s):
    return s.replace("(*", "( *").replace("*)", "* )").replace('"', "'")


def dotted(e):
    if isinstance(e, ast.Name):
        return e.id
    if isinstance(e, ast.Attribute):
        d = dotted(e.value)
        return None if d is None else d + "." + e.attr
    return None


def is_doc(s):
    return isinstance(s, ast.Expr) and isinstance(s.value, ast.Constant) and isinstance(s.value.value, str)


def raises_always(stmts):
    return bool(stmts) and isinstance(stmts[-1], ast.Raise)


def returns_always(stmts):
    if not stmts:
        return False
    s = stmts[-1]
    if isinstance(s, (ast.Return, ast.Raise)):
        return True
    if isinstance(s, ast.If):
        return returns_always(s.body) and returns_always(s.orelse)
    return False


# ---- one function -----------------------------------------------------------------------------------------
class Fn:
    """spec: src, gname, params [(python name, type | 'self' | 'erase')], ret (type, or 'out' for a procedure),
    needsF (bool), callees resolved through tr.funcs"""

    def __init__(self, tr, fdef, spec):
        self.tr, self.fdef, self.spec = tr, fdef, spec
        self.src = spec["src"]
        self.n = 0
        self.selfname = None
        self.erased = set()

    def bad(self, node, what):
        bad(self.src, node, "%s: %s" % (self.fdef.name, what))

    def tmp(self, p="v"):
        self.n += 1
        return "%s%d" % (p, self.n)

    # -- signature
    def check_sig(self, defaults=None):
        f, a = self.fdef, self.fdef.args
        if f.decorator_list or a.vararg or a.kwarg or a.kwonlyargs or a.posonlyargs or getattr(f, "type_params", None):
            self.bad(f, "decorator / star / keyword-only parameters")
        names = [x.arg for x in a.args]
        want = [p for p, _t in self.spec["params"]]
        if names != want:
            self.bad(f, "parameters are %r, expected %r" % (names, want))
        got_def = [ast.unparse(d) for d in a.defaults]
        if got_def != self.spec.get("defaults", []):
            self.bad(f, "parameter defaults are %r, expected %r" % (got_def, self.spec.get("defaults", [])))
        env = {}
        for p, t in self.spec["params"]:
            if t == "self":
                self.selfname = p
            elif t == "erase":
                self.erased.add(p)
            else:
                env[p] = t
        return env

    # -- coercion (T6): returns (pre-lines, term)
    def coerce(self, node, term, ty, want):
        if ty == want:
            return [], term
        if (ty, want) in (("optN", "N"), ("optdy", "dy")):
            v = self.tmp()
            return ["do %s <- py_the %s;" % (v, term)], v
        if (ty, want) == ("obj", "text"):
            return [], "(py_str %s)" % term
        if (ty, want) == ("str", "text"):
            return [], "(Some %s)" % term
        if (ty, want) == ("text", "obj"):
            v = self.tmp()
            return ["do %s <- py_obj_of_text %s;" % (v, term)], v
        if (ty, want) == ("str", "obj"):
            return [], "(AStr %s)" % term
        if (ty, want) == ("obj", "pnum"):
            return [], "(PAtom %s)" % term
        if (ty, want) == ("pnum", "obj"):
            v = self.tmp()
            return ["do %s <- py_obj_of_num %s;" % (v, term)], v
        if (ty, want) == ("dict", "optdict"):
            return [], "(Some %s)" % term
        if (ty, want) == ("none", "optdict"):
            return [], "None"
        if (ty, want) == ("N", "optN"):
            return [], "(Some %s)" % term
        self.bad(node, "no coercion from %s to %s" % (ty, want))

    def join_ty(self, node, a, b):
        if a == b:
            return a
        for x, y in ((a, b), (b, a)):
            if x == "obj" and y in ("text", "str", "pnum"):
                return "obj"
            if x == "optdict" and y in ("dict", "none"):
                return "optdict"
            if x == "dict" and y == "none":
                return "optdict"
            if x == "optN" and y == "N":
                return "optN"
        self.bad(node, "a variable gets type %s on one path and %s on another" % (a, b))

    # -- expressions: (pre-lines, term, type)
    def klass(self, e):
        d = dotted(e)
        if d in CLASSES:
            return CLASSES[d]
        if isinstance(e, ast.Tuple):
            key = tuple(dotted(x) for x in e.elts)
            if key in CLASS_TUPLES:
                return CLASS_TUPLES[key]
        self.bad(e, "isinstance against an unknown class expression %s" % ast.unparse(e))

    def self_attr(self, e):
        return (isinstance(e, ast.Attribute) and isinstance(e.value, ast.Name) and e.value.id == self.selfname
                and self.selfname is not None)

    def expr(self, e, env):
        if isinstance(e, ast.Constant):
            if e.value is None:
                return [], "py_None", "none"
            if e.value is True or e.value is False:
                return [], ("true" if e.value else "false"), "bool"
            if isinstance(e.value, str):
                return [], coq_str(e.value), "str"
            if isinstance(e.value, int) and e.value >= 0:
                return [], "%d%%N" % e.value, "N"
            if isinstance(e.value, float) and e.value == 0.0:
                return [], "0", "zero"
            self.bad(e, "constant %r" % (e.value,))
        if isinstance(e, ast.Name):
            if e.id in env:
                return [], vname(e.id), env[e.id]
            if e.id in self.tr.consts:
                return [], self.tr.consts[e.id][0], self.tr.consts[e.id][1]
            self.bad(e, "unknown name %r" % e.id)
        if isinstance(e, ast.Attribute):
            if not isinstance(e.ctx, ast.Load):
                self.bad(e, "attribute in non-load context")
            if self.self_attr(e):
                if e.attr not in ATTRS or ATTRS[e.attr][0] is None:
                    self.bad(e, "self.%s is not in the option table" % e.attr)
                self.tr.used_attrs.add(e.attr)
                return [], ATTRS[e.attr][0], ATTRS[e.attr][1]
            d = dotted(e)
            if d and d.endswith(".__class__.__name__"):
                ls, t, ty = self.expr(e.value.value, env)
                if ty != "obj":
                    self.bad(e, "__class__.__name__ of a %s" % ty)
                return ls, "(py_class_name %s)" % t, "str"
            ls, t, ty = self.expr(e.value, env)
            if ty == "level" and e.attr in ("t1", "t2"):
                return ls, "(lv_%s %s)" % (e.attr, t), "obj"
            if ty == "obj" and e.attr == "value":
                v = self.tmp()
                return ls + ["do %s <- py_enum_value %s;" % (v, t)], v, "obj"
            self.bad(e, "attribute %r of a %s" % (e.attr, ty))
        if isinstance(e, ast.UnaryOp) and isinstance(e.op, ast.Not):
            ls, t = self.cond(e.operand, env)
            return ls, "(negb %s)" % t, "bool"
        if isinstance(e, ast.BoolOp):
            parts = [self.cond(v, env) for v in e.values]
            if any(p[0] for p in parts[1:]):
                self.bad(e, "`and` / `or` whose right operand can raise")
            op = " && " if isinstance(e.op, ast.And) else " || "
            return parts[0][0], "(" + op.join(p[1] for p in parts) + ")", "bool"
        if isinstance(e, ast.IfExp):
            lc, tc = self.cond(e.test, env)
            l1, t1, y1 = self.expr(e.body, env)
            l2, t2, y2 = self.expr(e.orelse, env)
            if l1 or l2:
                self.bad(e, "conditional expression whose arms can raise")
            y = self.join_ty(e, y1, y2)
            c1, t1 = self.coerce(e, t1, y1, y)
            c2, t2 = self.coerce(e, t2, y2, y)
            if c1 or c2:
                self.bad(e, "conditional expression whose arms need a raising coercion")
            return lc, "(if %s then %s else %s)" % (tc, t1, t2), y
        if isinstance(e, ast.Compare):
            return self.compare(e, env)
        if isinstance(e, ast.BinOp):
            l1, t1, y1 = self.expr(e.left, env)
            l2, t2, y2 = self.expr(e.right, env)
            if (y1, y2) == ("keys", "keys") and isinstance(e.op, (ast.BitAnd, ast.Sub)):
                return l1 + l2, "(%s %s %s)" % ("so_and" if isinstance(e.op, ast.BitAnd) else "so_sub", t1, t2), "keys"
            if isinstance(e.op, ast.Mod) and (y1, y2) == ("tmpl", "N"):
                return l1 + l2, "(%s, %s)" % (t1, t2), "fmt"
            self.bad(e, "binary operator on %s, %s" % (y1, y2))
        if isinstance(e, ast.Subscript):
            d = dotted(e.value)
            if d in self.tr.tables and isinstance(e.ctx, ast.Load):
                ls, t, ty = self.expr(e.slice, env)
                if ty != self.tr.tables[d][1]:
                    self.bad(e, "index of type %s into %s" % (ty, d))
                return ls, ("lookup", self.tr.tables[d][0], t), "lookup"
            self.bad(e, "subscript")
        if isinstance(e, ast.Call):
            return self.call(e, env)
        self.bad(e, "expression")

    def cond(self, e, env):
        ls, t, ty = self.expr(e, env)
        if ty == "constfalse":
            return ls, "false"
        if ty == "opttunit" or ty == "optdict":
            return ls, "(py_truthy_opt %s)" % t
        if ty == "difftext":
            return ls, "(py_nonempty %s)" % t
        if ty != "bool":
            self.bad(e, "truthiness of a %s" % ty)
        return ls, t

    def compare(self, e, env):
        if len(e.ops) != 1:
            self.bad(e, "chained comparison")
        op, r = e.ops[0], e.comparators[0]
        if isinstance(op, ast.Eq) and all(isinstance(x, ast.Call) and dotted(x.func) == "type" and len(x.args) == 1 and not x.keywords for x in (e.left, r)):
            l1, t1, y1 = self.expr(e.left.args[0], env)
            l2, t2, y2 = self.expr(r.args[0], env)
            if (y1, y2) != ("obj", "obj"):
                self.bad(e, "type() of %s, %s" % (y1, y2))
            return l1 + l2, "(py_type_eq %s %s)" % (t1, t2), "bool"
        l1, t1, y1 = self.expr(e.left, env)
        l2, t2, y2 = self.expr(r, env)
        ls = l1 + l2
        if isinstance(op, (ast.Is, ast.IsNot)) and y2 == "none" and y1 in ("optN", "optdy", "optdict", "opttunit"):
            return ls, "(%s %s)" % ("py_is_none" if isinstance(op, ast.Is) else "py_is_not_none", t1), "bool"
        if isinstance(op, ast.NotEq) and (y1, y2) == ("obj", "obj"):
            return ls, "(py_ne %s %s)" % (t1, t2), "bool"
        if isinstance(op, ast.NotEq) and (y1, y2) == ("text", "text"):
            return ls, "(py_text_ne %s %s)" % (t1, t2), "bool"
        if isinstance(op, ast.Eq) and (y1, y2) == ("obj", "obj"):
            return ls, "(py_eqv %s %s)" % (t1, t2), "bool"
        if isinstance(op, ast.In) and (y1, y2) == ("str", "obj"):
            return ls, "(py_str_in %s %s)" % (t1, t2), "bool"
        if isinstance(op, ast.Eq) and (y1, y2) == ("pnum", "zero"):
            return ls, "(py_eq_zero %s)" % t1, "bool"
        if isinstance(op, ast.Eq) and (y1, y2) == ("N", "N"):
            return ls, "(N.eqb %s %s)" % (t1, t2), "bool"
        if isinstance(op, ast.Eq) and (y1, y2) == ("notation", "str"):
            return ls, "(py_notation_is %s %s)" % (t1, t2), "bool"
        if isinstance(op, ast.Lt) and (y1, y2) == ("optN", "N"):
            return ls, "(py_opt_ltb %s %s)" % (t1, t2), "bool"
        if isinstance(op, ast.In) and (y1, y2) == ("obj", "dict"):
            return ls, "(py_dict_contains %s %s)" % (t2, t1), "bool"
        self.bad(e, "comparison %s of %s with %s" % (type(op).__name__, y1, y2))

    def kwargs(self, e, names, required=None):
        """arguments of a call by parameter name (positional first)"""
        if any(isinstance(a, ast.Starred) for a in e.args) or any(k.arg is None for k in e.keywords):
            self.bad(e, "star arguments")
        if len(e.args) > len(names):
            self.bad(e, "too many arguments")
        out = dict(zip(names, e.args))
        for k in e.keywords:
            if k.arg not in names or k.arg in out:
                self.bad(e, "unexpected keyword %r" % k.arg)
            out[k.arg] = k.value
        for n in (required if required is not None else names):
            if n not in out:
                self.bad(e, "missing argument %r" % n)
        return out

    def typed_args(self, e, env, sig):
        """sig: [(param name, type)] -> (lines, [terms])"""
        a = self.kwargs(e, [n for n, _ in sig])
        ls, ts = [], []
        for n, want in sig:
            l, t, y = self.expr(a[n], env)
            c, t = self.coerce(a[n], t, y, want)
            ls += l + c
            ts.append(t)
        return ls, ts

    def call(self, e, env):
        f = e.func
        d = dotted(f)
        if d == "isinstance":
            a = self.kwargs(e, ["obj", "cls"])
            ls, t, ty = self.expr(a["obj"], env)
            c = self.klass(a["cls"])
            if ty == "obj":
                return ls, "(py_isinstance %s %s)" % (t, c), "bool"
            if ty == "pnum":
                return ls, "(py_num_isinstance %s %s)" % (t, c), "bool"
            self.bad(e, "isinstance of a %s" % ty)
        if d == "dict_" and not e.args and not e.keywords:
            return [], "py_dict_new", "dict"
        if d == "SetOrdered" and len(e.args) == 1 and not e.keywords:
            a = e.args[0]
            if (isinstance(a, ast.Call) and isinstance(a.func, ast.Attribute) and a.func.attr == "keys" and not a.args and not a.keywords):
                ls, t, ty = self.expr(a.func.value, env)
                if ty == "dict":
                    return ls, "(py_dict_keys %s)" % t, "keys"
            self.bad(e, "SetOrdered(...) of something else than <dict>.keys()")
        if d == "is_close":
            ls, ts = self.typed_args(e, env, [("a", "obj"), ("b", "obj"), ("abs_tol", "dy")])
            v = self.tmp("c")
            return ls + ["do %s <- py_is_close %s;" % (v, " ".join(ts))], v, "bool"
        if d == "datetime_normalize":
            a = self.kwargs(e, ["truncate_datetime", "obj", "default_timezone"])
            for n in ("truncate_datetime", "default_timezone"):
                if not (self.self_attr(a[n]) and a[n].attr == n):
                    self.bad(e, "datetime_normalize: %s is not self.%s" % (n, n))
                self.tr.used_attrs.add(n)
            ls, t, ty = self.expr(a["obj"], env)
            if ty != "obj":
                self.bad(e, "datetime_normalize of a %s" % ty)
            v = self.tmp()
            return ls + ["do %s <- py_datetime_normalize F %s;" % (v, t)], v, "obj"
        if d == "difflib.unified_diff":
            # S4: difflib.unified_diff(x.splitlines(), y.splitlines(), lineterm='') = the oracle udiff on the two texts
            ok = (len(e.args) == 2 and len(e.keywords) == 1 and e.keywords[0].arg == "lineterm" and ast.unparse(e.keywords[0].value) == "''"
                  and all(isinstance(a, ast.Call) and isinstance(a.func, ast.Attribute) and a.func.attr == "splitlines" and not a.args and not a.keywords
                          for a in e.args))
            if not ok or not self.spec.get("needs_udiff"):
                self.bad(e, "difflib.unified_diff outside the shape of rule S4")
            ls, ts = [], []
            for a in e.args:
                l, t, y = self.expr(a.func.value, env)
                if y != "obj":
                    self.bad(e, "splitlines of a %s" % y)
                ls += l
                ts.append(t)
            v = self.tmp()
            return ls + ["do %s <- py_unified_diff udiff %s;" % (v, " ".join(ts))], v, "difftext"
        if d == "list" and len(e.args) == 1 and not e.keywords:
            ls, t, ty = self.expr(e.args[0], env)
            if ty != "difftext":
                self.bad(e, "list() of a %s" % ty)
            return ls, t, "difftext"
        if d == "round":
            ls, ts = self.typed_args(e, env, [("number", "pnum"), ("ndigits", "N")])
            v = self.tmp()
            return ls + ["do %s <- py_round %s;" % (v, " ".join(ts))], v, "pnum"
        if d in ("int", "abs") and len(e.args) == 1 and not e.keywords:
            ls, t, ty = self.expr(e.args[0], env)
            if ty != "pnum":
                self.bad(e, "%s of a %s" % (d, ty))
            if d == "abs":
                return ls, "(py_abs %s)" % t, "pnum"
            v = self.tmp()
            return ls + ["do %s <- py_int %s;" % (v, t)], v, "pnum"
        if d == "re.sub":
            a = self.kwargs(e, ["pattern", "repl", "string"])
            if ast.unparse(a["pattern"]) != repr('(?<=e(\\+|\\-))0(?=\\d)+') or ast.unparse(a["repl"]) != "''":
                self.bad(e, "re.sub with another pattern / replacement than the exponent's leading zero")
            ls, t, ty = self.expr(a["string"], env)
            if ty != "str":
                self.bad(e, "re.sub on a %s" % ty)
            return ls, "(py_strip_exp0 %s)" % t, "str"
        if isinstance(f, ast.Attribute):
            # self.<method>(...)
            if self.self_attr(f):
                if f.attr == "number_to_string":
                    self.tr.used_attrs.add("number_to_string")
                    return self.gcall(e, env, "number_to_string")
                if f.attr in self.tr.funcs:
                    return self.gcall(e, env, f.attr)
                self.bad(e, "call of self.%s" % f.attr)
            if f.attr == "join" and isinstance(f.value, ast.Constant) and f.value.value == "\n" and len(e.args) == 1 and not e.keywords:
                ls, t, ty = self.expr(e.args[0], env)
                if ty != "difftext":
                    self.bad(e, "'\\n'.join of a %s" % ty)
                return ls, t, "str"
            if f.attr == "format":
                fl, ft, fy = self.expr(f.value, env)
                if fy == "fmt" and len(e.args) == 1 and not e.keywords:
                    l, t, y = self.expr(e.args[0], env)
                    if y != "pnum":
                        self.bad(e, "number format of a %s" % y)
                    v = self.tmp()
                    return fl + l + ["do %s <- py_format_num %s %s;" % (v, ft[1:-1].replace(", ", " "), t)], v, "str"
                if fy != "str" or e.keywords:
                    self.bad(e, ".format on a %s" % fy)
                ls, ts = list(fl), []
                for a in e.args:
                    l, t, y = self.expr(a, env)
                    c, t = self.coerce(a, t, y, "text")
                    ls += l + c
                    ts.append(t)
                return ls, "(py_format %s [%s])" % (ft, "; ".join(ts)), "text"
            ls, t, ty = self.expr(f.value, env)
            if ty == "obj" and f.attr == "decode" and len(e.args) == 1 and not e.keywords and \
                    isinstance(e.args[0], ast.Constant) and e.args[0].value in ("utf-8", "ascii"):
                v = self.tmp()
                return ls + ["do %s <- py_decode %s;" % (v, t)], v, "obj"
            if ty == "obj" and f.attr == "lower" and not e.args and not e.keywords:
                v = self.tmp()
                return ls + ["do %s <- py_lower %s;" % (v, t)], v, "obj"
            if ty == "pnum" and f.attr == "quantize" and len(e.args) == 1 and not e.keywords:
                if ast.unparse(e.args[0]) != "Decimal('0.' + '0' * significant_digits)" or env.get("significant_digits") != "N":
                    self.bad(e, "quantize to something else than Decimal('0.' + '0' * significant_digits)")
                v = self.tmp()
                return ls + ["do %s <- py_quantize %s significant_digits;" % (v, t)], v, "pnum"
            self.bad(e, "method %r of a %s" % (f.attr, ty))
        self.bad(e, "call of %s" % (d or "?"))

    def gcall(self, e, env, name):
        """call of another translated function"""
        spec = self.tr.funcs[name]
        self.tr.need(name, e, self.src)
        sig = [(p, t) for p, t in spec["params"] if t != "self"]
        a = self.kwargs(e, [p for p, _ in sig])
        ls, ts = [], []
        for p, want in sig:
            if want == "erase":
                continue
            l, t, y = self.expr(a[p], env)
            c, t = self.coerce(a[p], t, y, want)
            ls += l + c
            ts.append(t)
        v = self.tmp("r")
        return ls + ["do %s <- %s%s %s;" % (v, spec["gname"], " F" if spec.get("needsF") else "", " ".join(ts))], v, spec["ret"]

    # -- statements
    def assigned(self, stmts):
        out = []

        def add(n):
            if n not in out:
                out.append(n)
        for s in stmts:
            if isinstance(s, ast.Assign):
                for t in s.targets:
                    if isinstance(t, ast.Name):
                        add(t.id)
                    elif isinstance(t, ast.Attribute) and isinstance(t.value, ast.Name):
                        add(t.value.id)
                    elif isinstance(t, ast.Subscript) and isinstance(t.value, ast.Name):
                        add(t.value.id)
                    elif isinstance(t, ast.Subscript) and isinstance(t.value, ast.Attribute) and isinstance(t.value.value, ast.Name):
                        add(t.value.value.id)
            elif isinstance(s, ast.If):
                for n in self.assigned(s.body) + self.assigned(s.orelse):
                    add(n)
            elif isinstance(s, ast.Expr) and self.is_report(s):
                add("out")
            elif isinstance(s, ast.With):
                for q in s.body:
                    if isinstance(q, ast.Try):
                        for n in self.assigned(q.body):
                            add(n)
            elif isinstance(s, ast.Try):
                for n in self.assigned(s.body) + [x for h in s.handlers for x in self.assigned(h.body)]:
                    add(n)
        return out

    def is_report(self, s):
        v = s.value
        return (isinstance(v, ast.Call) and isinstance(v.func, ast.Attribute) and v.func.attr == "_report_result"
                and self.self_attr(v.func))

    def is_complex_test(self, e):
        return (isinstance(e, ast.Call) and dotted(e.func) == "isinstance" and len(e.args) == 2
                and dotted(e.args[1]) == "only_complex_number")

    def is_logging(self, s):
        v = s.value
        return (isinstance(v, ast.Call) and isinstance(v.func, ast.Attribute) and isinstance(v.func.value, ast.Name)
                and v.func.value.id == "logger" and v.func.attr in ("warning", "info", "debug", "error"))

    def comment(self, s):
        try:
            txt = ast.unparse(s).splitlines()[0]
        except Exception:  # noqa
            txt = type(s).__name__
        return "(* %s *)" % clean_comment(txt)[:120]

    def finish(self, env, k):
        """the end of a block: k = ('tail',) | ('join', [vars], {var: type})"""
        if k[0] == "tail":
            if self.spec["ret"] == "out":
                return ["Ok out"]
            self.bad(self.fdef, "falls off the end of a function that returns a value")
        vs, tys = k[1], k[2]
        terms, pre = [], []
        for v in vs:
            if v not in env:
                self.bad(self.fdef, "local %r is not assigned on every path" % v)
            c, t = self.coerce(self.fdef, vname(v), env[v], tys[v])
            pre += c
            terms.append(t)
        return pre + ["Ok " + (terms[0] if len(terms) == 1 else "(" + ", ".join(terms) + ")")]

    def block(self, stmts, env, k, ind):
        pad = "  " * ind
        L = []
        stmts = [s for s in stmts if not is_doc(s)]
        i = 0
        while i < len(stmts):
            s = stmts[i]
            rest = stmts[i + 1:]
            L.append(pad + self.comment(s))
            if isinstance(s, ast.Return):
                if k[0] != "tail":
                    self.bad(s, "return inside a joined branch")
                if rest:
                    self.bad(rest[0], "statement after return")
                if s.value is None:
                    if self.spec["ret"] != "out":
                        self.bad(s, "bare return in a function that returns a value")
                    L.append(pad + "Ok out")
                else:
                    if self.spec["ret"] == "out":
                        self.bad(s, "return of a value in a procedure")
                    ls, t, y = self.expr(s.value, env)
                    c, t = self.coerce(s, t, y, self.spec["ret"])
                    L += [pad + q for q in ls + c] + [pad + "Ok %s" % t]
                return L
            if isinstance(s, ast.Raise):
                x = s.exc
                nm = x.func.id if isinstance(x, ast.Call) and isinstance(x.func, ast.Name) else (x.id if isinstance(x, ast.Name) else None)
                if nm not in EXC:
                    self.bad(s, "raise of something else than ValueError / TypeError / AttributeError")
                L.append(pad + "Err %s" % EXC[nm])
                return L
            if isinstance(s, ast.Expr):
                if self.is_logging(s):
                    L[-1] = pad + "(* [S1 skipped] logger call *)"
                elif self.is_report(s):
                    a = self.kwargs(s.value, ["report_type", "level", "local_tree"], required=["report_type", "level"])
                    kind = a["report_type"]
                    if not (isinstance(kind, ast.Constant) and kind.value in KINDS):
                        self.bad(s, "_report_result with an unknown report type")
                    if not (isinstance(a["level"], ast.Name) and env.get(a["level"].id) == "level"):
                        self.bad(s, "_report_result on something else than the level")
                    if "local_tree" in a and not (isinstance(a["local_tree"], ast.Name) and a["local_tree"].id in self.erased):
                        self.bad(s, "_report_result with another local_tree than the parameter")
                    L.append(pad + "let out := (out ++ py_report_result F %s %s)%%list in" % (KINDS[kind.value], vname(a["level"].id)))
                else:
                    self.bad(s, "expression statement")
            elif isinstance(s, ast.Assign):
                L += [pad + q for q in self.assign(s, env)]
            elif isinstance(s, ast.If):
                if self.self_attr(s.test) and ATTRS.get(s.test.attr, (None, None))[1] == "constfalse":
                    # T4: a branch guarded by an option outside the record (constant False) is dropped
                    self.tr.used_attrs.add(s.test.attr)
                    L[-1] = pad + "(* [T4] `if self.%s:` dropped (the option is outside the record: constant False) *)" % s.test.attr
                    stmts = stmts[:i] + list(s.orelse) + rest
                    continue
                if self.is_complex_test(s.test):
                    # S2: the complex branch is outside the universe
                    L[-1] = pad + "(* [S2] %s: the branch is outside the universe *)" % clean_comment(ast.unparse(s.test))
                    r = ast.parse("raise TypeError()").body[0]
                    ast.copy_location(r, s.body[0])
                    s = ast.If(test=s.test, body=[r], orelse=s.orelse)
                    ast.copy_location(s, r)
                ls, t = self.cond(s.test, env)
                L += [pad + q for q in ls]
                if k[0] == "tail" and returns_always(s.body) and not returns_always(s.orelse) and rest:
                    b1 = self.block(s.body, dict(env), k, ind + 1)
                    b2 = self.block(list(s.orelse) + rest, env, k, ind + 1)
                    return L + [pad + "if %s then (" % t] + b1 + [pad + ") else ("] + b2 + [pad + ")"]
                if k[0] == "tail" and returns_always(s.orelse) and not returns_always(s.body) and rest:
                    b2 = self.block(s.orelse, dict(env), k, ind + 1)
                    b1 = self.block(list(s.body) + rest, env, k, ind + 1)
                    return L + [pad + "if %s then (" % t] + b1 + [pad + ") else ("] + b2 + [pad + ")"]
                if k[0] == "tail" and not rest:
                    b1 = self.block(s.body, dict(env), k, ind + 1)
                    b2 = self.block(s.orelse, dict(env), k, ind + 1)
                    return L + [pad + "if %s then (" % t] + b1 + [pad + ") else ("] + b2 + [pad + ")"]
                r1, r2 = raises_always(s.body), raises_always(s.orelse)
                if (returns_always(s.body) and not r1) or (returns_always(s.orelse) and not r2) or (r1 and r2):
                    self.bad(s, "return inside an if that cannot be put in tail position")
                vs = [v for v in self.assigned([s]) if v not in self.erased]
                if not vs:
                    L.append(pad + "(* no effect *)")
                    i += 1
                    continue
                e1, e2 = dict(env), dict(env)
                # first pass to learn the types
                n0 = self.n
                self.block(s.body, e1, ("probe",), ind + 1)
                self.block(s.orelse, e2, ("probe",), ind + 1)
                self.n = n0
                tys = {}
                # a name bound on one path only is local to that path (a later read of it is rejected as an unknown name)
                vs = [v for v in vs if (r1 or v in e1) and (r2 or v in e2)]
                for v in vs:
                    tys[v] = e2[v] if r1 else (e1[v] if r2 else self.join_ty(s, e1[v], e2[v]))
                if not vs:
                    self.bad(s, "an if statement without a joinable effect")
                e1, e2 = dict(env), dict(env)
                b1 = self.block(s.body, e1, ("join", vs, tys), ind + 1)
                b2 = self.block(s.orelse, e2, ("join", vs, tys), ind + 1)
                for v in vs:
                    env[v] = tys[v]
                if len(vs) == 1:
                    L += [pad + "do %s <- (if %s then (" % (vname(vs[0]), t)] + b1 + [pad + ") else ("] + b2 + [pad + "));"]
                else:
                    r = self.tmp("j")
                    L += [pad + "do %s <- (if %s then (" % (r, t)] + b1 + [pad + ") else ("] + b2 + [pad + "));",
                          pad + "let '(%s) := %s in" % (", ".join(vname(v) for v in vs), r)]
            elif isinstance(s, ast.Try):
                L += [pad + q for q in self.try_(s, env)]
            elif isinstance(s, ast.With):
                L += self.with_(s, env, ind)
            elif isinstance(s, ast.For):
                L += [pad + q for q in self.for_(s, env)]
            else:
                self.bad(s, "statement")
            i += 1
        if k[0] == "probe":
            return L
        return L + [pad + q for q in self.finish(env, k)]

    def assign(self, s, env):
        if getattr(s, "type_comment", None):
            self.bad(s, "type comment")
        ls, t, y = self.expr(s.value, env)
        out = list(ls)
        if y == "lookup":
            self.bad(s, "table lookup outside the try / except KeyError shape")
        first = None
        for tg in s.targets:
            src_t = t if first is None else first
            if isinstance(tg, ast.Name):
                if tg.id == self.selfname or tg.id in self.erased:
                    self.bad(tg, "assignment to self / an erased parameter")
                if y in ("zero", "fmt"):
                    self.bad(s, "assignment of a %s" % y)
                if src_t != vname(tg.id):
                    out.append("let %s := %s in" % (vname(tg.id), src_t))
                env[tg.id] = y
                if first is None:
                    first = vname(tg.id)
            elif isinstance(tg, ast.Attribute) and isinstance(tg.value, ast.Name) and env.get(tg.value.id) == "level" and tg.attr in ("t1", "t2"):
                c, t2 = self.coerce(s, src_t, y, "obj")
                out += c + ["let %s := lv_set_%s %s %s in" % (vname(tg.value.id), tg.attr, vname(tg.value.id), t2)]
            elif (isinstance(tg, ast.Subscript) and isinstance(tg.value, ast.Attribute) and tg.value.attr == "additional"
                  and isinstance(tg.value.value, ast.Name) and env.get(tg.value.value.id) == "level"
                  and isinstance(tg.slice, ast.Constant) and tg.slice.value == "diff"):
                if y != "str":
                    self.bad(tg, "level.additional['diff'] = <%s>" % y)
                lvn = vname(tg.value.value.id)
                out.append("let %s := lv_set_diff %s (Some %s) in" % (lvn, lvn, src_t))
            elif isinstance(tg, ast.Subscript) and isinstance(tg.value, ast.Name) and env.get(tg.value.id) == "dict":
                l2, k2, ky = self.expr(tg.slice, env)
                c1, k2 = self.coerce(s, k2, ky, "obj")
                c2, t2 = self.coerce(s, src_t, y, "obj")
                out += l2 + c1 + c2 + ["let %s := py_dict_set %s %s %s in" % (vname(tg.value.id), vname(tg.value.id), k2, t2)]
            else:
                self.bad(tg, "assignment target")
        return out

    def try_decode(self, s, env):
        """S5: try: x = <bytes>.decode('ascii') / except UnicodeDecodeError: <simple statements>"""
        b = s.body[0]
        v = b.value
        ok = (isinstance(b, ast.Assign) and len(b.targets) == 1 and isinstance(b.targets[0], ast.Name) and isinstance(v, ast.Call)
              and isinstance(v.func, ast.Attribute) and v.func.attr == "decode" and len(v.args) == 1 and not v.keywords
              and isinstance(v.args[0], ast.Constant) and v.args[0].value == "ascii" and s.handlers[0].name is None)
        if not ok:
            self.bad(s, "try statement outside the decode shape")
        ls, t, ty = self.expr(v.func.value, env)
        if ty != "obj":
            self.bad(s, "decode of a %s" % ty)
        x = b.targets[0].id
        vs = [n for n in self.assigned([s]) if n not in self.erased]
        for n in vs:
            if n not in env:
                self.bad(s, "local %r is not bound before this try statement" % n)
        tys = {n: env[n] for n in vs}
        if tys.get(x) != "obj":
            self.bad(s, "the decoded text is assigned to a %s" % tys.get(x))
        r, dv = self.tmp("d"), self.tmp()
        e2 = dict(env)
        hb = self.block(s.handlers[0].body, e2, ("join", vs, tys), 2)
        tup = vname(vs[0]) if len(vs) == 1 else "(" + ", ".join(vname(n) for n in vs) + ")"
        out = ls + ["do %s <- py_try_decode_ascii %s;" % (r, t),
                    "do %s <- (match %s with" % ("j" + r if len(vs) > 1 else vname(vs[0]), r),
                    "  | Some %s => (" % dv, "    let %s := %s in" % (vname(x), dv), "    Ok %s" % tup, "  )", "  | None => ("] + hb + ["  )", "  end);"]
        if len(vs) > 1:
            out.append("let '%s := j%s in" % (tup, r))
        return out

    def try_(self, s, env):
        """S2: try: x = TABLE[k] / except KeyError: raise ValueError(...) from None"""
        if (len(s.body) == 1 and len(s.handlers) == 1 and not s.orelse and not s.finalbody
                and isinstance(s.handlers[0].type, ast.Name) and s.handlers[0].type.id == "UnicodeDecodeError"):
            return self.try_decode(s, env)
        ok = (len(s.body) == 1 and isinstance(s.body[0], ast.Assign) and len(s.body[0].targets) == 1
              and isinstance(s.body[0].targets[0], ast.Name) and len(s.handlers) == 1 and not s.orelse and not s.finalbody
              and isinstance(s.handlers[0].type, ast.Name) and s.handlers[0].type.id == "KeyError" and s.handlers[0].name is None
              and len(s.handlers[0].body) == 1 and isinstance(s.handlers[0].body[0], ast.Raise))
        if not ok:
            self.bad(s, "try statement outside the table-lookup shape")
        r = s.handlers[0].body[0]
        nm = r.exc.func.id if isinstance(r.exc, ast.Call) and isinstance(r.exc.func, ast.Name) else None
        if nm not in EXC or not (isinstance(r.cause, ast.Constant) and r.cause.value is None):
            self.bad(r, "handler is not `raise <Error>(...) from None`")
        ls, t, y = self.expr(s.body[0].value, env)
        if y != "lookup":
            self.bad(s, "try body is not a table lookup")
        x = s.body[0].targets[0].id
        env[x] = "tmpl"
        return ls + ["do %s <- py_lookup %s %s (Err %s);" % (vname(x), t[1], t[2], EXC[nm])]

    def with_(self, s, env, ind):
        """S2: with localcontext() as ctx: ctx.prec = ...; try: S except InvalidDecimalOperation: ctx.prec += 1; S"""
        pad = "  " * ind
        it = s.items
        ok = (len(it) == 1 and ast.unparse(it[0].context_expr) == "localcontext()" and isinstance(it[0].optional_vars, ast.Name))
        if not ok:
            self.bad(s, "with statement that is not `with localcontext() as ctx`")
        ctx = it[0].optional_vars.id
        body = [x for x in s.body if not is_doc(x)]
        ok = (len(body) == 2 and isinstance(body[0], ast.Assign) and ast.unparse(body[0].targets[0]) == ctx + ".prec"
              and isinstance(body[1], ast.Try) and len(body[1].handlers) == 1 and not body[1].orelse and not body[1].finalbody
              and ast.unparse(body[1].handlers[0].type) == "InvalidDecimalOperation" and len(body[1].handlers[0].body) == 2
              and ast.unparse(body[1].handlers[0].body[0]) == ctx + ".prec += 1" and len(body[1].body) == 1
              and ast.dump(body[1].handlers[0].body[1]) == ast.dump(body[1].body[0]))
        if not ok:
            self.bad(s, "the localcontext block is not the precision-retry shape of rule S2")
        for n in ast.walk(body[1].body[0]):
            if isinstance(n, ast.Name) and n.id == ctx:
                self.bad(n, "the context object is used by the guarded statement")
        L = [pad + "(* [S2] localcontext / precision retry: the guarded statement in exact arithmetic *)"]
        sub = self.block([body[1].body[0]], env, ("probe",), ind)
        return L + sub

    def for_(self, s, env):
        """T7: for x in xs: body  with loop-carried variables"""
        if s.orelse or not isinstance(s.target, ast.Name) or getattr(s, "type_comment", None):
            self.bad(s, "for statement with else / pattern target")
        ls, t, y = self.expr(s.iter, env)
        if y != "keys" or ls:
            self.bad(s, "for over a %s" % y)
        for n in ast.walk(s):
            if isinstance(n, (ast.Break, ast.Continue, ast.Return)):
                self.bad(n, "break / continue / return inside the loop")
        carried = [v for v in self.assigned(s.body) if v in env]
        if not carried or any(env[v] not in COQTY for v in carried):
            self.bad(s, "loop without loop-carried variables of a known type")
        x = s.target.id
        base = self.spec["gname"]
        benv = dict(env)
        benv[x] = "obj"
        tys = {v: env[v] for v in carried}
        sub = Fn(self.tr, self.fdef, self.spec)
        sub.selfname, sub.erased = self.selfname, self.erased
        body = sub.block(s.body, benv, ("join", carried, tys), 1)
        rt = "(%s)" % COQTY[tys[carried[0]]] if len(carried) == 1 else "(" + " * ".join(COQTY[tys[v]] for v in carried) + ")"
        ps = "".join(" (%s : %s)" % (vname(v), COQTY[tys[v]]) for v in carried)
        live = [v for v in env if v not in carried and v != x and env[v] in COQTY and v in {n.id for b in s.body for n in ast.walk(b) if isinstance(n, ast.Name)}]
        lp = "".join(" (%s : %s)" % (vname(v), COQTY[env[v]]) for v in live)
        la = "".join(" " + vname(v) for v in live)
        pat = vname(carried[0]) if len(carried) == 1 else "r__"
        unpack = "" if len(carried) == 1 else "let '(%s) := r__ in " % ", ".join(vname(v) for v in carried)
        self.tr.extra.append(
            "(* %s, the body of `%s` (rule T7) *)\nDefinition %s_body (F : opts)%s (%s : atom)%s : res %s :=\n%s.\n" % (
                self.fdef.name, clean_comment(ast.unparse(s).splitlines()[0]), base, lp, vname(x), ps, rt, "\n".join(body)) +
            "Fixpoint %s_loop (F : opts)%s (xs__ : list atom)%s : res %s :=\n  match xs__ with\n  | [] => Ok %s\n"
            "  | x__ :: xs__' => do %s <- %s_body F%s x__%s; %s%s_loop F%s xs__'%s\n  end.\n" % (
                base, lp, ps, rt, (vname(carried[0]) if len(carried) == 1 else "(" + ", ".join(vname(v) for v in carried) + ")"),
                pat, base, la, "".join(" " + vname(v) for v in carried), unpack, base, la, "".join(" " + vname(v) for v in carried)))
        out = ["do %s <- %s_loop F%s %s%s;" % (pat, base, la, t, "".join(" " + vname(v) for v in carried))]
        if len(carried) > 1:
            out.append("let '(%s) := r__ in" % ", ".join(vname(v) for v in carried))
        return out

    # -- whole function
    def emit(self, body=None, extra_params=None, ret_terms=None):
        env = self.check_sig() if body is None else dict(extra_params)
        stmts = list(self.fdef.body) if body is None else body
        for st in stmts:
            for n in ast.walk(st):
                if isinstance(n, (ast.AsyncWith, ast.While, ast.Lambda, ast.Yield, ast.YieldFrom, ast.Await, ast.Global, ast.Nonlocal,
                                  ast.Delete, ast.AugAssign, ast.AnnAssign, ast.FunctionDef, ast.ClassDef, ast.NamedExpr, ast.ListComp,
                                  ast.DictComp, ast.SetComp, ast.GeneratorExp, ast.Starred, ast.Import, ast.ImportFrom, ast.Assert,
                                  ast.Pass, ast.AsyncFor, ast.AsyncFunctionDef)) and not self.inside_with(n, stmts):
                    self.bad(n, "unsupported construct")
        params = [(p, t) for p, t in env.items()]
        lines = []
        if self.spec["ret"] == "out":
            lines.append("  let out : list entry := [] in")
            env["out"] = "out"
        if ret_terms is not None:
            stmts = stmts + [ret_terms]
        lines += self.block(stmts, env, ("tail",), 1)
        ps = "".join(" (%s : %s)" % (vname(p), COQTY[t]) for p, t in params)
        rt = "(list entry)" if self.spec["ret"] == "out" else self.spec.get("coq_ret") or "(%s)" % COQTY[self.spec["ret"]]
        if self.spec.get("needs_udiff"):
            ps = " (udiff : pystr -> pystr -> pystr)" + ps
        head = "Definition %s%s%s : res %s :=" % (self.spec["gname"], " (F : opts)" if self.spec.get("needsF") else "", ps, rt)
        return "(* %s, %s:%d *)\n%s\n%s.\n" % (self.fdef.name, self.src, self.fdef.lineno, head, "\n".join(lines))

    def inside_with(self, n, stmts):
        """AugAssign `ctx.prec += 1` is allowed inside the with-shape of rule S2 only (checked there)"""
        if isinstance(n, ast.AugAssign):
            for st in stmts:
                for w in ast.walk(st):
                    if isinstance(w, ast.With) and any(x is n for x in ast.walk(w)):
                        return True
        return False


# ---- the module -------------------------------------------------------------------------------------------
FUNCS = {
    "get_significant_digits": dict(src=BASE, cls="Base", gname="g_get_significant_digits", ret="optN",
                                   params=[("self", "self"), ("significant_digits", "optN"), ("ignore_numeric_type_changes", "bool")]),
    "number_to_string": dict(src=HELPER, cls=None, gname="g_number_to_string", ret="obj", defaults=["'f'"],
                             params=[("number", "pnum"), ("significant_digits", "N"), ("number_format_notation", "notation")]),
    "_get_clean_to_keys_mapping": dict(src=DIFF, cls="DeepDiff", gname="g_get_clean_to_keys_mapping", ret="dict", needsF=True,
                                       params=[("self", "self"), ("keys", "keys"), ("level", "erase")]),
    "_diff_booleans": dict(src=DIFF, cls="DeepDiff", gname="g_diff_booleans", ret="out", needsF=True, defaults=["None"],
                           params=[("self", "self"), ("level", "level"), ("local_tree", "erase")]),
    "_diff_str": dict(src=DIFF, cls="DeepDiff", gname="g_diff_str", ret="out", needsF=True, needs_udiff=True, defaults=["None"],
                      params=[("self", "self"), ("level", "level"), ("local_tree", "erase")]),
    "_diff_numbers": dict(src=DIFF, cls="DeepDiff", gname="g_diff_numbers", ret="out", needsF=True, defaults=["None", "True"],
                          params=[("self", "self"), ("level", "level"), ("local_tree", "erase"), ("report_type_change", "bool")]),
    "_diff_datetime": dict(src=DIFF, cls="DeepDiff", gname="g_diff_datetime", ret="out", needsF=True, defaults=["None"],
                           params=[("self", "self"), ("level", "level"), ("local_tree", "erase")]),
    "_diff_time": dict(src=DIFF, cls="DeepDiff", gname="g_diff_time", ret="out", needsF=True, defaults=["None"],
                       params=[("self", "self"), ("level", "level"), ("local_tree", "erase")]),
}
ORDER = ["get_significant_digits", "number_to_string", "_get_clean_to_keys_mapping", "_diff_booleans", "_diff_numbers",
         "_diff_datetime", "_diff_time", "_diff_str"]
SLICE_VARS = ["t1_clean_to_keys", "t2_clean_to_keys", "t1_keys", "t2_keys", "t_keys_intersect", "t_keys_added", "t_keys_removed"]


class Translator:
    def __init__(self, repo):
        self.repo = repo
        self.trees = {}
        for f in (DIFF, BASE, HELPER):
            try:
                self.trees[f] = ast.parse(open(os.path.join(repo, f)).read())
            except SyntaxError as e:
                raise Unsupported("%s: does not parse: %s" % (f, e))
        self.funcs = FUNCS
        self.used_attrs = set()
        self.emitted = {}
        self.stack = []
        self.extra = []
        self.order = []
        self.consts = {}
        self.tables = {}

    def find_class(self, src, name):
        cs = [n for n in self.trees[src].body if isinstance(n, ast.ClassDef) and n.name == name]
        if len(cs) != 1:
            raise Unsupported("%s: class %s defined %d times" % (src, name, len(cs)))
        return cs[0]

    def find_def(self, src, cls, name):
        body = self.trees[src].body if cls is None else self.find_class(src, cls).body
        ds = [n for n in body if isinstance(n, ast.FunctionDef) and n.name == name]
        if len(ds) != 1:
            raise Unsupported("%s: %s%s defined %d times" % (src, (cls + "." if cls else ""), name, len(ds)))
        # nobody rebinds the name elsewhere in the same scope
        for n in body:
            if isinstance(n, ast.Assign) and any(isinstance(t, ast.Name) and t.id == name for t in n.targets):
                raise Unsupported("%s:%d: %s is rebound" % (src, n.lineno, name))
        return ds[0]

    def need(self, name, node, src):
        if name in self.emitted:
            return
        if name in self.stack:
            bad(src, node, "recursive call of %s" % name)
        self.stack.append(name)
        spec = self.funcs[name]
        fn = Fn(self, self.find_def(spec["src"], spec["cls"], name), spec)
        n_extra = len(self.extra)
        txt = fn.emit()
        self.stack.pop()
        self.emitted[name] = "".join(self.extra[n_extra:]) + txt
        del self.extra[n_extra:]
        self.order.append(name)

    # -- helper.py constants (T5)
    def check_helper(self):
        tree = self.trees[HELPER]
        seen = {}
        for n in tree.body:
            tg = None
            if isinstance(n, ast.Assign) and len(n.targets) == 1 and isinstance(n.targets[0], ast.Name):
                tg, val = n.targets[0].id, n.value
            elif isinstance(n, ast.AnnAssign) and isinstance(n.target, ast.Name) and n.value is not None:
                tg, val = n.target.id, n.value
            if tg in HELPER_CONSTS or tg == "number_formatting":
                if tg in seen:
                    raise Unsupported("%s:%d: %s assigned twice" % (HELPER, n.lineno, tg))
                seen[tg] = (n, val)
        for nm, want in HELPER_CONSTS.items():
            if nm not in seen:
                raise Unsupported("%s: constant %s not found" % (HELPER, nm))
            got = ast.unparse(seen[nm][1])
            if got != want:
                raise Unsupported("%s:%d: %s = %s, expected %s" % (HELPER, seen[nm][0].lineno, nm, got, want))
        for n in ast.walk(tree):
            if isinstance(n, (ast.FunctionDef, ast.ClassDef)) and n.name in HELPER_CONSTS:
                raise Unsupported("%s:%d: %s redefined" % (HELPER, n.lineno, n.name))
        self.consts["KEY_TO_VAL_STR"] = (coq_str(seen["KEY_TO_VAL_STR"][1].value), "str")
        # number_formatting: dict of string constants keyed by the notation letters
        if "number_formatting" not in seen:
            raise Unsupported("%s: number_formatting not found" % HELPER)
        node, val = seen["number_formatting"]
        if not (isinstance(val, ast.Dict) and all(isinstance(k, ast.Constant) and k.value in ("f", "e") for k in val.keys)
                and all(isinstance(v, ast.Constant) and isinstance(v.value, str) for v in val.values)):
            raise Unsupported("%s:%d: number_formatting is not a dict of string constants keyed by 'f' / 'e'" % (HELPER, node.lineno))
        ents = "; ".join("(%s, %s)" % ({"f": "NotF", "e": "NotE"}[k.value], coq_str(v.value)) for k, v in zip(val.keys, val.values))
        self.tables["number_formatting"] = ("g_number_formatting", "notation")
        return ("(* number_formatting, %s:%d *)\nDefinition g_number_formatting : list (notation * pystr) := [%s].\n" % (HELPER, node.lineno, ents))

    # -- base.py constant
    def check_base(self):
        for n in self.trees[BASE].body:
            if isinstance(n, ast.Assign) and len(n.targets) == 1 and isinstance(n.targets[0], ast.Name) and \
                    n.targets[0].id == "DEFAULT_SIGNIFICANT_DIGITS_WHEN_IGNORE_NUMERIC_TYPES":
                if not (isinstance(n.value, ast.Constant) and isinstance(n.value.value, int) and not isinstance(n.value.value, bool) and n.value.value >= 0):
                    raise Unsupported("%s:%d: DEFAULT_SIGNIFICANT_DIGITS_WHEN_IGNORE_NUMERIC_TYPES is not a natural number constant" % (BASE, n.lineno))
                if "DEFAULT_SIGNIFICANT_DIGITS_WHEN_IGNORE_NUMERIC_TYPES" in self.consts:
                    raise Unsupported("%s:%d: constant assigned twice" % (BASE, n.lineno))
                self.consts["DEFAULT_SIGNIFICANT_DIGITS_WHEN_IGNORE_NUMERIC_TYPES"] = ("%d%%N" % n.value.value, "N")
        if "DEFAULT_SIGNIFICANT_DIGITS_WHEN_IGNORE_NUMERIC_TYPES" not in self.consts:
            raise Unsupported("%s: DEFAULT_SIGNIFICANT_DIGITS_WHEN_IGNORE_NUMERIC_TYPES not found" % BASE)

    # -- DeepDiff.__init__ (T4)
    def check_init(self):
        cls = self.find_class(DIFF, "DeepDiff")
        init = [n for n in cls.body if isinstance(n, ast.FunctionDef) and n.name == "__init__"]
        if len(init) != 1:
            raise Unsupported("%s: DeepDiff.__init__ defined %d times" % (DIFF, len(init)))
        init = init[0]
        a = init.args
        names = [x.arg for x in a.args]
        defaults = dict(zip(names[len(names) - len(a.defaults):], a.defaults))
        for x, d in zip(a.kwonlyargs, a.kw_defaults):
            defaults[x.arg] = d
        stores = {}
        for n in ast.walk(cls):
            tgs = n.targets if isinstance(n, ast.Assign) else ([n.target] if isinstance(n, (ast.AugAssign, ast.AnnAssign)) else [])
            for t in tgs:
                for q in ast.walk(t):
                    if isinstance(q, ast.Attribute) and isinstance(q.value, ast.Name) and q.value.id == "self" and q.attr in ATTRS:
                        stores.setdefault(q.attr, []).append(n)
            if isinstance(n, ast.Call) and dotted(n.func) == "setattr":
                raise Unsupported("%s:%d: setattr in DeepDiff" % (DIFF, n.lineno))
        for attr in sorted(self.used_attrs):
            term, ty, form, dflt = ATTRS[attr]
            ss = stores.get(attr, [])
            if len(ss) != 1 or not isinstance(ss[0], ast.Assign) or len(ss[0].targets) != 1 or not any(ss[0] is x for x in ast.walk(init)):
                raise Unsupported("%s: self.%s is assigned %d times in DeepDiff (expected once, in __init__)" % (DIFF, attr, len(ss)))
            v = ss[0].value
            if form[0] == "name":
                ok = isinstance(v, ast.Name) and v.id == form[1]
                par = form[1]
            elif form[0] == "call":
                ok = (isinstance(v, ast.Call) and isinstance(v.func, ast.Attribute) and v.func.attr == form[1] and isinstance(v.func.value, ast.Name)
                      and v.func.value.id == "self" and [ast.unparse(x) for x in v.args] == form[2] and not v.keywords)
                par = form[2][0]
            elif form[0] == "fcall":
                ok = (isinstance(v, ast.Call) and isinstance(v.func, ast.Name) and v.func.id == form[1]
                      and [ast.unparse(x) for x in v.args] == form[2] and not v.keywords)
                par = form[2][0]
            else:
                ok = ast.unparse(v) == "%s or %s" % (form[1], form[2])
                par = form[1]
            if not ok:
                raise Unsupported("%s:%d: self.%s = %s is not the expected form %r" % (DIFF, ss[0].lineno, attr, ast.unparse(v), form))
            if par not in defaults:
                raise Unsupported("%s: DeepDiff.__init__ has no parameter %s with a default" % (DIFF, par))
            got = defaults[par]
            if dflt == "utc":
                okd = ast.unparse(got) == "datetime.timezone.utc"
            else:
                okd = isinstance(got, ast.Constant) and got.value == dflt and type(got.value) is type(dflt)
            if not okd:
                raise Unsupported("%s:%d: default of %s is %s, expected %r" % (DIFF, init.lineno, par, ast.unparse(got), dflt))
            # parameters are not rebound - except by the two `ignore_type_in_groups` shortcuts (that option is outside the record:
            # default None, so both tests are false)
            for w in ast.walk(init):
                for fld in ("body", "orelse", "finalbody"):
                    for n in getattr(w, fld, []) if isinstance(getattr(w, fld, None), list) else []:
                        if isinstance(n, ast.Assign) and any(isinstance(t, ast.Name) and t.id == par for t in n.targets):
                            grp = REBIND_OK.get(par)
                            ok = (grp is not None and isinstance(w, ast.If) and fld == "body" and len(w.body) == 1 and not w.orelse
                                  and ast.unparse(w.test) == "%s == ignore_type_in_groups or %s in ignore_type_in_groups" % (grp, grp)
                                  and ast.unparse(n.value) == "True" and len(n.targets) == 1)
                            if not ok:
                                raise Unsupported("%s:%d: parameter %s is rebound in __init__" % (DIFF, n.lineno, par))
        if "ignore_type_in_groups" not in defaults or not (isinstance(defaults["ignore_type_in_groups"], ast.Constant) and defaults["ignore_type_in_groups"].value is None):
            raise Unsupported("%s:%d: default of ignore_type_in_groups is not None" % (DIFF, init.lineno))

    # -- the key-set slice of _diff_dict (S3)
    def diff_dict_slice(self):
        fdef = self.find_def(DIFF, "DeepDiff", "_diff_dict")
        body = [s for s in fdef.body if not is_doc(s)]

        def assigns(s, name):
            return any(isinstance(n, ast.Name) and isinstance(n.ctx, ast.Store) and n.id == name for n in ast.walk(s))
        first = [i for i, s in enumerate(body) if assigns(s, "t1_clean_to_keys")]
        last = [i for i, s in enumerate(body) if assigns(s, "t_keys_removed")]
        if len(first) != 1 or len(last) != 1 or last[0] - first[0] != 3:
            bad(DIFF, fdef, "_diff_dict: the key-set slice (t1_clean_to_keys ... t_keys_removed) is not 4 contiguous statements")
        sl = body[first[0]:last[0] + 1]
        for s in body[last[0] + 1:]:
            for v in SLICE_VARS:
                if assigns(s, v):
                    bad(DIFF, s, "_diff_dict: %s is assigned again after the slice" % v)
        for s in body[:first[0]]:
            for v in SLICE_VARS[:2] + SLICE_VARS[4:]:
                if assigns(s, v):
                    bad(DIFF, s, "_diff_dict: %s is assigned before the slice" % v)
        a = fdef.args
        if [x.arg for x in a.args][:2] != ["self", "level"]:
            bad(DIFF, fdef, "_diff_dict: first parameters are not (self, level)")
        spec = dict(src=DIFF, gname="g_diff_dict_keys", needsF=True, ret="tuple7", params=[],
                    coq_ret="(option pydict * option pydict * list atom * list atom * list atom * list atom * list atom)")
        fn = Fn(self, fdef, spec)
        fn.selfname = "self"
        fn.erased = {"level"}
        env = {"t1_keys": "keys", "t2_keys": "keys"}
        lines = fn.block(sl, env, ("probe",), 1)
        want = {"t1_clean_to_keys": "optdict", "t2_clean_to_keys": "optdict", "t1_keys": "keys", "t2_keys": "keys",
                "t_keys_intersect": "keys", "t_keys_added": "keys", "t_keys_removed": "keys"}
        for v in SLICE_VARS:
            if env.get(v) != want[v]:
                bad(DIFF, fdef, "_diff_dict slice: %s has type %s, expected %s" % (v, env.get(v), want[v]))
        lines.append("  Ok (%s)" % ", ".join(SLICE_VARS))
        n_extra = len(self.extra)
        return ("(* _diff_dict, %s:%d-%d: the key-set slice (rule S3) *)\nDefinition g_diff_dict_keys (F : opts) (t1_keys t2_keys : list atom) : res %s :=\n%s.\n"
                % (DIFF, sl[0].lineno, sl[-1].end_lineno, spec["coq_ret"], "\n".join(lines)))

    def check_erased_level(self):
        """S1: `level` of _get_clean_to_keys_mapping occurs only inside the skipped logger call"""
        fdef = self.find_def(DIFF, "DeepDiff", "_get_clean_to_keys_mapping")
        inside = set()
        for n in ast.walk(fdef):
            if isinstance(n, ast.Expr) and isinstance(n.value, ast.Call) and dotted(n.value.func) in ("logger.warning", "logger.info", "logger.debug", "logger.error"):
                inside |= {id(x) for x in ast.walk(n)}
        for n in ast.walk(fdef):
            if isinstance(n, ast.Name) and n.id == "level" and id(n) not in inside:
                bad(DIFF, n, "_get_clean_to_keys_mapping: `level` is used outside the logging call")

    def run(self):
        parts = [self.check_helper()]
        self.check_base()
        self.check_erased_level()
        for name in ORDER:
            self.need(name, None, self.funcs[name]["src"])
        parts += [self.emitted[k] for k in self.order]
        parts.append(self.diff_dict_slice())
        self.check_init()
        return parts


HEADER = """(* GENERATED by /verif/harness/translate/optionskeys.py from %s (DeepDiff._get_clean_to_keys_mapping, the key-set slice of
   _diff_dict, _diff_booleans, _diff_numbers, _diff_datetime, _diff_time, _diff_str), %s (Base.get_significant_digits) and %s
   (number_to_string, number_formatting, KEY_TO_VAL_STR).  DO NOT EDIT: regenerated from the current source on every run of
   ./check C11.  Definitions only.  Types and primitives are those of DD.Options.YValue / YModel / OptSrcPrims; none of the
   hand model's functions for these fragments (clean_key, clean_map, kmap, ckeys, numD, dtD, timeD, nstr) is used; `self.significant_digits`
   is read as eff_sig F (rule T4), which OptionsGenEquiv.g_get_significant_digits_eq ties to Base.get_significant_digits. *)
From Coq Require Import List ZArith NArith Bool Arith String.
Import ListNotations.
From DD Require Import Base.PyStr Options.OptModel Options.OptDtModel Options.YValue Options.YModel Options.OptSrcPrims.

"""


def translate(repo):
    return HEADER % (DIFF, BASE, HELPER) + "\n".join(Translator(repo).run())


if __name__ == "__main__":
    import sys
    sys.stdout.write(translate(sys.argv[1] if len(sys.argv) > 1 else "/repo"))

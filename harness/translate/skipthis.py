"""Source tie of C13 (block Filter): a fail-closed, syntax-directed translator

    Python `ast`  ->  Gallina text  (module DDGen.FilterGen)

for the path / object filters of deepdiff:

    DeepDiff._skip_this, DeepDiff._skip_this_key          deepdiff/diff.py
    DeepHash._skip_this                                   deepdiff/deephash.py
    add_root_to_paths, convert_item_or_items_into_set_else_none   deepdiff/helper.py
    the assignments of the modelled options in DeepDiff.__init__ / DeepHash.__init__ (frame check only)

No eval, no import of deepdiff: the files are read and `ast.parse`d.  One Python statement -> one Gallina line, same
order, same case analysis; nothing is simplified (coq/srctie/FilterGenEquiv.v is where the understanding goes).
Anything outside the white-list below raises `Unsupported` (file, line, node).

Vocabulary (Filter/FilterTie.v, FilterModel.v, PathModel.v, PyStr.v) - the TRUSTED reading of each expression form:

    self.exclude_paths / self.include_paths     EX / INC : list pystr      ([] = None; after __init__ None or non-empty)
    self.exclude_regex_paths                    RXS : list (pystr -> bool) (per pattern: `pattern.search(s)` is a match)
    self.exclude_types_tuple                    TY : list ty               ([] = None / empty tuple)
    self.<the four callbacks>                   CB CBS ICB ICBS : option (value -> bool)
    level (DiffLevel)                           record level; level.path() -> lv_path level (= render of the key sequence);
                                                level.t1 / level.t2 -> lv_t1 / lv_t2 (option value, None = notpresent);
                                                X = level.up; while X is not None: ...; X = X.up  -> recursion over lv_ups level
    x and y / x or y / not x  (in a test)       && / || / negb, operands coerced by truthiness (py_truthy, py_given)
    s in <str set> / s not in <str set>         mem_str s S / negb ..
    s in t (both str)                           contains_sub s t
    s != t / s == t (str)                       negb (pystr_eqb s t) / pystr_eqb s t
    X is None / X is not None (str set)         py_is_none X / negb ..
    any([E for v in L]) / any(E for v in L)     existsb (fun v => E) L
    r.search(s)  (r an element of RXS)          r s
    isinstance(o, self.exclude_types_tuple)     ty_hit TY o
    self.<callback>(o, <str expression>)        py_call_cb <callback> o      (the path argument is dropped)
    "..{}..".format(a, ..) / f"..{a}.."         concatenation of the literal pieces (s2p) and the arguments
                                                (a str argument itself, a dict key k -> str_atom k)
    s.startswith(t)                             is_prefix t s
    s.isdigit() / s[0].isdigit()                all_digits s / is_digit (hd 0 s)   (IndexError on '' not modelled)
    SetOrdered() ; result.add(x)                [] ; result ++ [x]           (a set is a list, repetitions allowed:
                                                only membership and emptiness are observed)
    for v in L: if T: x = c; break              x := if existsb (fun v => T) L then c else x
    for v in L: if T: return c                  if existsb (fun v => T) L then c else <rest>
    for v in L: <adds to result>                result := fold_left (fun result v => ...) L result
    pass                                        (nothing)
    {items} / set(items)  (helper)              py_singleton items / py_items items  on the argument sum type paths_arg
    isinstance(items, strings)                  py_is_str items

Skip rules (each is part of the trusted base of this tie): the docstring of a function (first statement, a string
constant) is dropped; comments and `# type: ignore` never reach the ast; the `:rtype:` text is inside the docstring.
Nothing else is skipped.
"""
import ast
import os


class Unsupported(Exception):
    pass


def _bad(fn, node, msg):
    try:
        dump = ast.dump(node)[:200]
    except Exception:  # noqa
        dump = repr(node)[:200]
    raise Unsupported("%s:%s: %s: %s" % (fn, getattr(node, "lineno", "?"), msg, dump))


# ---------------------------------------------------------------------------------------------------------------------
# signatures: Python function -> (Coq parameter text, {python parameter: (coq name, type)}, {self attribute: (coq, type)})
# ---------------------------------------------------------------------------------------------------------------------

DIFF_SELF = {"exclude_paths": ("EX", "strset"), "include_paths": ("INC", "strset"),
             "exclude_regex_paths": ("RXS", "rxlist"), "exclude_types_tuple": ("TY", "tylist"),
             "exclude_obj_callback": ("CB", "cb"), "exclude_obj_callback_strict": ("CBS", "cb"),
             "include_obj_callback": ("ICB", "cb"), "include_obj_callback_strict": ("ICBS", "cb")}
HASH_SELF = {"exclude_paths": ("EX", "strset"), "include_paths": ("INC", "strset"),
             "exclude_regex_paths": ("RXS", "rxlist"), "exclude_types_tuple": ("TY", "tylist"),
             "exclude_obj_callback": ("CB", "cb")}

SIG_OPTS = "(RXS : list (pystr -> bool)) (EX INC : list pystr) (TY : list ty)"

FUNCS = [
    # file, class, function, generated name, python params, coq binders, their names, param env, self env, result type
    ("deepdiff/diff.py", "DeepDiff", "_skip_this", "g__skip_this", ["self", "level"],
     SIG_OPTS + " (CB CBS ICB ICBS : option (value -> bool)) (level : level)", "RXS EX INC TY CB CBS ICB ICBS level",
     {"level": ("level", "level")}, DIFF_SELF, "bool"),
    ("deepdiff/diff.py", "DeepDiff", "_skip_this_key", "g__skip_this_key", ["self", "level", "key"],
     "(INC : list pystr) (level : level) (key : atom)", "INC level key",
     {"level": ("level", "level"), "key": ("key", "atom")}, {"include_paths": ("INC", "strset")}, "bool"),
    ("deepdiff/deephash.py", "DeepHash", "_skip_this", "g_DeepHash__skip_this", ["self", "obj", "parent"],
     SIG_OPTS + " (CB : option (value -> bool)) (obj : option value) (parent : pystr)", "RXS EX INC TY CB obj parent",
     {"obj": ("obj", "obj"), "parent": ("parent", "str")}, HASH_SELF, "bool"),
    ("deepdiff/helper.py", None, "add_root_to_paths", "g_add_root_to_paths", ["paths"],
     "(paths : list pystr)", "paths", {"paths": ("paths", "strset")}, {}, "strset"),
    ("deepdiff/helper.py", None, "convert_item_or_items_into_set_else_none", "g_convert_item_or_items_into_set_else_none",
     ["items"], "(items : paths_arg)", "items", {"items": ("items", "arg")}, {}, "strset"),
]

# the only places where the modelled attributes may be written, and what must be written there
INIT_FRAME = {
    ("deepdiff/diff.py", "DeepDiff"): {
        "exclude_paths": "add_root_to_paths(convert_item_or_items_into_set_else_none(exclude_paths))",
        "include_paths": "add_root_to_paths(convert_item_or_items_into_set_else_none(include_paths))",
        "exclude_regex_paths": "convert_item_or_items_into_compiled_regexes_else_none(exclude_regex_paths)",
        "exclude_types_tuple": "tuple(exclude_types) if exclude_types else None",
        "exclude_obj_callback": "exclude_obj_callback",
        "exclude_obj_callback_strict": "exclude_obj_callback_strict",
        "include_obj_callback": "include_obj_callback",
        "include_obj_callback_strict": "include_obj_callback_strict"},
    ("deepdiff/deephash.py", "DeepHash"): {
        "exclude_paths": "add_root_to_paths(convert_item_or_items_into_set_else_none(exclude_paths))",
        "include_paths": "add_root_to_paths(convert_item_or_items_into_set_else_none(include_paths))",
        "exclude_regex_paths": "convert_item_or_items_into_compiled_regexes_else_none(exclude_regex_paths)",
        "exclude_types_tuple": "tuple(exclude_types)",
        "exclude_obj_callback": "exclude_obj_callback"},
}


def coq_str(s, fn, node):
    if not all(32 <= ord(c) < 127 for c in s):
        _bad(fn, node, "string literal outside printable ASCII")
    return '(s2p "%s"%%string)' % s.replace('"', '""')


# ---------------------------------------------------------------------------------------------------------------------
# one function
# ---------------------------------------------------------------------------------------------------------------------

class Fun:
    def __init__(self, fn, gname, selfenv, rtype):
        self.fn = fn
        self.gname = gname
        self.selfenv = selfenv
        self.rtype = rtype
        self.aux = []          # auxiliary Fixpoints (while loops), emitted before the definition
        self.nloop = 0
        self.binders = ""

    # ---- expressions ------------------------------------------------------------------------------------------------
    def expr(self, e, env):
        """-> (coq text, type)"""
        fn = self.fn
        if isinstance(e, ast.Constant):
            if e.value is True:
                return "true", "bool"
            if e.value is False:
                return "false", "bool"
            if isinstance(e.value, str):
                return coq_str(e.value, fn, e), "str"
            if e.value is None:
                return "[]", "none"        # only where a str set is expected (unify / ret)
            _bad(fn, e, "constant")
        if isinstance(e, ast.Name):
            if not isinstance(e.ctx, ast.Load) or e.id not in env:
                _bad(fn, e, "unknown name")
            return env[e.id]
        if isinstance(e, ast.Attribute) and isinstance(e.ctx, ast.Load):
            if isinstance(e.value, ast.Name) and e.value.id == "self" and "self" not in env:
                if e.attr not in self.selfenv:
                    _bad(fn, e, "attribute of self outside the modelled options")
                return self.selfenv[e.attr]
            if isinstance(e.value, ast.Name) and env.get(e.value.id, (None, None))[1] == "level" and e.attr in ("t1", "t2"):
                return "(lv_%s %s)" % (e.attr, env[e.value.id][0]), "obj"
            _bad(fn, e, "attribute")
        if isinstance(e, ast.BoolOp):
            op = " && " if isinstance(e.op, ast.And) else " || "
            return "(" + op.join(self.test(v, env) for v in e.values) + ")", "bool"
        if isinstance(e, ast.UnaryOp) and isinstance(e.op, ast.Not):
            return "(negb %s)" % self.test(e.operand, env), "bool"
        if isinstance(e, ast.Compare):
            return self.compare(e, env)
        if isinstance(e, ast.Call):
            return self.call(e, env)
        if isinstance(e, ast.JoinedStr):
            parts = []
            for v in e.values:
                if isinstance(v, ast.Constant) and isinstance(v.value, str):
                    parts.append(coq_str(v.value, fn, v))
                elif isinstance(v, ast.FormattedValue) and v.conversion == -1 and v.format_spec is None:
                    parts.append(self.as_text(v.value, env))
                else:
                    _bad(fn, v, "f-string part")
            return "(" + " ++ ".join(parts) + ")", "str"
        if isinstance(e, ast.Set) and len(e.elts) == 1:
            t, ty = self.expr(e.elts[0], env)
            if ty != "arg":
                _bad(fn, e, "set display")
            return "(py_singleton %s)" % t, "strset"
        _bad(fn, e, "expression form")

    def as_text(self, e, env):
        """an argument of str.format / an f-string field: format(x, '')"""
        t, ty = self.expr(e, env)
        if ty == "str":
            return t
        if ty == "atom":
            return "(str_atom %s)" % t
        _bad(self.fn, e, "formatted value of type " + ty)

    def test(self, e, env):
        """an expression in boolean context"""
        t, ty = self.expr(e, env)
        if ty == "bool":
            return t
        if ty in ("strset", "rxlist", "tylist"):
            return "(py_truthy %s)" % t
        if ty == "cb":
            return "(py_given %s)" % t
        if ty == "arg":
            return "(py_arg_truthy %s)" % t
        _bad(self.fn, e, "truth value of type " + ty)

    def compare(self, e, env):
        fn = self.fn
        if len(e.ops) != 1 or len(e.comparators) != 1:
            _bad(fn, e, "chained comparison")
        op, right = e.ops[0], e.comparators[0]
        if isinstance(op, (ast.Is, ast.IsNot)):
            if not (isinstance(right, ast.Constant) and right.value is None):
                _bad(fn, e, "is / is not")
            t, ty = self.expr(e.left, env)
            if ty != "strset":
                _bad(fn, e, "is None on type " + ty)
            r = "(py_is_none %s)" % t
            return (r if isinstance(op, ast.Is) else "(negb %s)" % r), "bool"
        lt, lty = self.expr(e.left, env)
        rt, rty = self.expr(right, env)
        if isinstance(op, (ast.In, ast.NotIn)):
            if lty == "str" and rty == "strset":
                r = "(mem_str %s %s)" % (lt, rt)
            elif lty == "str" and rty == "str":
                r = "(contains_sub %s %s)" % (lt, rt)
            else:
                _bad(fn, e, "membership %s in %s" % (lty, rty))
            return (r if isinstance(op, ast.In) else "(negb %s)" % r), "bool"
        if isinstance(op, (ast.Eq, ast.NotEq)) and lty == "str" and rty == "str":
            r = "(pystr_eqb %s %s)" % (lt, rt)
            return (r if isinstance(op, ast.Eq) else "(negb %s)" % r), "bool"
        _bad(fn, e, "comparison")

    def call(self, e, env):
        fn = self.fn
        if e.keywords:
            _bad(fn, e, "keyword arguments")
        f = e.func
        # any([E for v in L])
        if isinstance(f, ast.Name) and f.id == "any" and f.id not in env and len(e.args) == 1 \
                and isinstance(e.args[0], (ast.ListComp, ast.GeneratorExp)):
            c = e.args[0]
            if len(c.generators) != 1:
                _bad(fn, e, "comprehension")
            g = c.generators[0]
            if g.ifs or g.is_async or not isinstance(g.target, ast.Name):
                _bad(fn, e, "comprehension")
            it, ity = self.expr(g.iter, env)
            v, env2 = self.bind(g.target.id, self.elem_type(ity, g.iter), env)
            return "(existsb (fun %s => %s) %s)" % (v, self.test(c.elt, env2), it), "bool"
        # isinstance(o, self.exclude_types_tuple) / isinstance(items, strings)
        if isinstance(f, ast.Name) and f.id == "isinstance" and f.id not in env and len(e.args) == 2:
            o, oty = self.expr(e.args[0], env)
            if oty == "arg" and isinstance(e.args[1], ast.Name) and e.args[1].id == "strings" and "strings" not in env:
                return "(py_is_str %s)" % o, "bool"
            t, tty = self.expr(e.args[1], env)
            if oty != "obj" or tty != "tylist":
                _bad(fn, e, "isinstance")
            return "(ty_hit %s %s)" % (t, o), "bool"
        # set(items)
        if isinstance(f, ast.Name) and f.id == "set" and f.id not in env and len(e.args) == 1:
            t, ty = self.expr(e.args[0], env)
            if ty != "arg":
                _bad(fn, e, "set()")
            return "(py_items %s)" % t, "strset"
        # SetOrdered()
        if isinstance(f, ast.Name) and f.id == "SetOrdered" and f.id not in env and not e.args:
            return "[]", "acc"
        if isinstance(f, ast.Attribute):
            # self.<callback>(o, path)
            if isinstance(f.value, ast.Name) and f.value.id == "self" and "self" not in env:
                cb, cty = self.expr(f, env)
                if cty != "cb" or len(e.args) != 2:
                    _bad(fn, e, "call of an attribute of self")
                o, oty = self.expr(e.args[0], env)
                _p, pty = self.expr(e.args[1], env)
                if oty != "obj" or pty != "str":
                    _bad(fn, e, "callback arguments")
                return "(py_call_cb %s %s)" % (cb, o), "bool"
            # level.path() / up.path()
            if f.attr == "path" and not e.args and isinstance(f.value, ast.Name):
                t, ty = self.expr(f.value, env)
                if ty == "level":
                    return "(lv_path %s)" % t, "str"
                if ty == "up":
                    return "(render %s)" % t, "str"
                _bad(fn, e, ".path() on type " + ty)
            # "..{}..".format(a, b)
            if f.attr == "format" and isinstance(f.value, ast.Constant) and isinstance(f.value.value, str):
                pieces = f.value.value.split("{}")
                if len(pieces) != len(e.args) + 1 or any("{" in p or "}" in p for p in pieces):
                    _bad(fn, e, "format string")
                parts = []
                for i, p in enumerate(pieces):
                    if p:
                        parts.append(coq_str(p, fn, f.value))
                    if i < len(e.args):
                        parts.append(self.as_text(e.args[i], env))
                return "(" + " ++ ".join(parts) + ")", "str"
            # r.search(s) / s.startswith(t) / s.isdigit() / s[0].isdigit()
            if f.attr == "isdigit" and not e.args and isinstance(f.value, ast.Subscript):
                s = f.value
                if isinstance(s.slice, ast.Constant) and s.slice.value == 0 and type(s.slice.value) is int:
                    t, ty = self.expr(s.value, env)
                    if ty == "str":
                        return "(is_digit (hd 0%%N %s))" % t, "bool"
                _bad(fn, e, "subscript")
            t, ty = self.expr(f.value, env)
            if f.attr == "search" and ty == "rx" and len(e.args) == 1:
                a, aty = self.expr(e.args[0], env)
                if aty == "str":
                    return "(%s %s)" % (t, a), "bool"
            if f.attr == "startswith" and ty == "str" and len(e.args) == 1:
                a, aty = self.expr(e.args[0], env)
                if aty == "str":
                    return "(is_prefix %s %s)" % (a, t), "bool"
            if f.attr == "isdigit" and ty == "str" and not e.args:
                return "(all_digits %s)" % t, "bool"
        _bad(fn, e, "call")

    def elem_type(self, ity, node):
        if ity == "strset":
            return "str"
        if ity == "rxlist":
            return "rx"
        _bad(self.fn, node, "iteration over type " + ity)

    def bind(self, pyname, ty, env):
        if not pyname.isidentifier() or pyname == "self":
            raise Unsupported("%s: local name %r" % (self.fn, pyname))
        env2 = dict(env)
        env2[pyname] = ("v_" + pyname, ty)
        return "v_" + pyname, env2

    # ---- statements -------------------------------------------------------------------------------------------------
    # `tail` = what a statement list evaluates to when control falls off its end:
    #   None                 every path must end in a return
    #   ("var", pyname)      the current binding of a local (its type is looked up where the list ends)
    #   ("expr", text, ty)   a fixed expression
    # every block(...) returns (text, type of the value)

    def unify(self, a, b, node):
        if a == b:
            return a
        if {a, b} == {"none", "strset"}:
            return "strset"
        _bad(self.fn, node, "the branches have different types (%s / %s)" % (a, b))

    def assigned(self, stmts, env):
        """the local variables a statement list may assign (result.add(x) counts as an assignment to result)"""
        out = []
        for s in stmts:
            if isinstance(s, ast.Assign) and len(s.targets) == 1 and isinstance(s.targets[0], ast.Name):
                out.append(s.targets[0].id)
            elif isinstance(s, ast.If):
                out += self.assigned(s.body, env) + self.assigned(s.orelse, env)
            elif isinstance(s, ast.For):
                out += self.assigned(s.body, env)
            elif self.is_add(s, env):
                out.append(s.value.func.value.id)
            elif isinstance(s, (ast.Break, ast.Return, ast.Pass)):
                pass
            else:
                _bad(self.fn, s, "statement form")
        return sorted(set(out))

    def is_add(self, s, env):
        return (isinstance(s, ast.Expr) and isinstance(s.value, ast.Call) and isinstance(s.value.func, ast.Attribute)
                and s.value.func.attr == "add" and isinstance(s.value.func.value, ast.Name)
                and env.get(s.value.func.value.id, (None, None))[1] == "acc"
                and len(s.value.args) == 1 and not s.value.keywords)

    def has(self, stmts, kind):
        return any(isinstance(n, kind) for s in stmts for n in ast.walk(s))

    def has_loose_break(self, stmts):
        """a break that is not inside a loop nested in the statement list"""
        for s in stmts:
            if isinstance(s, ast.Break):
                return True
            if isinstance(s, ast.If) and (self.has_loose_break(s.body) or self.has_loose_break(s.orelse)):
                return True
        return False

    def ret(self, s, env):
        if s.value is None:
            if self.rtype != "strset":
                _bad(self.fn, s, "bare return")
            return "[]", "strset"
        t, ty = self.expr(s.value, env)
        if self.rtype == "bool" and ty == "bool":
            return t, ty
        if self.rtype == "strset" and ty in ("strset", "acc", "none"):
            return t, "strset"
        _bad(self.fn, s, "return of type %s" % ty)

    def block(self, stmts, env, tail, ind):
        fn = self.fn
        pad = "  " * ind
        if not stmts:
            if tail is None:
                raise Unsupported("%s: %s: a path falls off the end of the function" % (fn, self.gname))
            if tail[0] == "var":
                return pad + env[tail[1]][0], env[tail[1]][1]
            return pad + tail[1], tail[2]
        s, rest = stmts[0], stmts[1:]
        if isinstance(s, ast.Pass):                      # `pass` does nothing
            return self.block(rest, env, tail, ind)
        if isinstance(s, ast.Return):
            if rest:
                _bad(fn, rest[0], "statement after return")
            t, ty = self.ret(s, env)
            return pad + t, ty
        if isinstance(s, ast.Assign):
            if len(s.targets) != 1 or not isinstance(s.targets[0], ast.Name):
                _bad(fn, s, "assignment target")
            name = s.targets[0].id
            # X = level.up ; while X is not None: ... ; X = X.up
            if (isinstance(s.value, ast.Attribute) and s.value.attr == "up" and isinstance(s.value.value, ast.Name)
                    and env.get(s.value.value.id, (None, None))[1] == "level"):
                if not rest or not isinstance(rest[0], ast.While):
                    _bad(fn, s, "level.up outside the ancestor walk")
                return self.while_up(name, env[s.value.value.id][0], rest[0], rest[1:], env, tail, ind)
            t, ty = self.expr(s.value, env)
            v, env2 = self.bind(name, ty, env)
            r, rty = self.block(rest, env2, tail, ind)
            return pad + "let %s := %s in\n" % (v, t) + r, rty
        if self.is_add(s, env):
            v, ty = env[s.value.func.value.id]
            t, aty = self.expr(s.value.args[0], env)
            if aty != "str":
                _bad(fn, s, "add of type " + aty)
            r, rty = self.block(rest, env, tail, ind)
            return pad + "let %s := %s ++ [%s] in\n" % (v, v, t) + r, rty
        if isinstance(s, ast.If):
            c = self.test(s.test, env)
            if self.has(s.body + s.orelse, ast.Return):
                if self.has_loose_break(s.body + s.orelse) or not isinstance(s.body[-1], ast.Return):
                    _bad(fn, s, "if with a return that is not the last statement of its branch")
                a, aty = self.block(s.body, env, None, ind + 1)
                if s.orelse:
                    if rest:
                        _bad(fn, s, "statements after an if / else that returns")
                    b, bty = self.block(s.orelse, env, tail, ind + 1)
                else:
                    b, bty = self.block(rest, env, tail, ind)
                return pad + "if %s then\n" % c + a + "\n" + pad + "else\n" + b, self.unify(aty, bty, s)
            if self.has_loose_break(s.body + s.orelse):
                _bad(fn, s, "break outside the recognised loop shape")
            vs = sorted(set(self.assigned(s.body, env) + self.assigned(s.orelse, env)))
            if len(vs) != 1 or vs[0] not in env:
                _bad(fn, s, "an if must assign exactly one already defined local (found %r)" % (vs,))
            t, ty = self.ifexpr(s, env, vs[0], ind + 1)
            v, env2 = self.bind(vs[0], ty, env)
            r, rty = self.block(rest, env2, tail, ind)
            return pad + "let %s :=\n" % v + t + " in\n" + r, rty
        if isinstance(s, ast.For):
            return self.for_(s, rest, env, tail, ind)
        _bad(fn, s, "statement form")

    def ifexpr(self, s, env, name, ind):
        """if / elif / else assigning the single local `name`, as an expression of its (new) value"""
        pad = "  " * ind
        c = self.test(s.test, env)
        a, aty = self.block(s.body, env, ("var", name), ind + 1)
        out = pad + "if %s then\n" % c + a + "\n"
        if len(s.orelse) == 1 and isinstance(s.orelse[0], ast.If) and not self.has(s.orelse, (ast.Return, ast.Break)):
            b, bty = self.ifexpr(s.orelse[0], env, name, ind)
            return out + pad + "else " + b.lstrip(), self.unify(aty, bty, s)
        b, bty = self.block(s.orelse, env, ("var", name), ind + 1)
        return out + pad + "else\n" + b, self.unify(aty, bty, s)

    def for_(self, s, rest, env, tail, ind):
        fn = self.fn
        pad = "  " * ind
        if s.orelse or not isinstance(s.target, ast.Name):
            _bad(fn, s, "for ... else / target")
        it, ity = self.expr(s.iter, env)
        x, env2 = self.bind(s.target.id, self.elem_type(ity, s.iter), env)
        body = s.body
        if len(body) == 1 and isinstance(body[0], ast.If) and not body[0].orelse:
            i = body[0]
            # for v in L: if T: x = c; break
            if (len(i.body) == 2 and isinstance(i.body[1], ast.Break) and isinstance(i.body[0], ast.Assign)
                    and len(i.body[0].targets) == 1 and isinstance(i.body[0].targets[0], ast.Name)
                    and i.body[0].targets[0].id in env and i.body[0].targets[0].id != s.target.id
                    and isinstance(i.body[0].value, ast.Constant)):
                v, vty = env[i.body[0].targets[0].id]
                c, cty = self.expr(i.body[0].value, env)
                if cty != vty:
                    _bad(fn, i, "assignment changes the type")
                r, rty = self.block(rest, env, tail, ind)
                return (pad + "let %s := if (existsb (fun %s => %s) %s) then %s else %s in\n"
                        % (v, x, self.test(i.test, env2), it, c, v) + r), rty
            # for v in L: if T: return c
            if len(i.body) == 1 and isinstance(i.body[0], ast.Return) and isinstance(i.body[0].value, ast.Constant):
                c, cty = self.ret(i.body[0], env)
                r, rty = self.block(rest, env, tail, ind)
                return (pad + "if (existsb (fun %s => %s) %s) then %s else\n" % (x, self.test(i.test, env2), it, c) + r,
                        self.unify(cty, rty, s))
        if self.has(body, (ast.Break, ast.Return, ast.Continue)):
            _bad(fn, s, "loop shape")
        vs = self.assigned(body, env2)
        if len(vs) != 1 or vs[0] not in env or env[vs[0]][1] != "acc" or vs[0] == s.target.id:
            _bad(fn, s, "a plain loop must only add to one accumulator (found %r)" % (vs,))
        v = env[vs[0]][0]
        b, bty = self.block(body, env2, ("var", vs[0]), ind + 2)
        if bty != "acc":
            _bad(fn, s, "loop body")
        r, rty = self.block(rest, env, tail, ind)
        return pad + "let %s := fold_left (fun %s %s =>\n" % (v, v, x) + b + ") %s %s in\n" % (it, v) + r, rty

    def while_up(self, name, lvl, w, rest, env, tail, ind):
        """X = level.up
           while X is not None:
               if T(X): return c       (one or more)
               X = X.up
           <rest>"""
        fn = self.fn
        pad = "  " * ind
        t = w.test
        if not (isinstance(t, ast.Compare) and len(t.ops) == 1 and isinstance(t.ops[0], ast.IsNot) and isinstance(t.left, ast.Name)
                and t.left.id == name and isinstance(t.comparators[0], ast.Constant) and t.comparators[0].value is None) or w.orelse:
            _bad(fn, w, "while test")
        if len(w.body) < 2:
            _bad(fn, w, "while body")
        step = w.body[-1]
        if not (isinstance(step, ast.Assign) and len(step.targets) == 1 and isinstance(step.targets[0], ast.Name)
                and step.targets[0].id == name and isinstance(step.value, ast.Attribute) and step.value.attr == "up"
                and isinstance(step.value.value, ast.Name) and step.value.value.id == name):
            _bad(fn, step, "the last statement of the ancestor walk must be X = X.up")
        for b in w.body[:-1]:
            if not (isinstance(b, ast.If) and not b.orelse and len(b.body) == 1 and isinstance(b.body[0], ast.Return)):
                _bad(fn, b, "statement inside the ancestor walk")
        if name in env:
            _bad(fn, w, "loop variable already in use")
        # only the parameters may occur inside / after the walk (the auxiliary Fixpoint receives the parameters)
        for n in [n for b in w.body[:-1] + rest for n in ast.walk(b) if isinstance(n, ast.Name)]:
            if n.id in env and env[n.id][0].startswith("v_"):
                _bad(fn, n, "local variable used inside / after the ancestor walk")
            if n.id == name and n in [m for b in rest for m in ast.walk(b)]:
                _bad(fn, n, "the loop variable is used after the ancestor walk")
        self.nloop += 1
        lname = "%s_while%d" % (self.gname, self.nloop)
        x, env2 = self.bind(name, "up", env)
        after, aty = self.block(rest, env, tail, 2)
        body, bty = self.block(w.body[:-1], env2, ("expr", "(%s %s ups')" % (lname, self.argnames), self.rtype), 2)
        self.unify(aty, bty, w)
        self.aux.append("Fixpoint %s %s (ups : list path) {struct ups} : bool :=\n  match ups with\n  | [] =>\n%s\n  | %s :: ups' =>\n%s\n  end.\n"
                        % (lname, self.binders, after, x, body))
        return pad + "%s %s (lv_ups %s)" % (lname, self.argnames, lvl), aty


def find_function(tree, fn, cls, name):
    scope = tree.body
    if cls:
        cs = [n for n in tree.body if isinstance(n, ast.ClassDef) and n.name == cls]
        if len(cs) != 1:
            raise Unsupported("%s: class %s not found exactly once" % (fn, cls))
        scope = cs[0].body
    fs = [n for n in scope if isinstance(n, (ast.FunctionDef, ast.AsyncFunctionDef)) and n.name == name]
    if len(fs) != 1 or not isinstance(fs[0], ast.FunctionDef):
        raise Unsupported("%s: %s%s not defined exactly once" % (fn, cls + "." if cls else "", name))
    # a later rebinding of the name in the same scope (X._skip_this = ..., a second def, a module-level assignment)
    for n in scope:
        if isinstance(n, (ast.Assign, ast.AugAssign, ast.AnnAssign)):
            for t in ast.walk(n):
                if isinstance(t, ast.Name) and t.id == name and isinstance(t.ctx, ast.Store):
                    _bad(fn, n, "the name %s is rebound" % name)
    # the function replaced from outside its scope: X._skip_this = ..., setattr(X, "_skip_this", ...), del X._skip_this
    for n in ast.walk(tree):
        if isinstance(n, ast.Attribute) and n.attr == name and isinstance(n.ctx, (ast.Store, ast.Del)):
            _bad(fn, n, "the attribute %s is assigned" % name)
        if isinstance(n, ast.Call) and isinstance(n.func, ast.Name) and n.func.id in ("setattr", "delattr") and len(n.args) >= 2 \
                and isinstance(n.args[1], ast.Constant) and n.args[1].value == name:
            _bad(fn, n, "setattr of %s" % name)
    return fs[0]


def check_signature(fn, f, params):
    a = f.args
    if f.decorator_list:
        _bad(fn, f, "decorator")
    if a.vararg or a.kwarg or a.kwonlyargs or a.posonlyargs or a.defaults or a.kw_defaults:
        _bad(fn, f, "parameter list")
    if [x.arg for x in a.args] != params:
        _bad(fn, f, "parameters %r, expected %r" % ([x.arg for x in a.args], params))
    if any(x.annotation is not None for x in a.args) or f.returns is not None:
        _bad(fn, f, "annotations")


def check_init_frame(fn, tree, cls, frame):
    """the modelled attributes are written only in __init__, each exactly once, with the expected expression;
    nowhere in the class are they written through another route (setattr, __dict__, augmented assignment)"""
    c = [n for n in tree.body if isinstance(n, ast.ClassDef) and n.name == cls][0]
    seen = {}
    for meth in c.body:
        for n in ast.walk(meth):
            tgts = []
            if isinstance(n, ast.Assign):
                tgts = n.targets
            elif isinstance(n, (ast.AugAssign, ast.AnnAssign)):
                tgts = [n.target]
            elif isinstance(n, ast.Delete):
                tgts = n.targets
            for t in tgts:
                for a in ast.walk(t):
                    if isinstance(a, ast.Attribute) and a.attr in frame and isinstance(a.ctx, (ast.Store, ast.Del)):
                        if not (isinstance(meth, ast.FunctionDef) and meth.name == "__init__" and isinstance(n, ast.Assign)
                                and len(n.targets) == 1 and isinstance(a.value, ast.Name) and a.value.id == "self"):
                            _bad(fn, n, "the modelled option %s is written outside __init__" % a.attr)
                        if a.attr in seen:
                            _bad(fn, n, "the modelled option %s is written twice" % a.attr)
                        seen[a.attr] = ast.unparse(n.value)
            if isinstance(n, ast.Call) and isinstance(n.func, ast.Name) and n.func.id in ("setattr", "delattr") and len(n.args) >= 2:
                k = n.args[1]
                if not isinstance(k, ast.Constant) or k.value in frame:
                    _bad(fn, n, "setattr that may write a modelled option")
    for k, want in frame.items():
        if seen.get(k) != want:
            raise Unsupported("%s: %s.__init__ sets self.%s = %r, expected %r" % (fn, cls, k, seen.get(k), want))


HEADER = """(* GENERATED by /verif/harness/translate/skipthis.py from
     %s
   (DeepDiff._skip_this, DeepDiff._skip_this_key, DeepHash._skip_this, add_root_to_paths,
    convert_item_or_items_into_set_else_none).  Do not edit: regenerated and recompiled on every run of ./check C13;
   the equivalence with the hand-written model is coq/srctie/FilterGenEquiv.v.  Definitions only. *)
From Coq Require Import String List ZArith NArith Bool Arith.
Import ListNotations.
Local Open Scope list_scope.
From DD Require Import Base.PyStr Base.Value Diff.Tree Path.PathModel Filter.FilterModel Filter.FilterModelV Filter.FilterTie.

"""


def translate(repo_root):
    trees = {}
    out = []
    for (fn, cls, name, gname, params, binders, argnames, penv, selfenv, rtype) in FUNCS:
        if fn not in trees:
            with open(os.path.join(repo_root, fn), encoding="utf-8") as fh:
                trees[fn] = ast.parse(fh.read(), filename=fn)
        f = find_function(trees[fn], fn, cls, name)
        check_signature(fn, f, params)
        body = list(f.body)
        # skip rule: the docstring
        if body and isinstance(body[0], ast.Expr) and isinstance(body[0].value, ast.Constant) and isinstance(body[0].value.value, str):
            body = body[1:]
        for n in ast.walk(f):
            if isinstance(n, (ast.Global, ast.Nonlocal, ast.Lambda, ast.Try, ast.With, ast.Yield, ast.YieldFrom, ast.Await,
                              ast.NamedExpr, ast.Starred, ast.FunctionDef, ast.ClassDef, ast.Import, ast.ImportFrom,
                              ast.Delete, ast.Raise, ast.Assert)) and n is not f:
                _bad(fn, n, "node kind outside the supported fragment")
        g = Fun(fn, gname, selfenv, rtype)
        g.binders = binders
        g.argnames = argnames
        text, _ty = g.block(body, dict(penv), None, 1)
        out.append("(* %s: %s%s, line %d *)\n" % (fn, cls + "." if cls else "", name, f.lineno))
        out += g.aux
        out.append("Definition %s %s : %s :=\n%s.\n\n" % (gname, binders, "bool" if rtype == "bool" else "list pystr", text))
    for (fn, cls), frame in INIT_FRAME.items():
        check_init_frame(fn, trees[fn], cls, frame)
    # the normalisation of the two path options in __init__ (the frame check above fixed its text)
    out.append("(* deepdiff/diff.py, deepdiff/deephash.py: __init__: self.exclude_paths = self.include_paths =\n"
               "   add_root_to_paths(convert_item_or_items_into_set_else_none(<argument>)) *)\n"
               "Definition g_init_paths (arg : paths_arg) : list pystr :=\n"
               "  g_add_root_to_paths (g_convert_item_or_items_into_set_else_none arg).\n")
    return HEADER % ", ".join(sorted(trees)) + "".join(out)


if __name__ == "__main__":
    import sys
    sys.stdout.write(translate(sys.argv[1] if len(sys.argv) > 1 else "/repo"))

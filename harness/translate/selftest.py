"""Smallest possible source tie (used by tools/selftest_tie.py to exercise core.source_tie_step):
translates the module-level constant DEFAULT_FIRST_ELEMENT of deepdiff/path.py."""
import ast, os
class Unsupported(Exception):
    pass
def translate(repo):
    p = os.path.join(repo, "deepdiff", "path.py")
    tree = ast.parse(open(p).read())
    for node in tree.body:
        if isinstance(node, ast.Assign) and len(node.targets) == 1 and getattr(node.targets[0], "id", None) == "DEFAULT_FIRST_ELEMENT":
            v = node.value
            consts = {n.targets[0].id: n.value.value for n in tree.body
                      if isinstance(n, ast.Assign) and len(n.targets) == 1 and isinstance(n.targets[0], ast.Name)
                      and isinstance(n.value, ast.Constant) and isinstance(n.value.value, str)}
            def lit(e):
                if isinstance(e, ast.Constant) and isinstance(e.value, str):
                    return e.value
                if isinstance(e, ast.Name) and e.id in consts:
                    return consts[e.id]
                raise Unsupported("path.py:%d: DEFAULT_FIRST_ELEMENT is not a pair of string literals / string constants" % node.lineno)
            if not (isinstance(v, ast.Tuple) and len(v.elts) == 2):
                raise Unsupported("path.py:%d: DEFAULT_FIRST_ELEMENT is not a pair" % node.lineno)
            a, b = (lit(e) for e in v.elts)
            return ('(* generated from deepdiff/path.py: DEFAULT_FIRST_ELEMENT *)\nFrom Coq Require Import String.\nLocal Open Scope string_scope.\n'
                    'Definition g_DEFAULT_FIRST_ELEMENT : string * string := ("%s", "%s").\n' % (a, b))
    raise Unsupported("path.py: DEFAULT_FIRST_ELEMENT not found")

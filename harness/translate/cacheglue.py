"""Fail-closed translator for the CACHING GLUE of an ignore-order run (source tie of C17, DESIGN.md section 4.5).

translate(repo_root) -> text of coq/srctie/CacheGen.v, regenerated from the CURRENT deepdiff/diff.py and
deepdiff/deephash.py on every run of ./check C17.

Translated (Python name -> generated definition):
    deephash.combine_hashes_lists                          g_combine_hashes_lists (+ _loop, the `for` over items)
    DeepDiff._get_distance_cache_key                       g__get_distance_cache_key
    DeepDiff._get_rough_distance_of_hashed_objs            g__get_rough_distance_of_hashed_objs
    DeepDiff._get_most_in_common_pairs_in_iterables        g__get_most_in_common_pairs_in_iterables   (the cache-related
        statements: everything before the first and after the last statement of the pairs computation; the computation
        itself is ONE oracle call, rule R9)
    DeepDiff._auto_off_cache, DeepDiff._auto_tune_cache     g__auto_off_cache, g__auto_tune_cache   (on DiffIO.MemoSrcPrims.tstats)
    DeepDiff.__init__ (root branch): the two statements that create the cache and the flag      g_init_cache_capacity, g_init_enabled
Checked, not translated: `default_hasher = sha256hex` (module level of deephash.py), the constant CACHE_AUTO_ADJUST_THRESHOLD = 0.25,
`_count_diff` calls `_auto_tune_cache` under `if self.cache_size and self.cache_tuning_sample_size:`.

The translation is syntax-directed: one Python statement -> one group of Gallina lines, same order, same case analysis.
It is TYPED (parameter types fixed per function below, locals typed by the table LOCALS).  Rules - each one is part of the
trusted base of this tie (coq/theories/DiffIO/NOTES_SRCTIE.md):

  R1  docstrings skipped; comments are not in the ast
  R2  a memoised method is a function  mstate V -> V * mstate V  (DiffIO.MemoModel.mstate: the LFU cache self._distance_cache and the
      number of reads of the flag so far); every READ of self._stats[DISTANCE_CACHE_ENABLED] in a memoised method is
      `read_flag V sched s` (the schedule's next answer: the auto-tuner is an arbitrary schedule there, as in MemoModel.v)
  R3  `k in self._distance_cache` = cache_contains;  `self._distance_cache.get(k)` = cache_get (an option: None is the sentinel
      not_found);  `self._distance_cache.set(k, value=v)` = cache_set
  R4  `self._stats[DISTANCE_CACHE_HIT_COUNT] += 1` in a memoised method is skipped (the counter only feeds the auto-tuner)
  R5  a local that is assigned None is an option (LOCALS gives its base type); `x is None` and the truthiness of a key in
      `cache_key and <flag>` are a `match` on it (a key is a non-empty str / bytes: truthy); `and` short-circuits
  R6  `if` without a `return` inside: both branches end in the tuple of the variables assigned in it (+ the state);
      `if` with a `return` inside: the statements after the `if` are translated once per branch
  R7  `X.copy()` of a memoised value = X (values are immutable in the model); `.copy()` of the result of `.get`: the
      sentinel's case is the uninterpreted value o_not_found
  R8  the two statements `diff = DeepDiff(removed_hash_obj.item, added_hash_obj.item, _parameters=self._parameters,
      _shared_parameters=self._shared_parameters, view=DELTA_VIEW, _original_type=_original_type,
      iterable_compare_func=self.iterable_compare_func)`; `_distance = diff._get_rough_distance()` (exact text, pinned) =
      ONE call of the oracle o_nested_distance removed_hash_obj added_hash_obj _original_type (state-passing: the nested
      run shares cache and flag)
  R9  in _get_most_in_common_pairs_in_iterables the statements between the first `if` and the last `if` (the pairs
      computation) are ONE call of the oracle o_pairs_body on all parameters, binding `pairs`; they are checked not to
      mention cache_key, _distance_cache, DISTANCE_CACHE_ENABLED, and to contain no `return` outside nested functions
  R10 hashes are an abstract type A: `a > b` = o_gt a b; `sorted(item)` = o_sorted; `str` in `map(str, _)` = o_str;
      `default_hasher(x)` = o_default_hasher x (sha256hex), `str(_)` of its result = identity; str and bytes literals are pystr,
      `+` = pycat, `''.join` = PyStr.join, `.encode('utf-8')` of a str = identity
  R11 the statement `if isinstance(key1, int): ... elif isinstance(key1, str): ...` of _get_distance_cache_key (exact text,
      pinned) = both keys to bytes by o_hash_bytes
  R12 the value RETURNED by a key function is a cache key: o_key_of_bytes / o_key_of_str of the text (the harness's
      enumeration of the real keys as numbers; Python never equates bytes and str)
  R13 `if isinstance(prefix, bytes): prefix = prefix.decode('utf-8')` (exact text, pinned): skipped, prefix is a str
  R14 tuner (on tstats): self._stats[K] / self._shared_parameters[_ENABLE_CACHE_EVERY_X_DIFF] = the field of K; ints are Z;
      `x % y` : `if y =? 0 then <ZeroDivisionError: None>`; `a / b < self.CACHE_AUTO_ADJUST_THRESHOLD` with the constant
      0.25 = p/q (checked): `if b =? 0 then None` then `a * q <? p * b` for b > 0, `p * b <? a * q` for b < 0
      (exact for |a|,|b| < 2**51); self.progress_logger(...) skipped; the statement
      `for key in (PREVIOUS_DIFF_COUNT, PREVIOUS_DISTANCE_CACHE_HIT_COUNT): self._stats[key] = self._stats[key[9:]]`
      (exact text, pinned; the constants are checked to be 'PREVIOUS ' + the other constant) = the two field copies in order

  R15 cache_purge_level (exact text, pinned): `if cache_purge_level not in {0, 1, 2}: raise ValueError(...)` = membership in the listed set;
      the ONLY `del self._distance_cache` of the file is the first statement of `if self.is_root:` in the `finally:` of the try statement of
      __init__ that contains the diff and `self.update(view_results)` (so the purge happens after the result is built), under `if cache_purge_level:`
      (truthiness of an int = non-zero); its last statement is `if cache_purge_level == 2: self.__dict__.clear()`

No eval, no import of deepdiff: the files are read and ast.parse'd.
"""
import ast
import os

DIFF = "deepdiff/diff.py"
HASH = "deepdiff/deephash.py"


class Unsupported(Exception):
    pass


_cur = [DIFF]


def bad(node, why):
    raise Unsupported("%s:%s: %s: %s" % (_cur[0], getattr(node, "lineno", "?"), type(node).__name__, why))


def is_docstring(st):
    return isinstance(st, ast.Expr) and isinstance(st.value, ast.Constant) and isinstance(st.value.value, str)


def comment(st):
    try:
        t = ast.unparse(st).splitlines()[0]
    except Exception:  # noqa
        t = type(st).__name__
    t = t.replace('"', "'").replace("(*", "( *").replace("*)", "* )")
    return "(* %s *)" % t[:160]


def same(node, text):
    return ast.dump(node) == ast.dump(ast.parse(text).body[0])


def v(name):
    return "v_" + name


def pylit(s):
    if not all(32 <= ord(c) < 127 and c != '"' for c in s):
        raise Unsupported("literal %r outside printable ascii" % (s,))
    return '(s2p "%s"%%string)' % s


COQTYPE = {"A": "A", "listA": "list A", "listlistA": "list (list A)", "Obj": "Obj", "HT": "HT", "PIDS": "PIDS", "OT": "OT",
           "pystr": "pystr", "key": "key", "V": "V", "bool": "bool", "Z": "Z"}
NESTED_1 = ("diff = DeepDiff(removed_hash_obj.item, added_hash_obj.item, _parameters=self._parameters, "
            "_shared_parameters=self._shared_parameters, view=DELTA_VIEW, _original_type=_original_type, "
            "iterable_compare_func=self.iterable_compare_func)")
NESTED_2 = "_distance = diff._get_rough_distance()"
KEYBYTES = ("if isinstance(key1, int):\n    key1 = hex(key1).encode('utf-8')\n    key2 = hex(key2).encode('utf-8')\n"
            "elif isinstance(key1, str):\n    key1 = key1.encode('utf-8')\n    key2 = key2.encode('utf-8')")
PREFIX_DECODE = "if isinstance(prefix, bytes):\n    prefix = prefix.decode('utf-8')"
HIT_INCR = "self._stats[DISTANCE_CACHE_HIT_COUNT] += 1"
PREV_LOOP = ("for key in (PREVIOUS_DIFF_COUNT, PREVIOUS_DISTANCE_CACHE_HIT_COUNT):\n"
             "    self._stats[key] = self._stats[key[9:]]")
INIT_CACHE = "self._distance_cache = LFUCache(cache_size) if cache_size else DummyLFU()"
COUNT_DIFF_TAIL = "if self.cache_size and self.cache_tuning_sample_size:\n    self._auto_tune_cache()"
PURGE_RANGE = "if cache_purge_level not in {0, 1, 2}:\n    raise ValueError(PURGE_LEVEL_RANGE_MSG)"
PURGE_DEL = "if cache_purge_level:\n    del self._distance_cache\n    del self.hashes"
PURGE_CLEAR = "if cache_purge_level == 2:\n    self.__dict__.clear()"
LOCALS = {"_distance": "V", "cache_key": "key"}
STAT_FIELDS = {"DIFF_COUNT": "st_diff_count", "DISTANCE_CACHE_HIT_COUNT": "st_hit_count", "PREVIOUS_DIFF_COUNT": "st_prev_diff_count",
               "PREVIOUS_DISTANCE_CACHE_HIT_COUNT": "st_prev_hit_count", "DISTANCE_CACHE_ENABLED": "st_enabled"}
FORBIDDEN_IN_PAIRS_BODY = ("cache_key", "_distance_cache", "DISTANCE_CACHE_ENABLED", "_stats")


def is_flag(node):
    """self._stats[DISTANCE_CACHE_ENABLED]"""
    return (isinstance(node, ast.Subscript) and isinstance(node.value, ast.Attribute) and node.value.attr == "_stats"
            and isinstance(node.value.value, ast.Name) and node.value.value.id == "self"
            and isinstance(node.slice, ast.Name) and node.slice.id == "DISTANCE_CACHE_ENABLED")


def is_cache(node):
    return (isinstance(node, ast.Attribute) and node.attr == "_distance_cache" and isinstance(node.value, ast.Name)
            and node.value.id == "self")


def contains_return(stmts):
    for st in stmts:
        for n in ast.walk(st):
            if isinstance(n, ast.Return):
                return True
    return False


def always_returns(stmts):
    if not stmts:
        return False
    last = stmts[-1]
    if isinstance(last, ast.Return):
        return True
    return isinstance(last, ast.If) and always_returns(last.body) and always_returns(last.orelse)


def assigned(stmts):
    out = []
    for st in stmts:
        for n in ast.walk(st):
            tg = []
            if isinstance(n, ast.Assign):
                tg = n.targets
            elif isinstance(n, (ast.AugAssign, ast.AnnAssign)):
                tg = [n.target]
            for t in tg:
                for m in (t.elts if isinstance(t, ast.Tuple) else [t]):
                    if isinstance(m, ast.Name) and m.id not in out:
                        out.append(m.id)
    return out


class Fn:
    """one function body.  mode "state": result V * mstate V, the state variable is `s`; mode "pure": result a key / text"""

    def __init__(self, T, name, mode, ret_wrap=None):
        self.T, self.name, self.mode, self.ret_wrap = T, name, mode, ret_wrap
        self.tmp = 0
        self.aux = []
        self.params = []

    def fresh(self):
        self.tmp += 1
        return "t%d" % self.tmp

    # ---- expressions: (pre lines, text, type); option types are ("opt", base) -----------------------------------------
    def expr(self, node, env):
        if isinstance(node, ast.Name):
            if node.id in env:
                return [], env[node.id][0], env[node.id][1]
            bad(node, "name %r is not a parameter / local of the translated function" % node.id)
        if isinstance(node, ast.Constant):
            if node.value is None:
                return [], "None", "none"
            if isinstance(node.value, (str, bytes)):
                s = node.value if isinstance(node.value, str) else node.value.decode("latin-1")
                return [], pylit(s), "pystr"
            bad(node, "constant %r in a position without a typing rule" % (node.value,))
        if isinstance(node, ast.Tuple):
            parts = [self.expr(e, env) for e in node.elts]
            if any(p for p, _t, _ty in parts):
                bad(node, "tuple of effectful expressions")
            return [], "(%s)" % ", ".join(t for _p, t, _ty in parts), ("tuple",) + tuple(ty for _p, _t, ty in parts)
        if isinstance(node, ast.List):
            parts = [self.expr(e, env) for e in node.elts]
            if any(p for p, _t, _ty in parts) or not parts or any(ty != "listA" for _p, _t, ty in parts):
                bad(node, "list display that is not a list of hash lists")
            return [], "[%s]" % "; ".join(t for _p, t, _ty in parts), "listlistA"
        if isinstance(node, ast.IfExp):
            pc, c, tc = self.expr(node.test, env)
            pa, a, ta = self.expr(node.body, env)
            pb, b, tb = self.expr(node.orelse, env)
            if pc or pa or pb or tc != "bool" or ta != tb:
                bad(node, "conditional expression outside the white-list")
            return [], "(if %s then %s else %s)" % (c, a, b), ta
        if isinstance(node, ast.UnaryOp) and isinstance(node.op, ast.Not):
            p, c, tc = self.expr(node.operand, env)
            if p or tc != "bool":
                bad(node, "`not` of a %s" % (tc,))
            return [], "(negb %s)" % c, "bool"
        if isinstance(node, ast.Compare):
            if len(node.ops) != 1:
                bad(node, "chained comparison")
            op, l, r = node.ops[0], node.left, node.comparators[0]
            if isinstance(op, ast.In) and is_cache(r):                                   # R3
                if self.mode != "state":
                    bad(node, "cache access in a pure function")
                p, k, ty = self.expr(l, env)
                if ty != "key" or p:
                    bad(node, "`in self._distance_cache` of a %s" % (ty,))
                return [], "(cache_contains V s %s)" % k, "bool"
            pa, a, ta = self.expr(l, env)
            pb, b, tb = self.expr(r, env)
            if pa or pb:
                bad(node, "comparison of effectful expressions")
            if ta == "A" and tb == "A":                                                  # R10
                if isinstance(op, ast.Gt):
                    return [], "(o_gt %s %s)" % (a, b), "bool"
                if isinstance(op, ast.Lt):
                    return [], "(o_gt %s %s)" % (b, a), "bool"
                bad(node, "comparison operator on hashes outside the white-list")
            bad(node, "comparison between %s and %s outside the white-list" % (ta, tb))
        if isinstance(node, ast.BinOp):
            if isinstance(node.op, ast.Add):
                pa, a, ta = self.expr(node.left, env)
                pb, b, tb = self.expr(node.right, env)
                if pa or pb or ta != "pystr" or tb != "pystr":
                    bad(node, "`+` between %s and %s" % (ta, tb))
                return [], "(pycat %s %s)" % (a, b), "pystr"
            bad(node, "arithmetic operator outside the white-list")
        if isinstance(node, ast.Call):
            return self.call(node, env)
        bad(node, "expression form outside the white-list")

    def call(self, node, env):
        f = node.func
        if isinstance(f, ast.Attribute):
            # self._get_distance_cache_key(a, r)
            if isinstance(f.value, ast.Name) and f.value.id == "self" and f.attr == "_get_distance_cache_key":
                if "_get_distance_cache_key" not in self.T.done or node.keywords or len(node.args) != 2:
                    bad(node, "call of _get_distance_cache_key outside the white-list")
                parts = [self.expr(a, env) for a in node.args]
                if any(p or ty != "A" for p, _t, ty in parts):
                    bad(node, "arguments of _get_distance_cache_key")
                return [], "(g__get_distance_cache_key %s %s)" % (parts[0][1], parts[1][1]), "key"
            # self._distance_cache.get(k)                                                 R3
            if is_cache(f.value) and f.attr == "get" and len(node.args) == 1 and not node.keywords:
                if self.mode != "state":
                    bad(node, "cache access in a pure function")
                p, k, ty = self.expr(node.args[0], env)
                if p or ty != "key":
                    bad(node, "`.get` of a %s" % (ty,))
                t = self.fresh()
                return ["let '(%s, s) := cache_get V s %s in" % (t, k)], t, ("opt", "V")
            # X.copy()                                                                    R7
            if f.attr == "copy" and not node.args and not node.keywords:
                p, x, ty = self.expr(f.value, env)
                if ty == "V":
                    return p, x, "V"
                if ty == ("opt", "V") and isinstance(f.value, ast.Call):
                    return p, "(match %s with Some x => x | None => o_not_found end)" % x, "V"
                bad(node, ".copy() of a %s" % (ty,))
            # '<sep>'.join(map(str, sorted(item)))                                        R10
            if f.attr == "join" and isinstance(f.value, ast.Constant) and isinstance(f.value.value, str) and len(node.args) == 1 \
                    and not node.keywords:
                m = node.args[0]
                if not (isinstance(m, ast.Call) and isinstance(m.func, ast.Name) and m.func.id == "map" and len(m.args) == 2
                        and not m.keywords and isinstance(m.args[0], ast.Name) and m.args[0].id == "str" and "str" not in env):
                    bad(node, "join of something that is not map(str, _)")
                p, l, ty = self.expr(m.args[1], env)
                if p or ty != "listA":
                    bad(node, "map(str, _) over a %s" % (ty,))
                return [], "(join %s (map o_str %s))" % (pylit(f.value.value), l), "pystr"
            # <str>.encode('utf-8')                                                       R10
            if f.attr == "encode" and len(node.args) == 1 and not node.keywords and isinstance(node.args[0], ast.Constant) \
                    and node.args[0].value == "utf-8":
                p, x, ty = self.expr(f.value, env)
                if p or ty != "pystr":
                    bad(node, ".encode of a %s" % (ty,))
                return [], x, "pystr"
            bad(node, "method call outside the white-list")
        if not isinstance(f, ast.Name) or f.id in env:
            bad(node, "call of a computed function")
        if f.id == "sorted" and len(node.args) == 1 and not node.keywords:               # R10
            p, l, ty = self.expr(node.args[0], env)
            if p or ty != "listA":
                bad(node, "sorted of a %s" % (ty,))
            return [], "(o_sorted %s)" % l, "listA"
        if f.id == "default_hasher" and len(node.args) == 1 and not node.keywords:       # R10
            p, x, ty = self.expr(node.args[0], env)
            if p or ty != "pystr":
                bad(node, "default_hasher of a %s" % (ty,))
            return [], "(o_default_hasher %s)" % x, "hexstr"
        if f.id == "str" and len(node.args) == 1 and not node.keywords:                  # R10
            p, x, ty = self.expr(node.args[0], env)
            if p or ty != "hexstr":
                bad(node, "str() of a %s" % (ty,))
            return [], x, "pystr"
        if f.id == "combine_hashes_lists" and not node.args:
            if "combine_hashes_lists" not in self.T.done:
                bad(node, "combine_hashes_lists is not translated")
            kw = {k.arg: k.value for k in node.keywords}
            if sorted(kw) != ["items", "prefix"] or len(node.keywords) != 2 or self.T.param_names["combine_hashes_lists"] != ["items", "prefix"]:
                bad(node, "keywords of combine_hashes_lists")
            pi, i, ti = self.expr(kw["items"], env)
            pp, q, tp = self.expr(kw["prefix"], env)
            if pi or pp or ti != "listlistA" or tp != "pystr":
                bad(node, "arguments of combine_hashes_lists")
            return [], "(g_combine_hashes_lists %s %s)" % (i, q), "key"
        bad(node, "call of %r outside the white-list" % f.id)

    # ---- tests of `if`: returns (pre lines, kind, data) -----------------------------------------------------------------
    def test(self, node, env):
        if is_flag(node) and self.mode == "state":                                       # R2
            t = self.fresh()
            return ["let '(%s, s) := read_flag V sched s in" % t], ("bool", t)
        if isinstance(node, ast.Compare) and len(node.ops) == 1 and isinstance(node.ops[0], ast.Is) \
                and isinstance(node.comparators[0], ast.Constant) and node.comparators[0].value is None \
                and isinstance(node.left, ast.Name) and node.left.id in env:             # R5
            ty = env[node.left.id][1]
            if not (isinstance(ty, tuple) and ty[0] == "opt"):
                bad(node, "`is None` on a %s" % (ty,))
            return [], ("isnone", node.left.id)
        if isinstance(node, ast.BoolOp) and isinstance(node.op, ast.And) and len(node.values) == 2 \
                and isinstance(node.values[0], ast.Name) and node.values[0].id in env and is_flag(node.values[1]) \
                and self.mode == "state":                                                 # R5
            x = node.values[0].id
            ty = env[x][1]
            if ty not in ("key", ("opt", "key")):
                bad(node, "truthiness of a %s" % (ty,))
            return [], ("keyandflag", x)
        p, c, ty = self.expr(node, env)
        if ty != "bool":
            bad(node, "the test is a %s" % (ty,))
        return p, ("bool", c)

    def render_if(self, st, env, ind, then_fn, else_fn):
        """then_fn / else_fn : (env, ind) -> text"""
        pre, tst = self.test(st.test, env)
        out = "".join("%s%s\n" % (ind, p) for p in pre)
        if tst[0] == "bool":
            return out + "%sif %s then\n%s\n%selse\n%s" % (ind, tst[1], then_fn(env, ind + "  "), ind, else_fn(env, ind + "  "))
        if tst[0] == "isnone":
            x = tst[1]
            env1 = dict(env)
            env1[x] = (env[x][0], env[x][1][1])
            return out + "%smatch %s with\n%s| None =>\n%s\n%s| Some %s =>\n%s\n%send" % (
                ind, env[x][0], ind, then_fn(env, ind + "  "), ind, env[x][0], else_fn(env1, ind + "  "), ind)
        x = tst[1]
        scrut = env[x][0] if env[x][1] != "key" else "(Some %s)" % env[x][0]
        env1 = dict(env)
        env1[x] = (env[x][0], "key")
        t = self.fresh()
        return out + ("%smatch %s with\n%s| None =>\n%s\n%s| Some %s =>\n%s  let '(%s, s) := read_flag V sched s in\n%s  if %s then\n%s\n%s  else\n%s\n%send" % (
            ind, scrut, ind, else_fn(env, ind + "  "), ind, env[x][0], ind, t, ind, t, then_fn(env1, ind + "    "), ind,
            else_fn(env1, ind + "    "), ind))

    # ---- statements -----------------------------------------------------------------------------------------------------
    def seq(self, stmts, env, ind, tail):
        """tail(env, ind) -> text closes a path that falls off the end of `stmts`"""
        if not stmts:
            return tail(env, ind)
        st, rest = stmts[0], stmts[1:]
        c = ind + comment(st) + "\n"
        if is_docstring(st):                                                             # R1
            return self.seq(rest, env, ind, tail)
        if isinstance(st, ast.Return):
            if rest:
                bad(rest[0], "statement after a return")
            return c + self.ret(st, env, ind)
        if self.mode == "state" and same(st, HIT_INCR):                                  # R4
            return ind + "(* skipped (R4): %s *)\n" % HIT_INCR + self.seq(rest, env, ind, tail)
        if self.name == "_get_rough_distance_of_hashed_objs" and same(st, NESTED_1):      # R8
            if not rest or not same(rest[0], NESTED_2):
                bad(st, "the nested DeepDiff is not followed by `%s`" % NESTED_2)
            for nm, ty in (("removed_hash_obj", "Obj"), ("added_hash_obj", "Obj"), ("_original_type", "OT")):
                if nm not in env or env[nm][1] != ty:
                    bad(st, "%s is not the parameter the oracle takes" % nm)
            env2 = dict(env)
            env2["_distance"] = (v("_distance"), "V")
            return (c + ind + comment(rest[0]) + "\n"
                    + "%slet '(%s, s) := o_nested_distance %s %s %s s in\n" % (ind, v("_distance"), env["removed_hash_obj"][0],
                                                                            env["added_hash_obj"][0], env["_original_type"][0])
                    + self.seq(rest[1:], env2, ind, tail))
        if self.name == "_get_distance_cache_key" and same(st, KEYBYTES):                 # R11
            if env.get("key1", (0, 0))[1] != "A" or env.get("key2", (0, 0))[1] != "A":
                bad(st, "key1 / key2 are not hashes here")
            env2 = dict(env)
            env2["key1"] = (v("key1"), "pystr")
            env2["key2"] = (v("key2"), "pystr")
            return (c + "%slet '(%s, %s) := (o_hash_bytes %s, o_hash_bytes %s) in\n" % (ind, v("key1"), v("key2"), env["key1"][0], env["key2"][0])
                    + self.seq(rest, env2, ind, tail))
        if self.name == "combine_hashes_lists" and same(st, PREFIX_DECODE):               # R13
            return ind + "(* skipped (R13): if isinstance(prefix, bytes): prefix = prefix.decode('utf-8') *)\n" + self.seq(rest, env, ind, tail)
        if isinstance(st, ast.Assign):
            return c + self.assign(st, rest, env, ind, tail)
        if isinstance(st, ast.AugAssign):
            if not (isinstance(st.op, ast.Add) and isinstance(st.target, ast.Name) and st.target.id in env
                    and env[st.target.id][1] == "pystr"):
                bad(st, "augmented assignment outside the white-list")
            p, e, ty = self.expr(st.value, env)
            if p or ty != "pystr":
                bad(st, "`+=` of a %s" % (ty,))
            x = st.target.id
            return c + "%slet %s := pycat %s %s in\n" % (ind, v(x), env[x][0], e) + self.seq(rest, dict(env, **{x: (v(x), "pystr")}), ind, tail)
        if isinstance(st, ast.Expr) and isinstance(st.value, ast.Call):
            f = st.value.func
            if (self.mode == "state" and isinstance(f, ast.Attribute) and f.attr == "set" and is_cache(f.value) and len(st.value.args) == 1
                    and len(st.value.keywords) == 1 and st.value.keywords[0].arg == "value"):      # R3
                pk, k, tk = self.expr(st.value.args[0], env)
                pv, val, tv = self.expr(st.value.keywords[0].value, env)
                if pk or pv or tk != "key" or tv != "V":
                    bad(st, "`.set(%s, value=%s)`" % (tk, tv))
                return c + "%slet s := cache_set V s %s %s in\n" % (ind, k, val) + self.seq(rest, env, ind, tail)
            bad(st, "expression statement outside the white-list")
        if isinstance(st, ast.If):
            return c + self.if_(st, rest, env, ind, tail)
        if isinstance(st, ast.For):
            return c + self.for_(st, rest, env, ind, tail)
        bad(st, "statement form outside the white-list")

    def ret(self, st, env, ind):
        if st.value is None:
            bad(st, "bare return")
        p, e, ty = self.expr(st.value, env)
        out = "".join("%s%s\n" % (ind, q) for q in p)
        if self.mode == "state":
            if ty != "V":
                bad(st, "return of a %s from a memoised method" % (ty,))
            return out + "%s(%s, s)" % (ind, e)
        if ty != "pystr":
            bad(st, "return of a %s from a key function" % (ty,))
        return out + "%s%s %s" % (ind, self.ret_wrap, e)                                  # R12

    def assign(self, st, rest, env, ind, tail):
        p, e, ty = self.expr(st.value, env)
        out = "".join("%s%s\n" % (ind, q) for q in p)
        env2 = dict(env)
        if len(st.targets) == 1 and isinstance(st.targets[0], ast.Tuple):
            tg = st.targets[0]
            if not (all(isinstance(x, ast.Name) for x in tg.elts) and isinstance(ty, tuple) and ty[0] == "tuple"
                    and len(ty) - 1 == len(tg.elts) and len({x.id for x in tg.elts}) == len(tg.elts)):
                bad(st, "tuple assignment outside the white-list")
            for x, t1 in zip(tg.elts, ty[1:]):
                env2[x.id] = (v(x.id), t1)
            return out + "%slet '(%s) := %s in\n" % (ind, ", ".join(v(x.id) for x in tg.elts), e) + self.seq(rest, env2, ind, tail)
        if not all(isinstance(x, ast.Name) for x in st.targets):
            bad(st, "assignment target")
        for x in st.targets:
            if ty == "none":                                                              # R5
                if x.id not in LOCALS:
                    bad(st, "None assigned to %s, whose type the translator does not know" % x.id)
                env2[x.id] = (v(x.id), ("opt", LOCALS[x.id]))
                out += "%slet %s : option %s := None in\n" % (ind, v(x.id), COQTYPE[LOCALS[x.id]])
            else:
                if x.id in LOCALS and ty not in (LOCALS[x.id], ("opt", LOCALS[x.id])):
                    bad(st, "%s is assigned a %s" % (x.id, ty))
                if isinstance(ty, tuple) and ty[0] == "tuple" or ty == "hexstr":
                    bad(st, "assignment of a %s" % (ty,))
                env2[x.id] = (v(x.id), ty)
                out += "%slet %s := %s in\n" % (ind, v(x.id), e)
        if len(st.targets) > 1 and ty != "none":
            bad(st, "chained assignment of something that is not None")
        return out + self.seq(rest, env2, ind, tail)

    def if_(self, st, rest, env, ind, tail):
        if contains_return(st.body) or contains_return(st.orelse):                      # R6, second form
            return self.render_if(st, env, ind,
                                  lambda e, i: self.seq(st.body + ([] if always_returns(st.body) else rest), e, i, tail),
                                  lambda e, i: self.seq(st.orelse + ([] if always_returns(st.orelse) else rest), e, i, tail))
        # a name first bound inside a branch stays local to it: a later use is rejected by `expr` (unknown name)
        vs = [x for x in assigned(st.body + st.orelse) if x in env]
        # first pass: the types at the end of every path
        ends = []
        save = self.tmp

        def probe(e, i):
            ends.append(dict(e))
            return ""
        self.render_if(st, env, ind, lambda e, i: self.seq(st.body, e, i, probe), lambda e, i: self.seq(st.orelse, e, i, probe))
        self.tmp = save
        jty = {}
        for x in vs:
            tys = {e[x][1] for e in ends}
            if len(tys) == 1:
                jty[x] = tys.pop()
            else:
                base = {t[1] if isinstance(t, tuple) and t[0] == "opt" else t for t in tys}
                if len(base) != 1:
                    bad(st, "%s has types %r at the end of the branches" % (x, sorted(map(str, tys))))
                jty[x] = ("opt", base.pop())
        state = ["s"] if self.mode == "state" else []

        def close(e, i):
            parts = []
            for x in vs:
                parts.append(e[x][0] if e[x][1] == jty[x] else "Some %s" % e[x][0])
            return "%s(%s)" % (i, ", ".join(parts + state))
        body = self.render_if(st, env, ind + "  ", lambda e, i: self.seq(st.body, e, i, close), lambda e, i: self.seq(st.orelse, e, i, close))
        env2 = dict(env)
        for x in vs:
            env2[x] = (v(x), jty[x])
        names = [v(x) for x in vs] + state
        if not names:
            bad(st, "an `if` that neither assigns nor returns")
        pat = "'(%s)" % ", ".join(names) if len(names) > 1 else names[0]
        return "%slet %s :=\n%s in\n" % (ind, pat, body) + self.seq(rest, env2, ind, tail)

    def for_(self, st, rest, env, ind, tail):
        # for item in items: acc += E      (combine_hashes_lists)
        if self.mode != "pure" or st.orelse or self.aux or not (isinstance(st.iter, ast.Name) and st.iter.id in env
                                                               and env[st.iter.id][1] == "listlistA"):
            bad(st, "for statement outside the white-list")
        if not (isinstance(st.target, ast.Name) and st.target.id not in env and len(st.body) == 1 and isinstance(st.body[0], ast.AugAssign)
                and isinstance(st.body[0].target, ast.Name) and st.body[0].target.id in env and env[st.body[0].target.id][1] == "pystr"):
            bad(st, "loop that is not `for <fresh name> in <list>: <text accumulator> += E`")
        acc = st.body[0].target.id
        others = [n for n in env if n not in (acc, st.iter.id)]
        used = {n.id for n in ast.walk(st.body[0]) if isinstance(n, ast.Name)}
        if used & set(others):
            bad(st, "the loop body uses a variable other than the item and the accumulator")
        env2 = {acc: (v(acc), "pystr"), st.target.id: (v(st.target.id), "listA")}
        lname = "g_%s_loop" % self.name
        body = self.seq(st.body, env2, "    ", lambda e, i: "%s%s items' %s" % (i, lname, e[acc][0]))
        self.aux.append("Fixpoint %s (items : list (list A)) (%s : pystr) : pystr :=\n  match items with\n  | [] => %s\n  | %s :: items' =>\n%s\n  end."
                        % (lname, v(acc), v(acc), v(st.target.id), body))
        return "%slet %s := %s %s %s in\n" % (ind, v(acc), lname, env[st.iter.id][0], env[acc][0]) + self.seq(rest, env, ind, tail)


class TunerFn:
    """_auto_off_cache / _auto_tune_cache on tstats: result option tstats (None = ZeroDivisionError), state variable `t`.  R14"""

    def __init__(self, T, name):
        self.T, self.name = T, name
        self.tmp = 0

    def fresh(self):
        self.tmp += 1
        return "q%d" % self.tmp

    def stat(self, node):
        """self._stats[K] / self._stats['PREVIOUS {}'.format(K)] / self._shared_parameters[_ENABLE_CACHE_EVERY_X_DIFF] -> field"""
        if not (isinstance(node, ast.Subscript) and isinstance(node.value, ast.Attribute) and isinstance(node.value.value, ast.Name)
                and node.value.value.id == "self"):
            return None
        k = node.slice
        if node.value.attr == "_stats":
            if isinstance(k, ast.Name) and k.id in STAT_FIELDS:
                return STAT_FIELDS[k.id]
            if (isinstance(k, ast.Call) and isinstance(k.func, ast.Attribute) and k.func.attr == "format" and isinstance(k.func.value, ast.Constant)
                    and k.func.value.value == "PREVIOUS {}" and len(k.args) == 1 and not k.keywords and isinstance(k.args[0], ast.Name)
                    and "PREVIOUS_" + k.args[0].id in STAT_FIELDS):
                return STAT_FIELDS["PREVIOUS_" + k.args[0].id]
            bad(node, "key of self._stats outside the white-list")
        if node.value.attr == "_shared_parameters":
            if isinstance(k, ast.Name) and k.id == "_ENABLE_CACHE_EVERY_X_DIFF":
                return "st_enable_every"
            bad(node, "key of self._shared_parameters outside the white-list")
        return None

    def zexpr(self, node, env):
        """(checks, text) of an int expression; checks = divisors that must be non-zero, in evaluation order"""
        f = self.stat(node)
        if f is not None:
            if f == "st_enabled":
                bad(node, "the flag where an int is expected")
            return [], "(%s t)" % f
        if isinstance(node, ast.Attribute) and isinstance(node.value, ast.Name) and node.value.id == "self" and node.attr == "cache_tuning_sample_size":
            return [], "v_cache_tuning_sample_size"
        if isinstance(node, ast.Constant) and type(node.value) is int:
            return [], "%d" % node.value if node.value >= 0 else "(%d)" % node.value
        if isinstance(node, ast.BinOp):
            ca, a = self.zexpr(node.left, env)
            cb, b = self.zexpr(node.right, env)
            if isinstance(node.op, ast.Sub):
                return ca + cb, "(%s - %s)" % (a, b)
            if isinstance(node.op, ast.Mult):
                return ca + cb, "(%s * %s)" % (a, b)
            if isinstance(node.op, ast.Mod):
                return ca + cb + [b], "(%s mod %s)" % (a, b)
            bad(node, "int operator outside the white-list")
        bad(node, "int expression outside the white-list")

    def bexpr(self, node, env):
        f = self.stat(node)
        if f == "st_enabled":
            return [], "(st_enabled t)"
        if isinstance(node, ast.Name) and node.id in env and env[node.id][1] == "bool":
            return [], env[node.id][0]
        if isinstance(node, ast.Attribute) and isinstance(node.value, ast.Name) and node.value.id == "self" and node.attr == "cache_tuning_sample_size":
            return [], "(negb (v_cache_tuning_sample_size =? 0))"
        if isinstance(node, ast.Compare) and len(node.ops) == 1:
            op, l, r = node.ops[0], node.left, node.comparators[0]
            if isinstance(op, ast.Eq):
                ca, a = self.zexpr(l, env)
                cb, b = self.zexpr(r, env)
                return ca + cb, "(%s =? %s)" % (a, b)
            if isinstance(op, ast.Lt) and isinstance(l, ast.Name) and l.id in env and env[l.id][1] == "ratio" \
                    and isinstance(r, ast.Attribute) and isinstance(r.value, ast.Name) and r.value.id == "self" and r.attr == "CACHE_AUTO_ADJUST_THRESHOLD":
                a, b = env[l.id][0]
                p, q = self.T.threshold
                return [], "(if 0 <? %s then %s * %d <? %d * %s else %d * %s <? %s * %d)" % (b, a, q, p, b, p, b, a, q)
        bad(node, "test outside the white-list")

    def guard(self, checks, body, ind):
        out = ""
        for d in checks:
            out += "%sif %s =? 0 then None else\n" % (ind, d)
        return out + body

    def seq(self, stmts, env, ind, tail):
        if not stmts:
            return tail(env, ind)
        st, rest = stmts[0], stmts[1:]
        c = ind + comment(st) + "\n"
        if is_docstring(st):
            return self.seq(rest, env, ind, tail)
        if same(st, PREV_LOOP):                                                          # R14
            return (c + "%slet t := with_prev_diff_count t (st_diff_count t) in\n%slet t := with_prev_hit_count t (st_hit_count t) in\n" % (ind, ind)
                    + self.seq(rest, env, ind, tail))
        if isinstance(st, ast.Expr) and isinstance(st.value, ast.Call) and isinstance(st.value.func, ast.Attribute) \
                and isinstance(st.value.func.value, ast.Name) and st.value.func.value.id == "self":
            f = st.value.func.attr
            if f == "progress_logger":
                for n in ast.walk(st.value):
                    if isinstance(n, (ast.Subscript, ast.Attribute)) and n is not st.value.func and not (
                            isinstance(n, ast.Attribute) and n.attr == "format"):
                        bad(st, "argument of progress_logger outside the white-list")
                return ind + "(* skipped (R14): self.progress_logger(...) *)\n" + self.seq(rest, env, ind, tail)
            if f == "_auto_off_cache" and not st.value.args and not st.value.keywords and "_auto_off_cache" in self.T.done:
                return (c + "%smatch g__auto_off_cache t with None => None | Some t =>\n" % ind + self.seq(rest, env, ind, tail) + "\n%send" % ind)
            bad(st, "method call outside the white-list")
        if isinstance(st, ast.Assign) and len(st.targets) == 1:
            tg = st.targets[0]
            f = self.stat(tg)
            if f == "st_enabled" and isinstance(st.value, ast.Constant) and isinstance(st.value.value, bool):
                return c + "%slet t := with_enabled t %s in\n" % (ind, "true" if st.value.value else "false") + self.seq(rest, env, ind, tail)
            if isinstance(tg, ast.Name) and tg.id not in env:
                if isinstance(st.value, ast.BinOp) and isinstance(st.value.op, ast.Div):
                    ca, a = self.zexpr(st.value.left, env)
                    cb, b = self.zexpr(st.value.right, env)
                    na, nb = self.fresh(), self.fresh()
                    env2 = dict(env, **{tg.id: ((na, nb), "ratio")})
                    body = "%slet %s := %s in\n%slet %s := %s in\n" % (ind, na, a, ind, nb, b)
                    return c + self.guard(ca + cb, body + "%sif %s =? 0 then None else\n" % (ind, nb), ind) + self.seq(rest, env2, ind, tail)
                ck, b = self.bexpr(st.value, env)
                env2 = dict(env, **{tg.id: (v(tg.id), "bool")})
                return c + self.guard(ck, "%slet %s := %s in\n" % (ind, v(tg.id), b), ind) + self.seq(rest, env2, ind, tail)
            bad(st, "assignment outside the white-list")
        if isinstance(st, ast.AugAssign) and isinstance(st.op, ast.Mult) and self.stat(st.target) == "st_enable_every" \
                and isinstance(st.value, ast.Constant) and type(st.value.value) is int:
            return c + "%slet t := with_enable_every t (st_enable_every t * %d) in\n" % (ind, st.value.value) + self.seq(rest, env, ind, tail)
        if isinstance(st, ast.If):
            if contains_return(st.body + st.orelse):
                bad(st, "return inside the tuner")
            ck, b = self.bexpr(st.test, env)
            # the state `t` is the only thing a branch can change (locals bound inside a branch are not visible after it)
            close = lambda e, i: "%sSome t" % i                                           # noqa: E731
            body = ("%sif %s then\n%s\n%selse\n%s" % (ind + "  ", b, self.seq(st.body, env, ind + "    ", close), ind + "  ",
                                                      self.seq(st.orelse, env, ind + "    ", close)))
            return (c + self.guard(ck, "%smatch (\n%s) with None => None | Some t =>\n" % (ind, body), ind)
                    + self.seq(rest, env, ind, tail) + "\n%send" % ind)
        bad(st, "statement form outside the white-list")


class Translator:
    def __init__(self, diff_tree, hash_tree):
        self.diff_tree, self.hash_tree = diff_tree, hash_tree
        self.done = set()
        self.param_names = {}
        self.out = []
        self.threshold = None

    # ---- finding things, fail closed ------------------------------------------------------------------------------------
    def toplevel(self, tree, names):
        found = {}
        for node in tree.body:
            nm = []
            if isinstance(node, (ast.FunctionDef, ast.ClassDef, ast.AsyncFunctionDef)):
                nm = [node.name]
            elif isinstance(node, (ast.Assign, ast.AnnAssign, ast.AugAssign)):
                for tg in (node.targets if isinstance(node, ast.Assign) else [node.target]):
                    nm += [n.id for n in ast.walk(tg) if isinstance(n, ast.Name)]
            elif isinstance(node, (ast.Import, ast.ImportFrom)):
                nm = [(al.asname or al.name).split(".")[0] for al in node.names]
            for n in nm:
                if n in names:
                    if n in found:
                        bad(node, "second binding of %s" % n)
                    found[n] = node
        for node in ast.walk(tree):
            if isinstance(node, (ast.Global, ast.Nonlocal)) and set(node.names) & set(names):
                bad(node, "global statement on a translated name")
        return found

    def methods(self, cls, names):
        found = {}
        for m in cls.body:
            if isinstance(m, (ast.FunctionDef, ast.AsyncFunctionDef)) and m.name in names:
                if m.name in found:
                    bad(m, "second definition of DeepDiff.%s" % m.name)
                found[m.name] = m
            elif isinstance(m, (ast.Assign, ast.AnnAssign)):
                for tg in (m.targets if isinstance(m, ast.Assign) else [m.target]):
                    for n in ast.walk(tg):
                        if isinstance(n, ast.Name) and n.id in names:
                            bad(m, "class-level rebinding of %s" % n.id)
        for n in names:
            if n not in found:
                bad(cls, "DeepDiff.%s not found" % n)
        # nobody rebinds a translated method
        for node in ast.walk(self.diff_tree):
            if isinstance(node, (ast.Assign, ast.AugAssign, ast.Delete)):
                for tg in (node.targets if not isinstance(node, ast.AugAssign) else [node.target]):
                    if isinstance(tg, ast.Attribute) and tg.attr in names:
                        bad(node, "assignment to the attribute %s" % tg.attr)
        return found

    def signature(self, fn, want, decorators=()):
        a = fn.args
        got = []
        for d in fn.decorator_list:
            got.append(ast.unparse(d))
        if tuple(got) != tuple(decorators):
            bad(fn, "decorators %r, the translator knows %r" % (got, list(decorators)))
        if a.vararg or a.kwarg or a.kwonlyargs or a.posonlyargs or a.kw_defaults:
            bad(fn, "parameter kinds outside the white-list")
        names = [p.arg for p in a.args]
        if names != [n for n, _t, _d in want]:
            bad(fn, "parameters %r, the model knows %r" % (names, [n for n, _t, _d in want]))
        first = len(names) - len(a.defaults)
        for i, (n, _t, d) in enumerate(want):
            have = a.defaults[i - first] if i >= first else None
            if (have is None) != (d is None) or (have is not None and ast.unparse(have) != d):
                bad(fn, "default of %s is not %r" % (n, d))
        return names

    def emit(self, fn, F, params, ret, body):
        binders = " ".join("(%s : %s)" % (v(n), COQTYPE[t]) for n, t in params)
        if F.mode == "state":
            binders += " (s : mstate V)"
        hdr = "(* %s:%d  def %s(%s) *)" % (_cur[0], fn.lineno, fn.name, comment(fn.args)[3:-3])
        self.out.append("\n".join([hdr] + F.aux + ["Definition g_%s %s : %s :=\n%s." % (fn.name, binders, ret, body)]))
        self.done.add(fn.name)

    def no_fall(self, name):
        def tail(env, ind):
            raise Unsupported("%s: a path through %s does not end in a return" % (_cur[0], name))
        return tail

    def run(self):
        # ---- deephash.py: combine_hashes_lists, default_hasher ----------------------------------------------------------
        _cur[0] = HASH
        top = self.toplevel(self.hash_tree, {"combine_hashes_lists", "default_hasher", "sha256hex"})
        dh = top.get("default_hasher")
        if not (isinstance(dh, ast.Assign) and same(dh, "default_hasher = sha256hex") and isinstance(top.get("sha256hex"), ast.FunctionDef)):
            bad(dh or self.hash_tree.body[0], "`default_hasher = sha256hex` not found at module level")
        fn = top.get("combine_hashes_lists")
        if not isinstance(fn, ast.FunctionDef):
            bad(self.hash_tree.body[0], "combine_hashes_lists is not a module-level function")
        self.param_names["combine_hashes_lists"] = self.signature(fn, [("items", "listlistA", None), ("prefix", "pystr", None)])
        F = Fn(self, "combine_hashes_lists", "pure", "o_key_of_str")
        params = [("items", "listlistA"), ("prefix", "pystr")]
        body = F.seq(fn.body, {n: (v(n), t) for n, t in params}, "  ", self.no_fall(fn.name))
        self.emit(fn, F, params, "key", body)
        # ---- diff.py ---------------------------------------------------------------------------------------------------
        _cur[0] = DIFF
        top = self.toplevel(self.diff_tree, {"DeepDiff", "combine_hashes_lists", "LFUCache", "DummyLFU", "DISTANCE_CACHE_ENABLED",
                                             "DISTANCE_CACHE_HIT_COUNT", "PREVIOUS_DISTANCE_CACHE_HIT_COUNT", "DIFF_COUNT",
                                             "PREVIOUS_DIFF_COUNT", "_ENABLE_CACHE_EVERY_X_DIFF", "DELTA_VIEW"})
        imp = top.get("combine_hashes_lists")
        if not (isinstance(imp, ast.ImportFrom) and imp.module == "deepdiff.deephash" and imp.level == 0
                and any(al.name == "combine_hashes_lists" and al.asname is None for al in imp.names)):
            bad(imp or self.diff_tree.body[0], "combine_hashes_lists is not imported from deepdiff.deephash")
        imp = top.get("LFUCache")
        if not (isinstance(imp, ast.ImportFrom) and imp.module == "deepdiff.lfucache" and imp is top.get("DummyLFU")):
            bad(imp or self.diff_tree.body[0], "LFUCache, DummyLFU are not imported from deepdiff.lfucache")
        consts = {}
        for nm in ("DISTANCE_CACHE_HIT_COUNT", "PREVIOUS_DISTANCE_CACHE_HIT_COUNT", "DIFF_COUNT", "PREVIOUS_DIFF_COUNT", "DISTANCE_CACHE_ENABLED"):
            node = top.get(nm)
            if not (isinstance(node, ast.Assign) and len(node.targets) == 1 and isinstance(node.value, ast.Constant) and isinstance(node.value.value, str)):
                bad(node or self.diff_tree.body[0], "%s is not a string constant" % nm)
            consts[nm] = node.value.value
        for nm in ("DISTANCE_CACHE_HIT_COUNT", "DIFF_COUNT"):                            # R14: key[9:]
            if consts["PREVIOUS_" + nm] != "PREVIOUS " + consts[nm]:
                bad(top["PREVIOUS_" + nm], "PREVIOUS_%s is not 'PREVIOUS ' + %s" % (nm, nm))
        if len(set(consts.values())) != len(consts):
            bad(top["DIFF_COUNT"], "two stats keys are equal")
        cls = top.get("DeepDiff")
        if not isinstance(cls, ast.ClassDef):
            bad(self.diff_tree.body[0], "class DeepDiff not found")
        names = ["_get_distance_cache_key", "_get_rough_distance_of_hashed_objs", "_get_most_in_common_pairs_in_iterables",
                 "_auto_off_cache", "_auto_tune_cache", "_count_diff", "__init__"]
        ms = self.methods(cls, names)
        thr = [m for m in cls.body if isinstance(m, ast.Assign) and any(isinstance(t, ast.Name) and t.id == "CACHE_AUTO_ADJUST_THRESHOLD" for t in m.targets)]
        if len(thr) != 1 or not same(thr[0], "CACHE_AUTO_ADJUST_THRESHOLD = 0.25"):
            bad(thr[0] if thr else cls, "CACHE_AUTO_ADJUST_THRESHOLD = 0.25 not found (once) in the class body")
        self.threshold = (1, 4)
        for node in ast.walk(self.diff_tree):
            if isinstance(node, ast.Attribute) and node.attr == "CACHE_AUTO_ADJUST_THRESHOLD" and isinstance(node.ctx, (ast.Store, ast.Del)):
                bad(node, "CACHE_AUTO_ADJUST_THRESHOLD is assigned")
        # _get_distance_cache_key
        fn = ms["_get_distance_cache_key"]
        self.signature(fn, [("added_hash", "A", None), ("removed_hash", "A", None)], ("staticmethod", "lru_cache(maxsize=2028)"))
        F = Fn(self, fn.name, "pure", "o_key_of_bytes")
        params = [("added_hash", "A"), ("removed_hash", "A")]
        body = F.seq(fn.body, {n: (v(n), t) for n, t in params}, "  ", self.no_fall(fn.name))
        self.emit(fn, F, params, "key", body)
        # _get_rough_distance_of_hashed_objs
        fn = ms["_get_rough_distance_of_hashed_objs"]
        want = [("self", None, None), ("added_hash", "A", None), ("removed_hash", "A", None), ("added_hash_obj", "Obj", None),
                ("removed_hash_obj", "Obj", None), ("_original_type", "OT", "None")]
        self.signature(fn, want)
        F = Fn(self, fn.name, "state")
        params = [(n, t) for n, t, _d in want[1:]]
        body = F.seq(fn.body, {n: (v(n), t) for n, t in params}, "  ", self.no_fall(fn.name))
        self.emit(fn, F, params, "V * mstate V", body)
        # _get_most_in_common_pairs_in_iterables
        fn = ms["_get_most_in_common_pairs_in_iterables"]
        want = [("self", None, None), ("hashes_added", "listA", None), ("hashes_removed", "listA", None), ("t1_hashtable", "HT", None),
                ("t2_hashtable", "HT", None), ("parents_ids", "PIDS", None), ("_original_type", "OT", None)]
        self.signature(fn, want)
        params = [(n, t) for n, t, _d in want[1:]]
        stmts = [st for st in fn.body if not is_docstring(st)]
        ifs = [i for i, st in enumerate(stmts) if isinstance(st, ast.If) and any(is_flag(n) for n in ast.walk(st.test))]
        if len(ifs) != 2 or ifs[0] > 1 or ifs[1] != len(stmts) - 2 or not isinstance(stmts[-1], ast.Return):
            bad(fn, "the shape `cache_key = None; if <flag>: ...; <pairs computation>; if cache_key and <flag>: ...; return` is not there")
        middle = stmts[ifs[0] + 1:ifs[1]]                                                # R9
        if not any(isinstance(st, ast.Assign) and len(st.targets) == 1 and isinstance(st.targets[0], ast.Name) and st.targets[0].id == "pairs"
                   for st in middle):
            bad(fn, "the pairs computation does not assign `pairs` at its top level")
        for st in middle:
            if isinstance(st, ast.Return):
                bad(st, "return inside the pairs computation")
            for n in ast.walk(st):
                if isinstance(n, ast.Return) and not isinstance(st, ast.FunctionDef):
                    bad(n, "return inside the pairs computation")
                nm = n.id if isinstance(n, ast.Name) else n.attr if isinstance(n, ast.Attribute) else None
                if nm in FORBIDDEN_IN_PAIRS_BODY:
                    bad(n, "the pairs computation mentions %s" % nm)
        marker = ast.parse("pairs = __o_pairs_body__").body[0]
        F = Fn(self, fn.name, "state")
        orig_seq = F.seq

        def seq(sts, env, ind, tail):
            if sts and sts[0] is marker:
                env2 = dict(env, pairs=(v("pairs"), "V"))
                return ("%s(* R9: the pairs computation, %s:%d-%d *)\n%slet '(%s, s) := o_pairs_body %s s in\n"
                        % (ind, DIFF, middle[0].lineno, getattr(middle[-1], "end_lineno", middle[-1].lineno), ind, v("pairs"),
                           " ".join(env[n][0] for n, _t in params)) + orig_seq(sts[1:], env2, ind, tail))
            return orig_seq(sts, env, ind, tail)
        F.seq = seq
        body = F.seq(stmts[:ifs[0] + 1] + [marker] + stmts[ifs[1]:], {n: (v(n), t) for n, t in params}, "  ", self.no_fall(fn.name))
        self.emit(fn, F, params, "V * mstate V", body)
        # ---- the tuner ---------------------------------------------------------------------------------------------------
        for nm in ("_auto_off_cache", "_auto_tune_cache"):
            fn = ms[nm]
            self.signature(fn, [("self", None, None)])
            G = TunerFn(self, nm)
            body = G.seq(fn.body, {}, "  ", lambda e, i: "%sSome t" % i)
            extra = "" if nm == "_auto_off_cache" else "(v_cache_tuning_sample_size : Z) "
            body = body.replace("g__auto_off_cache t", "g__auto_off_cache t")
            self.out.append("(* %s:%d  def %s(self) *)\nDefinition g_%s %s(t : tstats) : option tstats :=\n%s." % (DIFF, fn.lineno, nm, nm, extra, body))
            self.done.add(nm)
        cd = ms["_count_diff"]
        if not (cd.body and same(cd.body[-1], COUNT_DIFF_TAIL)):
            bad(cd, "_count_diff does not end in `%s`" % COUNT_DIFF_TAIL.replace("\n", " "))
        if sum(1 for n in ast.walk(self.diff_tree) if isinstance(n, ast.Attribute) and n.attr == "_auto_tune_cache") != 1:
            bad(cd, "_auto_tune_cache is mentioned elsewhere than in _count_diff")
        # ---- __init__: the cache and the flag ----------------------------------------------------------------------------
        init = ms["__init__"]
        n_cache = [st for st in ast.walk(init) if isinstance(st, ast.Assign) and any(is_cache(t) for t in st.targets)]
        if len(n_cache) != 1 or not same(n_cache[0], INIT_CACHE):
            bad(n_cache[0] if n_cache else init, "`%s` not found (once) in __init__" % INIT_CACHE)
        flag = [(k, val) for d in ast.walk(init) if isinstance(d, ast.Dict) for k, val in zip(d.keys, d.values)
                if isinstance(k, ast.Name) and k.id == "DISTANCE_CACHE_ENABLED"]
        if len(flag) != 1 or ast.unparse(flag[0][1]) != "bool(cache_size)":
            bad(init, "`DISTANCE_CACHE_ENABLED: bool(cache_size)` not found (once) in __init__")
        every = [(k, val) for d in ast.walk(init) if isinstance(d, ast.Dict) for k, val in zip(d.keys, d.values)
                 if isinstance(k, ast.Name) and k.id == "_ENABLE_CACHE_EVERY_X_DIFF"]
        if len(every) != 1 or ast.unparse(every[0][1]) != "self.cache_tuning_sample_size * 10":
            bad(init, "`_ENABLE_CACHE_EVERY_X_DIFF: self.cache_tuning_sample_size * 10` not found (once) in __init__")
        self.out.append(
            "(* %s:%d  %s   (LFUCache(n) = Some n: a cache of that capacity; DummyLFU() = None) *)\n"
            "Definition g_init_cache_capacity (v_cache_size : nat) : option nat :=\n"
            "  if negb (Nat.eqb v_cache_size 0) then Some v_cache_size else None.\n"
            "(* %s:%d  DISTANCE_CACHE_ENABLED: bool(cache_size) *)\n"
            "Definition g_init_enabled (v_cache_size : nat) : bool := negb (Nat.eqb v_cache_size 0).\n"
            "(* %s:%d  _ENABLE_CACHE_EVERY_X_DIFF: self.cache_tuning_sample_size * 10 *)\n"
            "Definition g_init_enable_every (v_cache_tuning_sample_size : Z) : Z := (v_cache_tuning_sample_size * 10)%%Z."
            % (DIFF, n_cache[0].lineno, INIT_CACHE, DIFF, flag[0][0].lineno, DIFF, every[0][0].lineno))
        # ---- __init__: cache_purge_level (R15) ---------------------------------------------------------------------------
        rng_chk = [st for st in ast.walk(init) if isinstance(st, ast.If) and any(isinstance(n, ast.Name) and n.id == "cache_purge_level" for n in ast.walk(st.test))]
        if len(rng_chk) != 3:
            bad(init, "cache_purge_level is tested %d times in __init__, the translator knows 3" % len(rng_chk))
        chk = [st for st in rng_chk if same(st, PURGE_RANGE)]
        if len(chk) != 1:
            bad(init, "`%s` not found (once) in __init__" % PURGE_RANGE.replace("\n", " "))
        levels = [e.value for e in chk[0].test.comparators[0].elts]
        tries = [st for st in ast.walk(init) if isinstance(st, ast.Try)]
        fin = [t for t in tries if any(isinstance(n, ast.Delete) and any(is_cache(x) for x in n.targets) for f in t.finalbody for n in ast.walk(f))]
        if len(fin) != 1 or sum(1 for n in ast.walk(self.diff_tree) if isinstance(n, ast.Delete) and any(is_cache(x) for x in n.targets)) != 1:
            bad(init, "`del self._distance_cache` is not (once) in the `finally:` of one try statement of __init__")
        t = fin[0]
        if not any(isinstance(n, ast.Call) and isinstance(n.func, ast.Attribute) and n.func.attr == "_diff" for b in t.body for n in ast.walk(b)) \
                or not any(isinstance(n, ast.Call) and isinstance(n.func, ast.Attribute) and n.func.attr == "update" for b in t.body for n in ast.walk(b)):
            bad(t, "the try statement whose `finally:` purges the cache does not contain the diff and the `self.update(view_results)`")
        if not (len(t.finalbody) == 1 and isinstance(t.finalbody[0], ast.If) and ast.unparse(t.finalbody[0].test) == "self.is_root"
                and not t.finalbody[0].orelse and t.finalbody[0].body and same(t.finalbody[0].body[0], PURGE_DEL)
                and same(t.finalbody[0].body[-1], PURGE_CLEAR)):
            bad(t.finalbody[0] if t.finalbody else t, "the `finally:` is not `if self.is_root:` starting with `%s` and ending with `%s`"
                % (PURGE_DEL.replace("\n", " "), PURGE_CLEAR.replace("\n", " ")))
        self.out.append(
            "(* %s:%d  if cache_purge_level not in {...}: raise ValueError(PURGE_LEVEL_RANGE_MSG) *)\n"
            "Definition g_purge_level_accepted (v_cache_purge_level : nat) : bool :=\n"
            "  existsb (Nat.eqb v_cache_purge_level) [%s]%%nat.\n"
            "(* %s:%d  finally: if self.is_root: if cache_purge_level: del self._distance_cache; del self.hashes   (after the diff and self.update(view_results)) *)\n"
            "Definition g_purge_deletes_cache (v_cache_purge_level : nat) : bool := negb (Nat.eqb v_cache_purge_level 0).\n"
            "(* %s:%d  ... if cache_purge_level == 2: self.__dict__.clear() *)\n"
            "Definition g_purge_clears_object (v_cache_purge_level : nat) : bool := Nat.eqb v_cache_purge_level 2."
            % (DIFF, chk[0].lineno, "; ".join("%d" % x for x in levels), DIFF, t.finalbody[0].body[0].lineno, DIFF, t.finalbody[0].body[-1].lineno))
        head = [
            "(* GENERATED by harness/translate/cacheglue.py from %s and %s - do not edit.\n"
            "   Regenerated from the current source and compiled on every run of ./check C17;\n"
            "   coq/srctie/CacheGenEquiv.v proves every definition below equal to the hand-written model. *)" % (DIFF, HASH),
            "From Coq Require Import List ZArith NArith Bool String.",
            "Import ListNotations.",
            "From DD Require Import Base.PyStr Lfu.LfuModel DiffIO.MemoModel DiffIO.MemoSrcPrims.",
            "Local Open Scope Z_scope.",
            "",
            "Section Oracles.",
            "Variable A : Type.                                   (* a hash *)",
            "Variable V : Type.                                   (* a memoised value: a distance or a pairs dictionary *)",
            "Variables Obj HT PIDS OT : Type.                     (* hashed items, hash tables, parents_ids, _original_type *)",
            "Variable sched : nat -> bool.                        (* R2 *)",
            "Variable o_gt : A -> A -> bool.                      (* R10 *)",
            "Variable o_sorted : list A -> list A.",
            "Variable o_str : A -> pystr.",
            "Variable o_default_hasher : pystr -> pystr.",
            "Variable o_hash_bytes : A -> pystr.                  (* R11 *)",
            "Variable o_key_of_bytes : pystr -> key.              (* R12 *)",
            "Variable o_key_of_str : pystr -> key.",
            "Variable o_not_found : V.                            (* R7 *)",
            "Variable o_nested_distance : Obj -> Obj -> OT -> mstate V -> V * mstate V.                      (* R8 *)",
            "Variable o_pairs_body : list A -> list A -> HT -> HT -> PIDS -> OT -> mstate V -> V * mstate V.  (* R9 *)",
        ]
        return "\n".join(head) + "\n\n" + "\n\n".join(self.out) + "\n\nEnd Oracles.\n"


def translate(repo_root):
    trees = []
    for rel in (DIFF, HASH):
        _cur[0] = rel
        with open(os.path.join(repo_root, rel), encoding="utf-8") as f:
            src = f.read()
        try:
            trees.append(ast.parse(src))
        except SyntaxError as e:
            raise Unsupported("%s: does not parse: %s" % (rel, e))
    return Translator(trees[0], trees[1]).run()


if __name__ == "__main__":
    import sys
    sys.stdout.write(translate(sys.argv[1] if len(sys.argv) > 1 else "/repo"))

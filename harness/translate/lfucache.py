"""Source tie of C18: deepdiff/lfucache.py  ->  Gallina (coq/srctie/LfuGen.v, module DDGen.LfuGen).

translate(repo_root) reads /repo's CURRENT deepdiff/lfucache.py (and the three names it imports from
deepdiff/helper.py), walks the `ast` of the classes CacheNode, FreqNode, LFUCache with an explicit white-list
of node shapes and emits one Gallina definition `g_<method>` per Python method, statement by statement, in
the option-monad-over-a-heap style of coq/theories/Lfu/LfuHeapModel.v (whose TYPES and PRIMITIVES it imports:
records cnode/fnode/heap, `bind`/`do`, oid_eqb, mget/mset, with_* field setters, set_dict/set_hhead,
getc/getf/putc/putf, dict_pop/dict_set, and LfuModel.lookup; none of the methods).  Anything outside the
white-list raises Unsupported(file:line: what).  No eval, no import of deepdiff.

The translation is syntax-directed and dumb: one Python statement -> one group of Gallina lines in the same
order; EVERY attribute access `x.f` re-reads the object behind `x` from the current heap (`do t <- getc h x;`),
nothing is cached, normalised or reordered.  Equality with the hand model is the business of
coq/srctie/LfuGenEquiv.v.

ENCODING RULES (each is part of the trusted base of this tie; listed in coq/theories/Lfu/NOTES.md, section Source tie)
 E1  objects: a CacheNode / FreqNode reference is `option id` (None = Python None); `x.f` on a reference is
     `do t <- getc/getf h x; ... (field t)` (AttributeError on None / dangling = the monad's None);
     `x.f = e` is `do h <- putc/putf h x (with_f e)`; the class of every expression is given by the static
     field table FIELDS and the positional parameter table SIGS below (Python is untyped; a wrong table entry
     makes the generated file ill-typed or the equivalence proof fail, it cannot make a wrong tie pass).
 E2  the LFUCache object is the heap itself: self.cache = dict h (association list, `k in d` = lookup is Some,
     d[k] = lookup (KeyError = None), d[k] = v -> dict_set, d.pop(k) -> dict_pop, len(d) = length),
     self.capacity = hcap h, self.freq_link_head = hhead h / set_hhead.
 E3  construction: `C(args)` allocates the next id of its kind and stores the record whose fields are the
     right-hand sides of the `self.f = <parameter | None>` statements of C.__init__ (each field exactly once).
     LFUCache.__init__ yields the heap with empty object stores and counters 0; `raise` = None.
 E4  multiple-target assignment `a = b = e`: e is evaluated once, then the targets are assigned left to right,
     each target's object expression evaluated right before its write (Python's semantics).
 E5  evaluation order: right-hand side before the target object; operands left to right; `and`/`or`
     short-circuit (the right operand's reads happen only when needed); `==`/`!=`/`is` on references =
     oid_eqb (identity: the translator checks that the classes define no __eq__), on numbers Nat.eqb;
     `<=`/`>=` = Nat.leb; `+` = Nat.add.
 E6  `'2+'` (result of count_caches) is the number 2.
 E7  a method with `return <value>` returns option (heap * value); a call statement discarding it is
     `option_map fst`; a method without return value returns option heap.  `not_found` = None : option val,
     a returned content v = Some v (get).
 E8  REPORT TYPE: the tie covers the plain-value form `set(key, value=v)` (report_type = None, the only form
     deepdiff calls): the parameter in the report_type POSITION is erased, `if <that parameter>: A else: B`
     is translated as B (A is not translated), an argument in that position must be that parameter or None.
 E9  method dispatch is static (by the class of the receiver per E1); methods are emitted callees-first.
SKIP RULES
 S1  module docstring; the four `from ... import ...` statements (checked to be exactly the expected ones);
     class DummyLFU (not part of the fragment; checked not to be a base of / referenced by the three classes).
 S2  `with self.lock:` is translated as its body; the translator CHECKS that the bodies of get and set consist
     of exactly this one statement (every heap access of get/set under the lock) and that `with` occurs nowhere else.
 S3  `self.lock = Lock()` in LFUCache.__init__ (the lock is not part of the sequential state).
 S4  LFUCache.get_sorted_cache_keys / get_average_frequency: outside the fragment; checked to contain no store
     to an attribute / subscript, no `del`, and no call of a mutating method.  Any OTHER extra method in the
     three classes is rejected.
 S5  comments, `# type: ignore`, `# pragma` (not in the ast).
"""
import ast
import os

SRC = "deepdiff/lfucache.py"
HELPER = "deepdiff/helper.py"


class Unsupported(Exception):
    pass


def bad(node, what):
    raise Unsupported("%s:%s: %s%s" % (SRC, getattr(node, "lineno", "?"), what,
                                       (" [" + type(node).__name__ + "]") if node is not None else ""))


# ---- static tables (E1) ----------------------------------------------------------------------------------
# class -> field -> (type, getter, setter)
FIELDS = {
    "CacheNode": {"key": ("key", "ckey", None), "content": ("val", "ccont", "with_ccont"),
                  "freq_node": ("F", "cfn", "with_cfn"), "pre": ("C", "cpre", "with_cpre"), "nxt": ("C", "cnxt", "with_cnxt")},
    "FreqNode": {"freq": ("nat", "ffreq", None), "pre": ("F", "fpre", "with_fpre"), "nxt": ("F", "fnxt", "with_fnxt"),
                 "cache_head": ("C", "fhead", "with_fhead"), "cache_tail": ("C", "ftail", "with_ftail")},
}
RECORD_ORDER = {"CacheNode": ["key", "content", "freq_node", "pre", "nxt"],
                "FreqNode": ["freq", "pre", "nxt", "cache_head", "cache_tail"]}
KIND = {"CacheNode": "C", "FreqNode": "F"}
CLASS_OF = {"C": "CacheNode", "F": "FreqNode"}
GET = {"C": "getc", "F": "getf"}
PUT = {"C": "putc", "F": "putf"}
# (class, method) -> positional parameter types after self ("rt" = the report_type position, E8); defaults
SIGS = {
    ("CacheNode", "__init__"): (["key", "rt", "val", "F", "C", "C"], []),
    ("CacheNode", "free_myself"): ([], []),
    ("FreqNode", "__init__"): (["nat", "F", "F"], []),
    ("FreqNode", "count_caches"): ([], []),
    ("FreqNode", "remove"): ([], []),
    ("FreqNode", "pop_head_cache"): ([], []),
    ("FreqNode", "append_cache_to_tail"): (["C"], []),
    ("FreqNode", "insert_after_me"): (["F"], []),
    ("FreqNode", "insert_before_me"): (["F"], []),
    ("LFUCache", "__init__"): (["nat"], []),
    ("LFUCache", "get"): (["key"], []),
    ("LFUCache", "set"): (["key", "rt", "val"], [None, None]),
    ("LFUCache", "__contains__"): (["key"], []),
    ("LFUCache", "move_forward"): (["C", "F"], []),
    ("LFUCache", "dump_cache"): ([], []),
    ("LFUCache", "create_cache_node"): (["key", "rt", "val"], []),
}
OUTSIDE = {("LFUCache", "get_sorted_cache_keys"), ("LFUCache", "get_average_frequency")}      # S4
MUTATORS = {"set", "get", "pop", "move_forward", "dump_cache", "create_cache_node", "remove", "pop_head_cache",
            "append_cache_to_tail", "insert_after_me", "insert_before_me", "free_myself", "clear", "update",
            "setdefault", "popitem", "__setitem__", "__delitem__", "__setattr__", "__delattr__", "setattr", "delattr",
            "add", "append", "insert", "extend", "discard"}
LOCKED = {("LFUCache", "get"), ("LFUCache", "set")}                                            # S2
IMPORTS = [("collections", ["defaultdict"]), ("threading", ["Lock"]), ("statistics", ["mean"]),
           ("deepdiff.helper", ["not_found", "dict_", "SetOrdered"])]
COQTY = {"C": "option id", "F": "option id", "none": "option id", "nat": "nat", "key": "key", "val": "val",
         "bool": "bool", "oval": "option val", "tupFF": "(option id * option id)"}


# names with a fixed meaning in the translation: a parameter / local of that name would shadow it in Python
RESERVED = {"not_found", "len", "CacheNode", "FreqNode", "LFUCache", "DummyLFU", "dict_", "Lock", "defaultdict", "SetOrdered", "mean",
            "dict", "isinstance", "type", "id", "hash", "getattr", "setattr"}


def gname(cls, meth):
    if meth == "__init__":
        return "g_%s_init" % cls
    if meth == "__contains__":
        return "g_contains"
    return "g_" + meth


def clean(s):
    return s.replace('"', "'").replace("(*", "( *").replace("*)", "* )")


def refty(t):
    return t in ("C", "F", "none")


def join(a, b, node):
    if a == b:
        return a
    if a == "none" and b in ("C", "F"):
        return b
    if b == "none" and a in ("C", "F"):
        return a
    if {a, b} <= {"val", "nf", "oval"}:
        return "oval"
    bad(node, "incompatible types %s / %s" % (a, b))


# ---- one method ------------------------------------------------------------------------------------------
class Method:
    def __init__(self, tr, cls, fn):
        self.tr, self.cls, self.fn = tr, cls, fn
        self.name = fn.name
        self.ntmp = 0
        self.calls = []          # (class, method) called
        self.ret_types = []
        self.ret_ty = None
        a = fn.args
        if fn.decorator_list:
            bad(fn, "decorator on %s.%s" % (cls, fn.name))
        if a.vararg or a.kwarg or a.kwonlyargs or a.posonlyargs or getattr(fn, "returns", None) is not None or getattr(fn, "type_params", None):
            bad(fn, "unsupported signature of %s.%s" % (cls, fn.name))
        tys, defaults = SIGS[(cls, fn.name)]
        names = [x.arg for x in a.args]
        if any(x.annotation is not None for x in a.args):
            bad(fn, "annotated parameter in %s.%s" % (cls, fn.name))
        if len(names) != len(tys) + 1:
            bad(fn, "%s.%s takes %d parameters, expected %d" % (cls, fn.name, len(names) - 1, len(tys)))
        if len(a.defaults) != len(defaults) or any(not (isinstance(d, ast.Constant) and d.value is e) for d, e in zip(a.defaults, defaults)):
            bad(fn, "changed parameter defaults of %s.%s" % (cls, fn.name))
        if len(set(names)) != len(names) or set(names) & RESERVED:
            bad(fn, "duplicate parameter / parameter with a reserved name")
        self.selfname = names[0]
        self.params = list(zip(names[1:], tys))
        self.rtname = next((n for n, t in self.params if t == "rt"), None)

    # -- helpers
    def tmp(self):
        self.ntmp += 1
        return "t%d" % self.ntmp

    def var(self, name):
        return "v_" + name

    # -- E8: splice `if report_type: A else: B` -> B
    def splice(self, stmts):
        out = []
        for s in stmts:
            if isinstance(s, ast.If) and isinstance(s.test, ast.Name) and self.rtname is not None and s.test.id == self.rtname:
                if not s.orelse:
                    bad(s, "`if <report_type>:` without else")
                out += self.splice(s.orelse)
            else:
                out.append(s)
        return out

    # ---- expressions: returns (lines, term, type); lines are `do`/`let` lines to put before the use --------
    def expr(self, e, env):
        if isinstance(e, ast.Constant):
            if e.value is None:
                return [], "None", "none"
            if e.value is True or e.value is False:
                return [], ("true" if e.value else "false"), "bool"
            if isinstance(e.value, int) and e.value >= 0:
                return [], str(e.value), "nat"
            if e.value == "2+":                                                   # E6
                return [], "2", "nat"
            bad(e, "constant %r" % (e.value,))
        if isinstance(e, ast.Name):
            if e.id == self.selfname:
                if self.cls == "LFUCache":
                    bad(e, "the cache object used as a value")
                return [], "(Some self)", KIND[self.cls]
            if e.id == self.rtname:
                bad(e, "report_type used outside the shapes of rule E8")
            if e.id == "not_found":
                return [], "None", "nf"
            if e.id in env:
                return [], self.var(e.id), env[e.id]
            bad(e, "unknown name %r" % e.id)
        if isinstance(e, ast.Attribute):
            if not isinstance(e.ctx, ast.Load):
                bad(e, "attribute in non-load context")
            if isinstance(e.value, ast.Name) and e.value.id == self.selfname and self.cls == "LFUCache":      # E2
                if e.attr == "capacity":
                    return [], "(hcap h)", "nat"
                if e.attr == "freq_link_head":
                    return [], "(hhead h)", "F"
                bad(e, "LFUCache attribute %r as a value" % e.attr)
            ls, t, ty = self.expr(e.value, env)
            if ty not in ("C", "F"):
                bad(e, "attribute %r of a non-object (%s)" % (e.attr, ty))
            fld = FIELDS[CLASS_OF[ty]].get(e.attr)
            if fld is None:
                bad(e, "%s has no field %r" % (CLASS_OF[ty], e.attr))
            x = self.tmp()
            return ls + ["do %s <- %s h %s;" % (x, GET[ty], t)], "(%s %s)" % (fld[1], x), fld[0]
        if isinstance(e, ast.Subscript):                                            # self.cache[key]
            if not isinstance(e.ctx, ast.Load) or not self.is_cache(e.value):
                bad(e, "subscript")
            ls, t, ty = self.expr(e.slice, env)
            if ty != "key":
                bad(e, "dict index of type %s" % ty)
            x = self.tmp()
            return ls + ["do %s <- lookup %s (dict h);" % (x, t)], "(Some %s)" % x, "C"
        if isinstance(e, ast.Tuple):
            if len(e.elts) != 2:
                bad(e, "tuple")
            l1, t1, y1 = self.expr(e.elts[0], env)
            l2, t2, y2 = self.expr(e.elts[1], env)
            if not (refty(y1) and refty(y2)):
                bad(e, "tuple of non-references")
            return l1 + l2, "(%s, %s)" % (t1, t2), "tupFF"
        if isinstance(e, ast.BinOp):
            if not isinstance(e.op, ast.Add):
                bad(e, "binary operator")
            l1, t1, y1 = self.expr(e.left, env)
            l2, t2, y2 = self.expr(e.right, env)
            if (y1, y2) != ("nat", "nat"):
                bad(e, "+ on %s, %s" % (y1, y2))
            return l1 + l2, "(%s + %s)" % (t1, t2), "nat"
        if isinstance(e, ast.UnaryOp):
            if not isinstance(e.op, ast.Not):
                bad(e, "unary operator")
            ls, t = self.cond(e.operand, env)
            return ls, "(negb %s)" % t, "bool"
        if isinstance(e, ast.BoolOp):
            ls, t = self.cond(e.values[0], env)
            for v in e.values[1:]:
                l2, t2 = self.cond(v, env)
                if isinstance(e.op, ast.Or):
                    if l2:
                        x = self.tmp()
                        ls = ls + ["do %s <- (if %s then Some true else (" % (x, t)] + ["  " + q for q in l2] + ["  Some %s));" % t2]
                        t = x
                    else:
                        t = "(%s || %s)" % (t, t2)
                else:
                    if l2:
                        x = self.tmp()
                        ls = ls + ["do %s <- (if %s then (" % (x, t)] + ["  " + q for q in l2] + ["  Some %s) else Some false);" % t2]
                        t = x
                    else:
                        t = "(%s && %s)" % (t, t2)
            return ls, t, "bool"
        if isinstance(e, ast.Compare):
            if len(e.ops) != 1:
                bad(e, "chained comparison")
            op, r = e.ops[0], e.comparators[0]
            if isinstance(op, (ast.In, ast.NotIn)):
                if not self.is_cache(r):
                    bad(e, "`in` on something else than self.cache")
                l1, t1, y1 = self.expr(e.left, env)
                if y1 != "key":
                    bad(e, "`in` with a %s" % y1)
                t = "(match lookup %s (dict h) with Some _ => true | None => false end)" % t1
                return l1, (t if isinstance(op, ast.In) else "(negb %s)" % t), "bool"
            l1, t1, y1 = self.expr(e.left, env)
            l2, t2, y2 = self.expr(r, env)
            ls = l1 + l2
            if isinstance(op, (ast.Is, ast.IsNot, ast.Eq, ast.NotEq)):
                neg = isinstance(op, (ast.IsNot, ast.NotEq))
                if refty(y1) and refty(y2):
                    join(y1, y2, e)                                                 # same class (or None)
                    t = "(oid_eqb %s %s)" % (t1, t2)
                elif (y1, y2) == ("nat", "nat") and isinstance(op, (ast.Eq, ast.NotEq)):
                    t = "(Nat.eqb %s %s)" % (t1, t2)
                else:
                    bad(e, "comparison of %s with %s" % (y1, y2))
                return ls, ("(negb %s)" % t if neg else t), "bool"
            if isinstance(op, (ast.LtE, ast.GtE)) and (y1, y2) == ("nat", "nat"):
                return ls, ("(Nat.leb %s %s)" % ((t1, t2) if isinstance(op, ast.LtE) else (t2, t1))), "bool"
            bad(e, "comparison operator")
        if isinstance(e, ast.Call):
            return self.call(e, env, discard=False)
        bad(e, "expression")

    def cond(self, e, env):
        ls, t, ty = self.expr(e, env)
        if ty != "bool":
            bad(e, "condition of type %s (truthiness of non-booleans is not supported)" % ty)
        return ls, t

    def is_cache(self, e):
        return (self.cls == "LFUCache" and isinstance(e, ast.Attribute) and e.attr == "cache" and isinstance(e.ctx, ast.Load)
                and isinstance(e.value, ast.Name) and e.value.id == self.selfname)

    def args_for(self, call, cls, meth, env, kwnames=None):
        """argument terms of a call of cls.meth, E8 applied; keyword arguments allowed for constructors"""
        tys, defaults = SIGS[(cls, meth)]
        if any(isinstance(a, ast.Starred) for a in call.args) or any(k.arg is None for k in call.keywords):
            bad(call, "star arguments")
        slots = [None] * len(tys)
        if len(call.args) > len(tys):
            bad(call, "too many arguments")
        for i, a in enumerate(call.args):
            slots[i] = a
        if call.keywords:
            names = self.tr.param_names[(cls, meth)]
            for k in call.keywords:
                if k.arg not in names:
                    bad(call, "unknown keyword %r" % k.arg)
                i = names.index(k.arg)
                if slots[i] is not None:
                    bad(call, "argument given twice")
                slots[i] = k.value
        ls, ts = [], []
        # Python evaluates positional arguments, then keyword arguments, each left to right; all argument
        # expressions accepted here that have reads are evaluated in slot order only when there are no keywords
        order = list(range(len(tys)))
        for i in order:
            a = slots[i]
            if a is None:
                nd = len(tys) - len(defaults)
                if i >= nd and tys[i] == "rt":
                    continue
                bad(call, "missing argument %d of %s.%s" % (i, cls, meth))
            if tys[i] == "rt":                                                      # E8
                if not ((isinstance(a, ast.Name) and a.id == self.rtname) or (isinstance(a, ast.Constant) and a.value is None)):
                    bad(a, "report_type argument that is neither the report_type parameter nor None")
                continue
            l, t, y = self.expr(a, env)
            if call.keywords and l:
                bad(a, "keyword call with an argument that reads the heap")
            want = tys[i]
            if not (y == want or (y == "none" and want in ("C", "F"))):
                bad(a, "argument %d of %s.%s has type %s, expected %s" % (i, cls, meth, y, want))
            ls += l
            ts.append(t)
        return ls, ts

    def call(self, e, env, discard):
        f = e.func
        if isinstance(f, ast.Name):
            if f.id in KIND:                                                        # E3 constructor
                ls, ts = self.args_for(e, f.id, "__init__", env)
                self.calls.append((f.id, "__init__"))
                x = self.tmp()
                return ls + ["let '(h, %s) := %s h %s in" % (x, gname(f.id, "__init__"), " ".join(ts))], "(Some %s)" % x, KIND[f.id]
            if f.id == "len" and len(e.args) == 1 and not e.keywords and self.is_cache(e.args[0]):
                return [], "(length (dict h))", "nat"
            bad(e, "call of %r" % f.id)
        if not isinstance(f, ast.Attribute):
            bad(e, "call")
        # self.cache.pop(k)
        if self.is_cache(f.value):
            if f.attr == "pop" and len(e.args) == 1 and not e.keywords and discard:
                l, t, y = self.expr(e.args[0], env)
                if y != "key":
                    bad(e, "pop of a %s" % y)
                x = self.tmp()
                return l + ["do %s <- dict_pop (dict h) %s;" % (x, t), "let h := set_dict h %s in" % x], None, "void"
            bad(e, "operation %r on self.cache" % f.attr)
        # method call
        if isinstance(f.value, ast.Name) and f.value.id == self.selfname and self.cls == "LFUCache":
            cls, recv_l, recv = "LFUCache", [], None
        else:
            recv_l, rt, ry = self.expr(f.value, env)
            if ry not in ("C", "F"):
                bad(e, "method call on a %s" % ry)
            cls = CLASS_OF[ry]
            x = self.tmp()
            recv_l = recv_l + ["do %s <- %s;" % (x, rt)]
            recv = x
        if (cls, f.attr) not in SIGS or f.attr == "__init__":
            bad(e, "call of unknown method %s.%s" % (cls, f.attr))
        ls, ts = self.args_for(e, cls, f.attr, env)
        self.calls.append((cls, f.attr))
        callee_ret = self.tr.ret_of(cls, f.attr, e)
        app = "%s h %s" % (gname(cls, f.attr), " ".join(([recv] if recv else []) + ts))
        app = app.rstrip()
        if callee_ret is None:
            return recv_l + ls + ["do h <- %s;" % app], None, "void"
        if discard:                                                                 # E7
            return recv_l + ls + ["do h <- option_map fst (%s);" % app], None, "void"
        r, x = self.tmp(), self.tmp()
        return recv_l + ls + ["do %s <- %s;" % (r, app), "let '(h, %s) := %s in" % (x, r)], x, callee_ret

    # ---- statements ---------------------------------------------------------------------------------------
    def assigned(self, stmts):
        out = []
        for s in self.splice(stmts):
            if isinstance(s, ast.Assign):
                for t in s.targets:
                    if isinstance(t, ast.Name) and t.id not in out:
                        out.append(t.id)
            elif isinstance(s, ast.If):
                for n in self.assigned(s.body) + self.assigned(s.orelse):
                    if n not in out:
                        out.append(n)
            elif isinstance(s, ast.With):
                for n in self.assigned(s.body):
                    if n not in out:
                        out.append(n)
        return out

    def has_return(self, stmts):
        return any(isinstance(n, ast.Return) for s in stmts for n in ast.walk(s))

    def comment(self, s):
        try:
            txt = ast.unparse(s).splitlines()[0]
        except Exception:
            txt = type(s).__name__
        return "(* %d: %s *)" % (s.lineno, clean(txt)[:110])

    def block(self, stmts, env, tail, outs, ind):
        """Gallina lines for a statement list.  tail=True: the block ends the function (falls off = `Some h` for
        a void method); tail=False: inside a non-tail `if`, ends with Some (h, outs...).  env is updated."""
        stmts = self.splice(stmts)
        L = []
        pad = "  " * ind
        returned = False
        for idx, s in enumerate(stmts):
            last = idx == len(stmts) - 1
            if returned:
                bad(s, "statement after return")
            L.append(pad + self.comment(s))
            if isinstance(s, ast.Expr):
                if isinstance(s.value, ast.Constant) and isinstance(s.value.value, str):
                    L.pop()                                                          # docstring (S1/S5)
                    continue
                if not isinstance(s.value, ast.Call):
                    bad(s, "expression statement")
                ls, _t, _y = self.call(s.value, env, discard=True)
                L += [pad + q for q in ls]
            elif isinstance(s, ast.Assign):
                L += [pad + q for q in self.assign(s, env)]
            elif isinstance(s, ast.Return):
                if not tail:
                    bad(s, "return inside a non-final if")
                if s.value is None:
                    bad(s, "bare return")
                ls, t, y = self.expr(s.value, env)
                self.ret_types.append((y, s))
                L += [pad + q for q in ls]
                if self.ret_ty == "oval":
                    t = "None" if y == "nf" else "(Some %s)" % t
                L.append(pad + "Some (h, %s)" % t)
                returned = True
            elif isinstance(s, ast.If):
                ls, t = self.cond(s.test, env)
                L += [pad + q for q in ls]
                if last and tail:
                    e1, e2 = dict(env), dict(env)
                    b1 = self.block(s.body, e1, True, None, ind + 1)
                    b2 = self.block(s.orelse, e2, True, None, ind + 1) if s.orelse else [pad + "  " + self.fall()]
                    L += [pad + "if %s then (" % t] + b1 + [pad + ") else ("] + b2 + [pad + ")"]
                    returned = True
                else:
                    if self.has_return([s]):
                        bad(s, "return inside an if that is not the last statement")
                    vs = self.assigned([s])
                    e1, e2 = dict(env), dict(env)
                    b1 = self.block(s.body, e1, False, vs, ind + 1)
                    b2 = self.block(s.orelse, e2, False, vs, ind + 1)
                    for v in vs:
                        if v not in e1 or v not in e2:
                            bad(s, "local %r is not assigned on every path through this if" % v)
                        env[v] = join(e1[v], e2[v], s)
                    pat = ", ".join(["h"] + [self.var(v) for v in vs])
                    if vs:
                        r = self.tmp()
                        L += [pad + "do %s <- (if %s then (" % (r, t)] + b1 + [pad + ") else ("] + b2 + [pad + "));", pad + "let '(%s) := %s in" % (pat, r)]
                    else:
                        L += [pad + "do h <- (if %s then (" % t] + b1 + [pad + ") else ("] + b2 + [pad + "));"]
            else:
                bad(s, "statement")
        if not returned:
            if tail:
                L.append(pad + self.fall())
            else:
                for v in outs:
                    if v not in env:
                        bad(stmts[0] if stmts else self.fn, "local %r is not assigned on every path through this if" % v)
                L.append(pad + "Some (%s)" % ", ".join(["h"] + [self.var(v) for v in outs]))
        return L

    def fall(self):
        if self.ret_ty is not None:
            bad(self.fn, "%s.%s returns a value on some paths and falls off the end on others" % (self.cls, self.name))
        return "Some h"

    def assign(self, s, env):
        if getattr(s, "type_comment", None):
            bad(s, "type comment")
        ls, t, y = self.expr(s.value, env)
        if y in ("void", "nf", "tupFF"):
            bad(s, "assignment of a %s" % y)
        out = list(ls)
        for tg in s.targets:                                                        # E4: left to right
            if isinstance(tg, ast.Name):
                if tg.id == self.selfname or tg.id == self.rtname or tg.id in dict(self.params) or tg.id in RESERVED:
                    bad(tg, "assignment to a parameter / to a reserved name")
                out.append("let %s := %s in" % (self.var(tg.id), t))
                env[tg.id] = y
            elif isinstance(tg, ast.Attribute):
                if isinstance(tg.value, ast.Name) and tg.value.id == self.selfname and self.cls == "LFUCache":
                    if tg.attr != "freq_link_head":
                        bad(tg, "write to LFUCache.%s" % tg.attr)
                    if not refty(y) or y == "C":
                        bad(tg, "freq_link_head := %s" % y)
                    out.append("let h := set_hhead h %s in" % t)
                    continue
                l2, t2, y2 = self.expr(tg.value, env)
                if y2 not in ("C", "F"):
                    bad(tg, "attribute write on a %s" % y2)
                fld = FIELDS[CLASS_OF[y2]].get(tg.attr)
                if fld is None or fld[2] is None:
                    bad(tg, "write to field %r of %s" % (tg.attr, CLASS_OF[y2]))
                if not (fld[0] == y or (y == "none" and fld[0] in ("C", "F"))):
                    bad(tg, "field %s.%s (%s) := %s" % (CLASS_OF[y2], tg.attr, fld[0], y))
                out += l2 + ["do h <- %s h %s (%s %s);" % (PUT[y2], t2, fld[2], t)]
            elif isinstance(tg, ast.Subscript) and self.is_cache_store(tg):           # self.cache[k] = node
                l2, t2, y2 = self.expr(tg.slice, env)
                if y2 != "key" or y != "C":
                    bad(tg, "self.cache[%s] = %s" % (y2, y))
                x = self.tmp()
                out += l2 + ["do %s <- %s;" % (x, t), "let h := set_dict h (dict_set (dict h) %s %s) in" % (t2, x)]
            else:
                bad(tg, "assignment target")
        return out

    def is_cache_store(self, tg):
        v = tg.value
        return (self.cls == "LFUCache" and isinstance(tg.ctx, ast.Store) and isinstance(v, ast.Attribute) and v.attr == "cache"
                and isinstance(v.value, ast.Name) and v.value.id == self.selfname)

    # ---- whole method -------------------------------------------------------------------------------------
    def body_stmts(self):
        body = list(self.fn.body)
        if (self.cls, self.name) in LOCKED:                                          # S2
            real = [s for s in body if not (isinstance(s, ast.Expr) and isinstance(s.value, ast.Constant) and isinstance(s.value.value, str))]
            if len(real) != 1 or not isinstance(real[0], ast.With):
                bad(self.fn, "the body of %s.%s is not exactly one `with self.lock:` block" % (self.cls, self.name))
            w = real[0]
            it = w.items
            ok = (len(it) == 1 and it[0].optional_vars is None and isinstance(it[0].context_expr, ast.Attribute)
                  and it[0].context_expr.attr == "lock" and isinstance(it[0].context_expr.value, ast.Name)
                  and it[0].context_expr.value.id == self.selfname)
            if not ok:
                bad(w, "`with` on something else than self.lock")
            body = list(w.body)
        for s in body:
            for n in ast.walk(s):
                if isinstance(n, (ast.With, ast.AsyncWith, ast.Try, ast.While, ast.For, ast.Lambda, ast.Yield, ast.YieldFrom, ast.Await,
                                  ast.Global, ast.Nonlocal, ast.Delete, ast.AugAssign, ast.AnnAssign, ast.FunctionDef, ast.ClassDef,
                                  ast.NamedExpr, ast.IfExp, ast.ListComp, ast.DictComp, ast.SetComp, ast.GeneratorExp, ast.Starred,
                                  ast.Import, ast.ImportFrom, ast.Assert, ast.Pass, ast.Break, ast.Continue)):
                    bad(n, "unsupported construct in %s.%s" % (self.cls, self.name))
        return body

    def emit(self):
        body = self.body_stmts()
        # pass 1: collect return types
        self.ret_ty = None
        self.ret_types = []
        probe = self.has_return(body)
        if probe:
            self.ret_ty = "probe"
            self.ntmp = 0
            self.calls = []
            self.block(body, dict(self.params_env()), True, None, 1)
            ty = None
            for y, n in self.ret_types:
                ty = y if ty is None else join(ty, y, n)
            if ty == "nf":
                ty = "oval"
            if ty == "val" and any(y == "nf" for y, _ in self.ret_types):
                ty = "oval"
            self.ret_ty = ty
        self.tr.rets[(self.cls, self.name)] = self.ret_ty
        self.ntmp = 0
        self.calls = []
        self.ret_types = []
        lines = self.block(body, dict(self.params_env()), True, None, 1)
        ps = "".join(" (%s : %s)" % (self.var(n), COQTY[t]) for n, t in self.params if t != "rt")
        selfp = "" if self.cls == "LFUCache" else " (self : id)"
        rt = "option (heap val)" if self.ret_ty is None else "option (heap val * %s)" % COQTY[self.ret_ty]
        head = "Definition %s {val : Type} (h : heap val)%s%s : %s :=" % (gname(self.cls, self.name), selfp, ps, rt)
        return "(* %s.%s, %s:%d *)\n%s\n%s.\n" % (self.cls, self.name, SRC, self.fn.lineno, head, "\n".join(lines))

    def params_env(self):
        return [(n, t) for n, t in self.params if t != "rt"]


# ---- constructors (E3) -----------------------------------------------------------------------------------
def init_fields(m, allow_guard):
    """the `self.f = <param|None|dict_()|Lock()>` statements of an __init__ -> {field: term}; guards -> [cond terms]"""
    fields, guards = {}, []
    env = dict(m.params_env())
    for s in m.splice(m.body_stmts()):
        if isinstance(s, ast.Expr) and isinstance(s.value, ast.Constant) and isinstance(s.value.value, str):
            continue
        if isinstance(s, ast.If) and allow_guard:
            if s.orelse or len(s.body) != 1 or not isinstance(s.body[0], ast.Raise):
                bad(s, "if in %s.__init__ that is not `if <cond>: raise ...`" % m.cls)
            ls, t = m.cond(s.test, env)
            if ls:
                bad(s, "guard that reads the heap")
            guards.append(t)
            continue
        if not (isinstance(s, ast.Assign) and len(s.targets) == 1 and isinstance(s.targets[0], ast.Attribute)
                and isinstance(s.targets[0].value, ast.Name) and s.targets[0].value.id == m.selfname):
            bad(s, "statement in %s.__init__ that is not `self.<field> = ...`" % m.cls)
        f = s.targets[0].attr
        if f in fields:
            bad(s, "field %r assigned twice in %s.__init__" % (f, m.cls))
        v = s.value
        if isinstance(v, ast.Call) and isinstance(v.func, ast.Name) and v.func.id in ("dict_", "Lock") and not v.args and not v.keywords and allow_guard:
            fields[f] = ("call", v.func.id)
            continue
        if isinstance(v, ast.Constant) and v.value is None:
            fields[f] = ("none", "None")
        elif isinstance(v, ast.Name) and v.id in env:
            fields[f] = (env[v.id], m.var(v.id))
        else:
            bad(s, "right-hand side in %s.__init__ that is neither a parameter nor None" % m.cls)
    return fields, guards


def emit_node_init(m):
    cls = m.cls
    fields, _ = init_fields(m, False)
    if sorted(fields) != sorted(RECORD_ORDER[cls]):
        bad(m.fn, "%s.__init__ assigns fields %s, expected %s" % (cls, sorted(fields), sorted(RECORD_ORDER[cls])))
    for f in RECORD_ORDER[cls]:
        want = FIELDS[cls][f][0]
        got = fields[f][0]
        if not (got == want or (got == "none" and want in ("C", "F"))):
            bad(m.fn, "%s.__init__: field %s gets a %s" % (cls, f, got))
    rec = "(%s %s)" % ("mkC" if cls == "CacheNode" else "mkF", " ".join(fields[f][1] for f in RECORD_ORDER[cls]))
    ps = "".join(" (%s : %s)" % (m.var(n), COQTY[t]) for n, t in m.params if t != "rt")
    if cls == "CacheNode":
        body = ("  (mkH (mset (cns h) (nextc h) %s) (fns h) (dict h) (hhead h) (hcap h) (S (nextc h)) (nextf h), nextc h)" % rec)
    else:
        body = ("  (mkH (cns h) (mset (fns h) (nextf h) %s) (dict h) (hhead h) (hcap h) (nextc h) (S (nextf h)), nextf h)" % rec)
    m.tr.rets[(cls, "__init__")] = KIND[cls]
    return "(* %s.__init__, %s:%d (rule E3) *)\nDefinition %s {val : Type} (h : heap val)%s : heap val * id :=\n%s.\n" % (
        cls, SRC, m.fn.lineno, gname(cls, "__init__"), ps, body)


def emit_cache_init(m):
    fields, guards = init_fields(m, True)
    if sorted(fields) != ["cache", "capacity", "freq_link_head", "lock"]:
        bad(m.fn, "LFUCache.__init__ assigns %s" % sorted(fields))
    if fields["cache"] != ("call", "dict_") or fields["lock"] != ("call", "Lock") or fields["capacity"][0] != "nat" or fields["freq_link_head"][0] != "none":
        bad(m.fn, "LFUCache.__init__: unexpected field initialisers")
    g = "".join("if %s then None else " % t for t in guards)
    ps = "".join(" (%s : %s)" % (m.var(n), COQTY[t]) for n, t in m.params)
    m.tr.rets[("LFUCache", "__init__")] = None
    return "(* LFUCache.__init__, %s:%d (rules E2, E3, S3) *)\nDefinition g_LFUCache_init (val : Type)%s : option (heap val) :=\n  %sSome (mkH [] [] [] %s %s 0 0).\n" % (
        SRC, m.fn.lineno, ps, g, fields["freq_link_head"][1], fields["capacity"][1])


# ---- the module ------------------------------------------------------------------------------------------
class Translator:
    def __init__(self, tree):
        self.tree = tree
        self.rets = {}
        self.param_names = {}
        self.methods = {}
        self.emitted = {}
        self.stack = []
        self.outside_seen = set()

    def ret_of(self, cls, meth, node):
        self.need(cls, meth, node)
        return self.rets[(cls, meth)]

    def need(self, cls, meth, node):
        key = (cls, meth)
        if key in self.emitted:
            return
        if key in self.stack:
            bad(node, "recursive call %s.%s" % key)
        if key not in self.methods:
            bad(node, "method %s.%s not found" % key)
        self.stack.append(key)
        m = self.methods[key]
        if meth == "__init__":
            txt = emit_cache_init(m) if cls == "LFUCache" else emit_node_init(m)
        else:
            txt = m.emit()
        self.stack.pop()
        self.emitted[key] = txt
        self.order.append(key)

    def run(self):
        body = list(self.tree.body)
        if body and isinstance(body[0], ast.Expr) and isinstance(body[0].value, ast.Constant) and isinstance(body[0].value.value, str):
            body = body[1:]                                                          # S1
        imps = [s for s in body if isinstance(s, ast.ImportFrom)]
        got = [(s.module, [a.name for a in s.names]) for s in imps]
        if got != IMPORTS or any(a.asname for s in imps for a in s.names) or any(s.level for s in imps):
            bad(imps[0] if imps else self.tree, "the import statements are not the expected ones: %r" % (got,))
        rest = [s for s in body if not isinstance(s, ast.ImportFrom)]
        classes = {}
        for s in rest:
            if not isinstance(s, ast.ClassDef):
                bad(s, "module-level statement that is neither an import nor a class")
            if s.name in classes:
                bad(s, "class %s defined twice" % s.name)
            classes[s.name] = s
        if sorted(classes) != ["CacheNode", "DummyLFU", "FreqNode", "LFUCache"]:
            bad(self.tree, "module classes are %s" % sorted(classes))
        for cn in ("CacheNode", "FreqNode", "LFUCache"):
            c = classes[cn]
            if c.bases or c.keywords or c.decorator_list or getattr(c, "type_params", None):
                bad(c, "class %s has bases / keywords / decorators" % cn)
            for s in c.body:
                if isinstance(s, ast.Expr) and isinstance(s.value, ast.Constant) and isinstance(s.value.value, str):
                    continue
                if not isinstance(s, ast.FunctionDef):
                    bad(s, "class-level statement in %s that is not a method" % cn)
                key = (cn, s.name)
                if key in self.methods or key in self.outside_seen:
                    bad(s, "method %s.%s defined twice" % key)
                if key in OUTSIDE:                                                   # S4
                    self.check_readonly(s, key)
                    self.outside_seen.add(key)
                    continue
                if key not in SIGS:
                    bad(s, "extra method %s.%s (it may touch the modelled state)" % key)
                self.methods[key] = Method(self, cn, s)
                self.param_names[key] = [a.arg for a in s.args.args][1:]
            for n in ast.walk(c):
                if isinstance(n, ast.Name) and n.id == "DummyLFU":
                    bad(n, "DummyLFU referenced from %s" % cn)
        for n in ast.walk(classes["DummyLFU"]):                                      # S1: DummyLFU is skipped, so it must not touch the fragment
            if isinstance(n, ast.Name) and n.id in ("CacheNode", "FreqNode", "LFUCache", "globals", "setattr", "exec", "eval", "vars", "__import__"):
                bad(n, "class DummyLFU refers to %s" % n.id)
        missing = [k for k in SIGS if k not in self.methods]
        if missing:
            bad(self.tree, "missing methods %s" % missing)
        # (the two observers of S4 may disappear: nothing translated depends on them)
        self.order = []
        for cn in ("CacheNode", "FreqNode", "LFUCache"):
            for s in classes[cn].body:
                if isinstance(s, ast.FunctionDef) and (cn, s.name) in SIGS:
                    self.need(cn, s.name, s)
        return [self.emitted[k] for k in self.order]

    def check_readonly(self, fn, key):
        for n in ast.walk(fn):
            if isinstance(n, (ast.Attribute, ast.Subscript)) and isinstance(n.ctx, (ast.Store, ast.Del)):
                bad(n, "%s.%s stores to an attribute / subscript" % key)
            if isinstance(n, (ast.Delete, ast.Global, ast.Nonlocal)):
                bad(n, "%s.%s: del / global" % key)
            if isinstance(n, ast.Call):
                f = n.func
                nm = f.attr if isinstance(f, ast.Attribute) else (f.id if isinstance(f, ast.Name) else None)
                if nm in MUTATORS or nm in ("exec", "eval", "setattr", "delattr", "vars", "globals", "locals", "__import__"):
                    bad(n, "%s.%s calls %r" % (key + (nm,)))


def check_helper(repo):
    """S1: the imported names dict_ and not_found are what the encoding assumes (dict_ = dict; not_found a sentinel)"""
    p = os.path.join(repo, HELPER)
    tree = ast.parse(open(p).read())
    seen = {"dict_": 0, "not_found": 0}
    for n in ast.walk(tree):
        tgts = []
        if isinstance(n, ast.Assign):
            tgts = n.targets
        elif isinstance(n, (ast.AnnAssign, ast.AugAssign)):
            tgts = [n.target]
        for t in tgts:
            for q in ast.walk(t):
                if isinstance(q, ast.Name) and q.id in seen:
                    seen[q.id] += 1
                    v = getattr(n, "value", None)
                    if q.id == "dict_" and not (isinstance(n, ast.Assign) and len(n.targets) == 1 and isinstance(t, ast.Name)
                                                and isinstance(v, ast.Name) and v.id == "dict" and n in tree.body):
                        raise Unsupported("%s:%d: dict_ is not `dict_ = dict`" % (HELPER, n.lineno))
                    if q.id == "not_found" and not (isinstance(n, ast.Assign) and len(n.targets) == 1 and isinstance(t, ast.Name)
                                                    and isinstance(v, ast.Call) and isinstance(v.func, ast.Name) and v.func.id == "_NotFound"
                                                    and not v.args and not v.keywords and n in tree.body):
                        raise Unsupported("%s:%d: not_found is not `not_found = _NotFound()`" % (HELPER, n.lineno))
        if isinstance(n, (ast.FunctionDef, ast.ClassDef)) and n.name in seen:
            raise Unsupported("%s:%d: %s redefined" % (HELPER, n.lineno, n.name))
    if seen != {"dict_": 1, "not_found": 1}:
        raise Unsupported("%s: dict_ / not_found assigned %r times" % (HELPER, seen))


HEADER = """(* GENERATED by /verif/harness/translate/lfucache.py from %s (classes CacheNode, FreqNode, LFUCache)
   and %s (dict_, not_found).  DO NOT EDIT: regenerated from the current source on every run of ./check C18.
   Definitions only.  Types and primitives are those of DD.Lfu.LfuHeapModel; none of its methods is used. *)
From Coq Require Import List ZArith Bool Arith.
Import ListNotations.
From DD Require Import Lfu.LfuModel.
From DD Require Import Lfu.LfuHeapModel.

"""


def translate(repo):
    p = os.path.join(repo, SRC)
    src = open(p).read()
    try:
        tree = ast.parse(src)
    except SyntaxError as e:
        raise Unsupported("%s: does not parse: %s" % (SRC, e))
    check_helper(repo)
    defs = Translator(tree).run()
    text = HEADER % (SRC, HELPER) + "\n".join(defs)
    # self-check: the generated definitions use the hand model's types and primitives only, none of its methods
    import re
    body = re.sub(r"\(\*.*?\*\)", "", text, flags=re.S)
    m = re.search(r"(?<![\w.])(free_myself|count_caches|fremove|pop_head_cache|append_cache_to_tail|insert_after_me|insert_before_me|"
                  r"move_forward|dump_cache|create_cache_node|hget|hset|hstep|hrun|new_cnode|new_fnode|hempty)\b", body)
    if m:
        raise Unsupported("internal: generated text refers to the hand model's %s" % m.group(1))
    return text


if __name__ == "__main__":
    import sys
    sys.stdout.write(translate(sys.argv[1] if len(sys.argv) > 1 else "/repo"))

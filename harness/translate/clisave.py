"""Source tie of C20 (block Cli): a fail-closed, syntax-directed translator from the Python text of

    deepdiff/serialization.py   save_content_to_path, _save_content, load_path_content
    deepdiff/commands.py        patch

to Gallina programs over the statement combinators of coq/theories/Cli/PyMonad.v (one Python statement ->
one combinator application, same order, same case analysis).  `translate(repo_root)` returns the complete
text of DDGen/CliGen.v; anything outside the white-listed node shapes raises `Unsupported` naming file,
line and node.  The source is only read and `ast.parse`d - never imported, never evaluated.

What each statement form becomes (T = translation, W = the world parameter threaded through every function):

    x = <pure expr> ; REST                  let x := T(expr) in T(REST)
    x = <effectful call> ; REST             m_bind (T(call)) (fun x => T(REST))
    <effectful call> ; REST                 m_seq (T(call)) (T(REST))
    pass                                    m_ret tt
    if c: A [elif/else: B] ; REST           m_seq (if T(c) then T(A) else T(B)) (T(REST))        (no variable joins)
                                            m_bind (if T(c) then T(A; ret v) else ..) (fun v => T(REST))   (v assigned in every branch, used in REST)
    if v is None: v = e ; REST              m_bind (match v with Some x => m_ret x | None => T(e) end) (fun v => T(REST))
    try: A except C [as e]: H else: B       m_try (T(A)) Catch_C (fun e => T(H)) (fun _ => T(B))
    try: x = call except C as e: H ; REST   m_try (T(call)) Catch_C (fun e => T(H)) (fun x => T(REST))     (H always raises / exits)
    with open(p, 'w'|'wb') as f: A          m_with_open W p MW (fun f => T(A))       ('a'|'ab': MA;  'r'|'rb': m_open_read W p (fun f => ..))
    raise                                   m_reraise e          (e = the innermost handler's exception)
    raise SomeError(...)                    m_raise_error (saving) / m_raise_load_error (loading)
    return e                                m_ret T(e)           (last statement only)
    f(...) for a translated f               g_f W args (matched to f's parameters by position / keyword)

SKIP RULES (trusted; listed in coq/theories/Cli/NOTES.md):
    S1  docstrings (a leading string-constant expression statement)
    S2  comments, `# type: ignore`, `# pragma: no cover` (not in the ast)
    S3  logger.<level>(...) expression statements
    S4  `return content` of _save_content becomes `m_ret tt` (its only caller discards the value; checked)
    S5  Delta(delta_path=<p>, raise_errors=<flag>) becomes m_load_delta W p (the flag only selects how Delta reports
        errors of delta application, which is the oracle w_apply)
    S6  the message argument of sys.exit(...) / of a raised exception is dropped (sys.exit(<str>) = exit status 1)
ABSTRACTION RULES (trusted): a block whose ast equals a reviewed fingerprint is one combinator
    A1  try: import M / except ImportError: raise ImportError(<msg>) from None        -> m_import_or_raise[_load] W M
    A2  try: if sys.version_info >= (3, 11): import tomllib as tomli / else: import tomli / except ImportError: raise ..  -> m_import_or_raise_load W MTomli
    A3  csv writer selection (try: import clevercsv; dict_writer = clevercsv.DictWriter / except ImportError: import csv; ..)  -> nothing (cannot fail)
    A4  the four statements of the csv writer inside `with open(...) as csvfile`      -> m_stream_dump W FCsv csvfile content
    A5  the csv branch of load_path_content (reader selection, logger call, cell conversion loops)  -> m_open_read W path (fun f => m_parse_file W FCsv f)
    A6  serialiser / parser calls by name: json_dumps -> FJson, yaml.safe_dump / yaml.safe_load -> FYaml, tomli_w.dump / tomli.load -> FToml,
        pickle_dump / pickle_load -> FPickle, json_loads -> FJson
"""
import ast
import os
import re


class Unsupported(Exception):
    pass


SER = "deepdiff/serialization.py"
CMD = "deepdiff/commands.py"

COQ_RESERVED = set("""
as at cofix else end exists exists2 fix for forall fun if IF in let match mod Prop return Set then Type using where with
Definition Fixpoint Lemma Theorem Proof Qed W MW MA tt true false Some None negb orb andb s2p pystr pystr_eqb bak nat bool unit list option
FJson FYaml FToml FPickle FCsv MYaml MTomliW MTomli CatchException CatchBaseException world M res Ok Raise fst snd X doc delta path_
""".split())


def ident(name):
    if not re.match(r"^[A-Za-z_][A-Za-z0-9_]*$", name):
        raise Unsupported("identifier %r cannot be used in Gallina" % name)
    if name in COQ_RESERVED or re.match(r"^(m_|g_|w_|py_|click_|run_)", name):
        return name + "_"
    return name


def coq_str(s, where):
    if not all(32 <= ord(c) < 127 and c != '"' for c in s):
        raise Unsupported("%s: string literal %r outside printable ASCII" % (where, s))
    return '(s2p "%s")' % s


# ---- expected signatures: (parameter, default as ast.dump or None), in order ----
SIGS = {
    "save_content_to_path": [("content", None), ("path", None), ("file_type", "Constant(value=None)"), ("keep_backup", "Constant(value=True)")],
    "_save_content": [("content", None), ("path", None), ("file_type", None), ("keep_backup", "Constant(value=True)")],
    "load_path_content": [("path", None), ("file_type", "Constant(value=None)")],
    "patch": [("path", None), ("delta_path", None), ("backup", None), ("raise_errors", None), ("debug", None)],
}
# kinds: doc path pystr opt_pystr bool content file delta unit exn
PARAM_KINDS = {
    "save_content_to_path": {"content": "doc", "path": "path", "file_type": "pystr", "keep_backup": "bool"},
    "_save_content": {"content": "doc", "path": "path", "file_type": "pystr", "keep_backup": "bool"},
    "load_path_content": {"path": "path", "file_type": "opt_pystr"},
    "patch": {"path": "path", "delta_path": "path", "backup": "bool", "raise_errors": "bool", "debug": "bool"},
}
COQ_TYPE = {"doc": "doc", "path": "FsModel.path", "pystr": "pystr", "opt_pystr": "option pystr", "bool": "bool"}
RESULT = {"save_content_to_path": "unit", "_save_content": "unit", "load_path_content": "doc", "patch": "unit"}
# the decorators of `patch`, exactly
PATCH_DECORATORS = [
    "Call(func=Attribute(value=Name(id='cli', ctx=Load()), attr='command', ctx=Load()), args=[], keywords=[])",
    "Call(func=Attribute(value=Name(id='click', ctx=Load()), attr='argument', ctx=Load()), args=[Constant(value='path')], keywords=[keyword(arg='type', value=Call(func=Attribute(value=Name(id='click', ctx=Load()), attr='Path', ctx=Load()), args=[], keywords=[keyword(arg='exists', value=Constant(value=True)), keyword(arg='resolve_path', value=Constant(value=True))]))])",
    "Call(func=Attribute(value=Name(id='click', ctx=Load()), attr='argument', ctx=Load()), args=[Constant(value='delta_path')], keywords=[keyword(arg='type', value=Call(func=Attribute(value=Name(id='click', ctx=Load()), attr='Path', ctx=Load()), args=[], keywords=[keyword(arg='exists', value=Constant(value=True)), keyword(arg='resolve_path', value=Constant(value=True))]))])",
    "Call(func=Attribute(value=Name(id='click', ctx=Load()), attr='option', ctx=Load()), args=[Constant(value='--backup'), Constant(value='-b')], keywords=[keyword(arg='is_flag', value=Constant(value=True)), keyword(arg='show_default', value=Constant(value=True))])",
    "Call(func=Attribute(value=Name(id='click', ctx=Load()), attr='option', ctx=Load()), args=[Constant(value='--raise-errors')], keywords=[keyword(arg='is_flag', value=Constant(value=True)), keyword(arg='show_default', value=Constant(value=True))])",
    "Call(func=Attribute(value=Name(id='click', ctx=Load()), attr='option', ctx=Load()), args=[Constant(value='--debug')], keywords=[keyword(arg='is_flag', value=Constant(value=True)), keyword(arg='show_default', value=Constant(value=False))])",
]

# ---- fingerprints of the abstracted blocks (ast.dump of the statements, without positions) ----
FP_CSV_WRITER_SELECT = (
    "Try(body=[Import(names=[alias(name='clevercsv')]), Assign(targets=[Name(id='dict_writer', ctx=Store())], value=Attribute(value=Name(id='clevercsv', ctx=Load()), attr='DictWriter', ctx=Load()))], "
    "handlers=[ExceptHandler(type=Name(id='ImportError', ctx=Load()), body=[Import(names=[alias(name='csv')]), Assign(targets=[Name(id='dict_writer', ctx=Store())], value=Attribute(value=Name(id='csv', ctx=Load()), attr='DictWriter', ctx=Load()))])], orelse=[], finalbody=[])")
FP_CSV_WRITER_BODY = (
    "[Assign(targets=[Name(id='fieldnames', ctx=Store())], value=Call(func=Name(id='list', ctx=Load()), args=[Call(func=Attribute(value=Subscript(value=Name(id='content', ctx=Load()), slice=Constant(value=0), ctx=Load()), attr='keys', ctx=Load()), args=[], keywords=[])], keywords=[])), "
    "Assign(targets=[Name(id='writer', ctx=Store())], value=Call(func=Name(id='dict_writer', ctx=Load()), args=[Name(id='csvfile', ctx=Load())], keywords=[keyword(arg='fieldnames', value=Name(id='fieldnames', ctx=Load()))])), "
    "Expr(value=Call(func=Attribute(value=Name(id='writer', ctx=Load()), attr='writeheader', ctx=Load()), args=[], keywords=[])), "
    "Expr(value=Call(func=Attribute(value=Name(id='writer', ctx=Load()), attr='writerows', ctx=Load()), args=[Name(id='content', ctx=Load())], keywords=[]))]")
FP_CSV_LOAD_BRANCH = (
    "[Try(body=[Import(names=[alias(name='clevercsv')]), Assign(targets=[Name(id='content', ctx=Store())], value=Call(func=Attribute(value=Name(id='clevercsv', ctx=Load()), attr='read_dicts', ctx=Load()), args=[Name(id='path', ctx=Load())], keywords=[]))], "
    "handlers=[ExceptHandler(type=Name(id='ImportError', ctx=Load()), body=[Import(names=[alias(name='csv')]), With(items=[withitem(context_expr=Call(func=Name(id='open', ctx=Load()), args=[Name(id='path', ctx=Load()), Constant(value='r')], keywords=[]), optional_vars=Name(id='the_file', ctx=Store()))], "
    "body=[Assign(targets=[Name(id='content', ctx=Store())], value=Call(func=Name(id='list', ctx=Load()), args=[Call(func=Attribute(value=Name(id='csv', ctx=Load()), attr='DictReader', ctx=Load()), args=[Name(id='the_file', ctx=Load())], keywords=[])], keywords=[]))])])], orelse=[], finalbody=[]), "
    "Expr(value=Call(func=Attribute(value=Name(id='logger', ctx=Load()), attr='info', ctx=Load()), args=[JoinedStr(values=[Constant(value='NOTE: CSV content was empty in '), FormattedValue(value=Name(id='path', ctx=Load()), conversion=-1)])], keywords=[])), "
    "For(target=Name(id='row', ctx=Store()), iter=Name(id='content', ctx=Load()), body=[For(target=Tuple(elts=[Name(id='key', ctx=Store()), Name(id='value', ctx=Store())], ctx=Store()), iter=Call(func=Attribute(value=Name(id='row', ctx=Load()), attr='items', ctx=Load()), args=[], keywords=[]), "
    "body=[Assign(targets=[Name(id='value', ctx=Store())], value=Call(func=Attribute(value=Name(id='value', ctx=Load()), attr='strip', ctx=Load()), args=[], keywords=[])), "
    "For(target=Name(id='type_', ctx=Store()), iter=List(elts=[Name(id='int', ctx=Load()), Name(id='float', ctx=Load()), Name(id='complex', ctx=Load())], ctx=Load()), "
    "body=[Try(body=[Assign(targets=[Name(id='value', ctx=Store())], value=Call(func=Name(id='type_', ctx=Load()), args=[Name(id='value', ctx=Load())], keywords=[]))], handlers=[ExceptHandler(type=Name(id='Exception', ctx=Load()), body=[Pass()])], "
    "orelse=[Assign(targets=[Subscript(value=Name(id='row', ctx=Load()), slice=Name(id='key', ctx=Load()), ctx=Store())], value=Name(id='value', ctx=Load())), Break()], finalbody=[])], orelse=[])], orelse=[])], orelse=[])]")
FP_TOMLI_IMPORT_BODY = (
    "[If(test=Compare(left=Attribute(value=Name(id='sys', ctx=Load()), attr='version_info', ctx=Load()), ops=[GtE()], comparators=[Tuple(elts=[Constant(value=3), Constant(value=11)], ctx=Load())]), "
    "body=[Import(names=[alias(name='tomllib', asname='tomli')])], orelse=[Import(names=[alias(name='tomli')])])]")

MODNAMES = {"yaml": "MYaml", "tomli_w": "MTomliW", "tomli": "MTomli"}


def dump(node):
    if isinstance(node, list):
        return "[" + ", ".join(ast.dump(n) for n in node) + "]"
    return ast.dump(node)


class Fn:
    """translation of one function"""

    def __init__(self, tr, fname, node):
        self.tr, self.fname, self.node, self.name = tr, fname, node, node.name
        self.saving = self.name in ("save_content_to_path", "_save_content")
        self.handlers = []          # Coq names of the exceptions of the enclosing handlers
        self.tmp = 0

    def bad(self, node, msg):
        raise Unsupported("%s:%d: in %s: %s [%s]" % (self.fname, getattr(node, "lineno", 0), self.name, msg, type(node).__name__))

    # ---------------- pure expressions ----------------
    def pure(self, e, env, want=None):
        """-> (coq text, kind)"""
        if isinstance(e, ast.Name):
            if e.id not in env:
                self.bad(e, "name %r is not a parameter or a local assigned before" % e.id)
            return ident(e.id), env[e.id]
        if isinstance(e, ast.Constant) and isinstance(e.value, str):
            return coq_str(e.value, "%s:%d" % (self.fname, e.lineno)), "pystr"
        if isinstance(e, ast.JoinedStr):            # f"{path}.bak"
            parts = []
            for v in e.values:
                if isinstance(v, ast.Constant) and isinstance(v.value, str):
                    parts.append(coq_str(v.value, "%s:%d" % (self.fname, e.lineno)))
                elif isinstance(v, ast.FormattedValue) and v.conversion == -1 and v.format_spec is None:
                    t, k = self.pure(v.value, env)
                    if k not in ("path", "pystr"):
                        self.bad(e, "f-string interpolates a %s" % k)
                    parts.append(t)
                else:
                    self.bad(e, "f-string part not supported")
            if not parts:
                self.bad(e, "empty f-string")
            return "(" + " ++ ".join(parts) + ")%list", "path"
        if isinstance(e, ast.UnaryOp) and isinstance(e.op, ast.Not):
            t, k = self.pure(e.operand, env)
            if k != "bool":
                self.bad(e, "`not` applied to a %s" % k)
            return "(negb %s)" % t, "bool"
        if isinstance(e, ast.Compare) and len(e.ops) == 1:
            l, k = self.pure(e.left, env)
            r = e.comparators[0]
            if k not in ("pystr", "path"):
                self.bad(e, "comparison of a %s" % k)
            if isinstance(e.ops[0], ast.Eq) and isinstance(r, ast.Constant) and isinstance(r.value, str):
                return "(pystr_eqb %s %s)" % (l, coq_str(r.value, "%s:%d" % (self.fname, e.lineno))), "bool"
            if isinstance(e.ops[0], ast.In) and isinstance(r, (ast.Set, ast.Tuple, ast.List)) and r.elts and \
                    all(isinstance(x, ast.Constant) and isinstance(x.value, str) for x in r.elts):
                return "(" + " || ".join("pystr_eqb %s %s" % (l, coq_str(x.value, "%s:%d" % (self.fname, e.lineno))) for x in r.elts) + ")", "bool"
        self.bad(e, "expression form not supported: %s" % dump(e)[:120])

    def is_pure(self, e):
        return isinstance(e, (ast.Name, ast.JoinedStr, ast.UnaryOp, ast.Compare)) or (isinstance(e, ast.Constant) and isinstance(e.value, str))

    # ---------------- effectful expressions ----------------
    def split_index(self, e, env):
        """<str>.split('<c>')[<int>]  -> py_split_index (an IndexError is an Exception)"""
        if isinstance(e, ast.Subscript) and isinstance(e.value, ast.Call) and isinstance(e.value.func, ast.Attribute) and \
                e.value.func.attr == "split" and len(e.value.args) == 1 and not e.value.keywords and \
                isinstance(e.value.args[0], ast.Constant) and isinstance(e.value.args[0].value, str) and len(e.value.args[0].value) == 1:
            idx = e.slice
            n = None
            if isinstance(idx, ast.Constant) and isinstance(idx.value, int) and not isinstance(idx.value, bool):
                n = idx.value
            elif isinstance(idx, ast.UnaryOp) and isinstance(idx.op, ast.USub) and isinstance(idx.operand, ast.Constant) and \
                    isinstance(idx.operand.value, int) and not isinstance(idx.operand.value, bool):
                n = -idx.operand.value
            if n is None:
                self.bad(e, "index of split(...) is not an integer literal")
            s, k = self.pure(e.value.func.value, env)
            if k not in ("path", "pystr"):
                self.bad(e, "split of a %s" % k)
            sep = ord(e.value.args[0].value)
            return "m_of_option (py_split_index %s %d%%N (%d)%%Z)" % (s, sep, n), "pystr"
        return None

    def call_args(self, call, callee):
        """match the arguments of a call of a translated function to its parameters"""
        params = [p for p, _d in SIGS[callee]]
        got = {}
        if len(call.args) > len(params):
            self.bad(call, "too many arguments for %s" % callee)
        for p, a in zip(params, call.args):
            if isinstance(a, ast.Starred):
                self.bad(call, "starred argument")
            got[p] = a
        for kw in call.keywords:
            if kw.arg is None or kw.arg not in params or kw.arg in got:
                self.bad(call, "unexpected keyword argument %r for %s" % (kw.arg, callee))
            got[kw.arg] = kw.value
        missing = [p for p in params if p not in got]
        if missing:
            # a default would be used: the generated definitions take every parameter explicitly
            self.bad(call, "call of %s relies on the default of %s" % (callee, ", ".join(missing)))
        return [(p, got[p]) for p in params]

    def effect(self, e, env):
        """-> (coq text of type M T, kind of T, prelude) for a white-listed effectful expression, or None"""
        si = self.split_index(e, env)
        if si:
            return si
        if isinstance(e, ast.BinOp) and isinstance(e.op, ast.Add):          # delta + content
            l, kl = self.pure(e.left, env)
            r, kr = self.pure(e.right, env)
            if (kl, kr) != ("delta", "doc"):
                self.bad(e, "`+` of a %s and a %s" % (kl, kr))
            return "m_delta_add W %s %s" % (l, r), "doc"
        if not isinstance(e, ast.Call):
            return None
        f = e.func
        fn = f.id if isinstance(f, ast.Name) else None
        at = (f.value.id, f.attr) if isinstance(f, ast.Attribute) and isinstance(f.value, ast.Name) else None

        def args_exact(npos, kws=()):
            if len(e.args) != npos or sorted(k.arg or "*" for k in e.keywords) != sorted(kws) or any(isinstance(a, ast.Starred) for a in e.args):
                self.bad(e, "call with an unexpected argument list: %s" % dump(e)[:160])
            return list(e.args), {k.arg: k.value for k in e.keywords}

        def p(a, kind):
            t, k = self.pure(a, env)
            if k != kind:
                self.bad(a, "argument is a %s where a %s is expected" % (k, kind))
            return t
        if at == ("os", "rename"):
            a, _ = args_exact(2)
            return "m_rename W %s %s" % (p(a[0], "path"), p(a[1], "path")), "unit"
        if at == ("os", "remove"):
            a, _ = args_exact(1)
            return "m_remove W %s" % p(a[0], "path"), "unit"
        if at == ("sys", "exit"):                                       # S6
            a, _ = args_exact(1)
            x = a[0]
            while isinstance(x, ast.Call) and isinstance(x.func, ast.Name) and x.func.id == "str" and len(x.args) == 1 and not x.keywords:
                x = x.args[0]
            if not (isinstance(x, ast.JoinedStr) or (isinstance(x, ast.Constant) and isinstance(x.value, str))):
                self.bad(e, "sys.exit argument is not a message string")
            return "m_sys_exit 1", "any"
        if fn == "json_dumps" and self.saving:
            a, _ = args_exact(1)
            return "m_json_dumps W %s" % p(a[0], "doc"), "content"
        if at is not None and at[1] == "write" and env.get(at[0]) == "wfile":
            a, _ = args_exact(1)
            return "m_write W %s %s" % (ident(at[0]), p(a[0], "content")), "unit"
        if at == ("yaml", "safe_dump") and self.saving:
            a, k = args_exact(1, ("stream",))
            return "m_stream_dump W FYaml %s %s" % (p(k["stream"], "wfile"), p(a[0], "doc")), "unit"
        if at == ("tomli_w", "dump") and self.saving:
            a, _ = args_exact(2)
            return "m_stream_dump W FToml %s %s" % (p(a[1], "wfile"), p(a[0], "doc")), "unit"
        if fn == "pickle_dump" and self.saving:
            a, k = args_exact(1, ("file_obj",))
            return "m_stream_dump W FPickle %s %s" % (p(k["file_obj"], "wfile"), p(a[0], "doc")), "unit"
        if at is not None and at[1] == "read" and env.get(at[0]) == "rfile":
            args_exact(0)
            return "m_read %s" % ident(at[0]), "content"
        if fn in ("json_loads", "pickle_load") and not self.saving:
            a, _ = args_exact(1)
            fm = {"json_loads": "FJson", "pickle_load": "FPickle"}[fn]
            inner = a[0]
            if self.is_pure(inner):
                return "m_parse W %s %s" % (fm, p(inner, "content")), "doc"
            ie = self.effect(inner, env)                                  # json_loads(the_file.read())
            if not ie or ie[1] != "content":
                self.bad(e, "argument of %s not supported" % fn)
            self.tmp += 1
            t = "t%d_" % self.tmp
            return "m_bind (%s) (fun %s => m_parse W %s %s)" % (ie[0], t, fm, t), "doc"
        if at in (("yaml", "safe_load"), ("tomli", "load")) and not self.saving:
            a, _ = args_exact(1)
            return "m_parse_file W %s %s" % ({"yaml": "FYaml", "tomli": "FToml"}[at[0]], p(a[0], "rfile")), "doc"
        if fn == "__csv_load__" and self.name == "load_path_content" and getattr(self, "csv_marks", 0) == 1:      # A5 (marker planted by load_body)
            a, _ = args_exact(1)
            return "m_open_read W %s (fun f_ => m_parse_file W FCsv f_)" % p(a[0], "path"), "doc"
        if fn == "Delta" and self.name == "patch":                           # S5
            _, k = args_exact(0, ("delta_path", "raise_errors"))
            p(k["raise_errors"], "bool")
            return "m_load_delta W %s" % p(k["delta_path"], "path"), "delta"
        if fn in SIGS and fn in self.tr.done:
            args = self.call_args(e, fn)
            out = []
            for (pn, a) in args:
                want = PARAM_KINDS[fn][pn]
                t, k = self.pure(a, env)
                if want == "opt_pystr" and k in ("pystr", "path"):
                    t, k = "(Some %s)" % t, "opt_pystr"
                if k != want and not (want == "pystr" and k == "path"):
                    self.bad(a, "argument %s of %s is a %s where a %s is expected" % (pn, fn, k, want))
                out.append(t)
            return "g_%s W %s" % (fn, " ".join(out)), RESULT[fn]
        return None

    # ---------------- statements ----------------
    def always_raises(self, stmts):
        if not stmts:
            return False
        s = stmts[-1]
        if isinstance(s, ast.Raise):
            return True
        if isinstance(s, ast.Expr) and isinstance(s.value, ast.Call) and isinstance(s.value.func, ast.Attribute) and \
                isinstance(s.value.func.value, ast.Name) and (s.value.func.value.id, s.value.func.attr) == ("sys", "exit"):
            return True
        if isinstance(s, ast.If) and s.orelse:
            return self.always_raises(s.body) and self.always_raises(s.orelse)
        return False

    def assigned(self, stmts):
        """names certainly assigned when the block completes normally"""
        out = set()
        for s in stmts:
            if isinstance(s, ast.Assign) and len(s.targets) == 1 and isinstance(s.targets[0], ast.Name):
                out.add(s.targets[0].id)
            elif isinstance(s, ast.With):
                out |= self.assigned(s.body)
            elif isinstance(s, ast.If):
                brs = [b for b in (s.body, s.orelse) if not self.always_raises(b)]
                if brs and (s.orelse or len(brs) == 2):
                    out |= set.intersection(*[self.assigned(b) for b in brs])
            elif isinstance(s, ast.Try):
                if all(self.always_raises(h.body) for h in s.handlers):
                    out |= self.assigned(s.body) | self.assigned(s.orelse)
        return out

    def used(self, stmts):
        out = set()
        for s in stmts:
            for n in ast.walk(s):
                if isinstance(n, ast.Name) and isinstance(n.ctx, ast.Load):
                    out.add(n.id)
        return out

    def ret_text(self, env, ret):
        if ret is None:
            return "m_ret tt"
        if ret not in env:
            raise Unsupported("%s: in %s: %r is not assigned on this path" % (self.fname, self.name, ret))
        return "m_ret %s" % ident(ret)

    def import_guard(self, s):
        """A1 / A2: -> coq text or None"""
        if not (isinstance(s, ast.Try) and len(s.handlers) == 1 and not s.orelse and not s.finalbody):
            return None
        h = s.handlers[0]
        if not (isinstance(h.type, ast.Name) and h.type.id == "ImportError" and len(h.body) == 1 and isinstance(h.body[0], ast.Raise)):
            return None
        r = h.body[0]
        ok_raise = (isinstance(r.exc, ast.Call) and isinstance(r.exc.func, ast.Name) and r.exc.func.id == "ImportError" and
                    len(r.exc.args) == 1 and isinstance(r.exc.args[0], ast.Constant) and isinstance(r.exc.args[0].value, str) and
                    not r.exc.keywords and isinstance(r.cause, ast.Constant) and r.cause.value is None)
        if not ok_raise:
            return None
        comb = "m_import_or_raise" if self.saving else "m_import_or_raise_load"
        if len(s.body) == 1 and isinstance(s.body[0], ast.Import) and len(s.body[0].names) == 1 and s.body[0].names[0].asname is None \
                and s.body[0].names[0].name in MODNAMES:
            return "%s W %s" % (comb, MODNAMES[s.body[0].names[0].name]), s.body[0].names[0].name
        if dump(s.body) == FP_TOMLI_IMPORT_BODY and not self.saving:
            return "%s W MTomli" % comb, "tomli"
        return None

    def open_item(self, s, env):
        """with open(p, mode[, newline='']) as f  ->  (coq head, file variable, kind of the file)"""
        if len(s.items) != 1:
            self.bad(s, "with statement with several items")
        it = s.items[0]
        c = it.context_expr
        if not (isinstance(c, ast.Call) and isinstance(c.func, ast.Name) and c.func.id == "open" and isinstance(it.optional_vars, ast.Name)):
            self.bad(s, "with item is not `open(...) as <name>`")
        if len(c.args) != 2 or not (isinstance(c.args[1], ast.Constant) and isinstance(c.args[1].value, str)):
            self.bad(s, "open() without a literal mode")
        kws = {k.arg: k.value for k in c.keywords}
        if set(kws) - {"newline"} or ("newline" in kws and not (isinstance(kws["newline"], ast.Constant) and kws["newline"].value == "")):
            self.bad(s, "open() keyword arguments not supported")
        pth, k = self.pure(c.args[0], env)
        if k != "path":
            self.bad(s, "open() of a %s" % k)
        mode = c.args[1].value
        if any(isinstance(n, ast.With) for b in s.body for n in ast.walk(b)):
            self.bad(s, "nested with statements")
        v = it.optional_vars.id
        if mode in ("w", "wb", "a", "ab"):
            if not self.saving:
                self.bad(s, "a file is opened for writing outside the save path")
            return "m_with_open W %s %s (fun %s =>" % (pth, "MW" if mode[0] == "w" else "MA", ident(v)), v, "wfile"
        if mode in ("r", "rb"):
            if self.saving:
                self.bad(s, "a file is opened for reading inside the save path")
            return "m_open_read W %s (fun %s =>" % (pth, ident(v)), v, "rfile"
        self.bad(s, "open() mode %r not supported" % mode)

    def block(self, stmts, env, ret, ind):
        """Coq text (type M T) of a statement list; `ret` = the variable whose value the block yields (None: unit)"""
        pad = "  " * ind
        if not stmts:
            return pad + self.ret_text(env, ret)
        s, rest = stmts[0], stmts[1:]
        env = dict(env)

        def seq(text, kind=None):
            if not rest and ret is None and kind in (None, "unit", "any"):
                return pad + text
            return pad + "m_seq (%s) (\n%s)" % (text, self.block(rest, env, ret, ind))

        # S1 docstring, S3 logging
        if isinstance(s, ast.Expr) and isinstance(s.value, ast.Constant) and isinstance(s.value.value, str):
            if s is not self.node.body[0]:
                self.bad(s, "string expression statement that is not the docstring")
            return self.block(rest, env, ret, ind)
        if isinstance(s, ast.Expr) and isinstance(s.value, ast.Call) and isinstance(s.value.func, ast.Attribute) and \
                isinstance(s.value.func.value, ast.Name) and s.value.func.value.id == "logger" and \
                s.value.func.attr in ("debug", "info", "warning", "error"):
            return self.block(rest, env, ret, ind)
        if isinstance(s, ast.Pass):
            return seq("m_ret tt")
        if isinstance(s, ast.Return):
            if rest or ret is not None:
                self.bad(s, "return that is not the last statement of the function")
            if self.name == "_save_content":                                    # S4
                if not (isinstance(s.value, ast.Name) and s.value.id == "content"):
                    self.bad(s, "_save_content returns something else than `content`")
                return pad + "m_ret tt"
            if RESULT[self.name] == "unit" or s.value is None:
                self.bad(s, "return in a function translated as a procedure")
            t, k = self.pure(s.value, env)
            if k != RESULT[self.name]:
                self.bad(s, "returns a %s" % k)
            return pad + "m_ret %s" % t
        if isinstance(s, ast.Raise):
            if rest:
                self.bad(s, "statements after raise")
            if s.exc is None:
                if not self.handlers:
                    self.bad(s, "bare raise outside a handler")
                return pad + "m_reraise %s" % self.handlers[-1]
            if isinstance(s.exc, ast.Call) and isinstance(s.exc.func, ast.Name) and s.exc.func.id in ("UnsupportedFormatErr", "ImportError") and s.cause is None:
                for a in s.exc.args:                                          # S6: the message
                    if not isinstance(a, (ast.Constant, ast.JoinedStr)):
                        self.bad(s, "exception argument is not a message string")
                return pad + ("m_raise_error" if self.saving else "m_raise_load_error")
            self.bad(s, "raise of something else than UnsupportedFormatErr / ImportError")
        if isinstance(s, ast.Assign):
            if len(s.targets) != 1 or not isinstance(s.targets[0], ast.Name):
                self.bad(s, "assignment target is not a single name")
            x = s.targets[0].id
            if self.is_pure(s.value):
                t, k = self.pure(s.value, env)
                env[x] = k
                return pad + "let %s := %s in\n%s" % (ident(x), t, self.block(rest, env, ret, ind))
            ef = self.effect(s.value, env)
            if not ef:
                self.bad(s, "right-hand side not supported: %s" % dump(s.value)[:160])
            env[x] = ef[1]
            return pad + "m_bind (%s) (fun %s =>\n%s)" % (ef[0], ident(x), self.block(rest, env, ret, ind))
        if isinstance(s, ast.Expr):
            ef = self.effect(s.value, env)
            if not ef:
                self.bad(s, "expression statement not supported: %s" % dump(s.value)[:160])
            if ef[1] not in ("unit", "any"):
                # the value is discarded (S4 covers _save_content; other values are just dropped)
                return pad + "m_bind (%s) (fun _ =>\n%s)" % (ef[0], self.block(rest, env, ret, ind))
            return seq(ef[0], ef[1])
        if isinstance(s, ast.With):
            head, v, fk = self.open_item(s, env)
            benv = dict(env)
            benv[v] = fk
            if fk == "wfile" and dump(s.body) == FP_CSV_WRITER_BODY and v == "csvfile" and env.get("dict_writer") == "csv_writer_class" \
                    and env.get("content") == "doc":                                # A4
                return seq("%s\n%s  m_stream_dump W FCsv %s %s)" % (head, pad, ident(v), ident("content")))
            joins = sorted((self.assigned(s.body) & (self.used(rest) | ({ret} if ret else set()))) - {v})
            if len(joins) > 1:
                self.bad(s, "several variables assigned in the with block are used after it: %s" % joins)
            if joins:
                j = joins[0]
                body = self.block(s.body, benv, j, ind + 1)
                # the kind of the joined variable: re-derive by a dry run over the body's assignments
                env[j] = self.kind_after(s.body, benv, j)
                return pad + "m_bind (%s\n%s)) (fun %s =>\n%s)" % (head, body, ident(j), self.block(rest, env, ret, ind))
            body = self.block(s.body, benv, None, ind + 1)
            return seq("%s\n%s)" % (head, body))
        if isinstance(s, ast.If):
            # `if v is None: v = e`
            t = s.test
            if isinstance(t, ast.Compare) and len(t.ops) == 1 and isinstance(t.ops[0], ast.Is) and isinstance(t.left, ast.Name) and \
                    isinstance(t.comparators[0], ast.Constant) and t.comparators[0].value is None:
                v = t.left.id
                if env.get(v) != "opt_pystr" or s.orelse or len(s.body) != 1 or not (
                        isinstance(s.body[0], ast.Assign) and len(s.body[0].targets) == 1 and isinstance(s.body[0].targets[0], ast.Name)
                        and s.body[0].targets[0].id == v):
                    self.bad(s, "`is None` test outside the idiom `if v is None: v = <default>`")
                env2 = dict(env)
                del env2[v]
                rhs = s.body[0].value
                if self.is_pure(rhs):
                    tx, k = self.pure(rhs, env2)
                    tx = "m_ret %s" % tx
                else:
                    ef = self.effect(rhs, env2)
                    if not ef:
                        self.bad(s, "default value not supported")
                    tx, k = ef[0], ef[1]
                if k not in ("pystr", "path"):
                    self.bad(s, "default value is a %s" % k)
                env[v] = "pystr"
                return pad + "m_bind (match %s with Some x_ => m_ret x_ | None => %s end) (fun %s =>\n%s)" % (
                    ident(v), tx, ident(v), self.block(rest, env, ret, ind))
            live = self.used(rest) | ({ret} if ret else set())
            if self.name == "_save_content" and len(rest) == 1 and isinstance(rest[0], ast.Return):
                live -= {"content"}                                              # S4: the returned value is dropped
            brs = [b for b in (s.body, s.orelse) if not self.always_raises(b)]
            both = set.intersection(*[self.assigned(b) for b in brs]) if brs else set()
            some = self.assigned_somewhere(s.body) | self.assigned_somewhere(s.orelse)
            joins = sorted(both & live)
            leak = sorted((some - both) & live)
            if leak:
                self.bad(s, "variable(s) %s assigned in only some branches are used after the if" % leak)
            if len(joins) > 1:
                self.bad(s, "several variables joined after an if: %s" % joins)
            j = joins[0] if joins else None
            text = self.if_text(s, env, j, ind)
            if j:
                env[j] = self.kind_after([s], env, j)
                return pad + "m_bind (\n%s\n%s) (fun %s =>\n%s)" % (text, pad, ident(j), self.block(rest, env, ret, ind))
            if not rest and ret is None:
                return text
            return pad + "m_seq (\n%s\n%s) (\n%s)" % (text, pad, self.block(rest, env, ret, ind))
        if isinstance(s, ast.Try):
            if dump(s) == FP_CSV_WRITER_SELECT and self.saving:                      # A3
                env["dict_writer"] = "csv_writer_class"
                return self.block(rest, env, ret, ind)
            ig = self.import_guard(s)                                                # A1 / A2
            if ig:
                env[ig[1]] = "module"
                return seq(ig[0])
            if s.finalbody or len(s.handlers) != 1:
                self.bad(s, "try statement with finally / several handlers")
            h = s.handlers[0]
            if h.type is None or (isinstance(h.type, ast.Name) and h.type.id == "BaseException"):
                catch = "CatchBaseException"
            elif isinstance(h.type, ast.Name) and h.type.id == "Exception":
                catch = "CatchException"
            else:
                self.bad(h, "handler for something else than Exception / BaseException")
            en = ident(h.name) if h.name else "exc%d_" % (len(self.handlers) + 1)
            self.handlers.append(en)
            henv = dict(env)
            if h.name:
                henv[h.name] = "exn"
            handler = self.block(h.body, henv, None, ind + 3)
            self.handlers.pop()
            # try: x = <call> / except ..: <always raises>   followed by the uses of x
            if len(s.body) == 1 and isinstance(s.body[0], ast.Assign) and not s.orelse and len(s.body[0].targets) == 1 and \
                    isinstance(s.body[0].targets[0], ast.Name) and not self.is_pure(s.body[0].value):
                if not self.always_raises(h.body):
                    self.bad(s, "handler of `try: x = ...` may complete normally (x would be unbound afterwards)")
                ef = self.effect(s.body[0].value, env)
                if not ef:
                    self.bad(s, "right-hand side not supported: %s" % dump(s.body[0].value)[:160])
                x = s.body[0].targets[0].id
                env[x] = ef[1]
                return pad + "m_try (%s)\n%s  %s (fun %s =>\n%s)\n%s  (fun %s =>\n%s)" % (
                    ef[0], pad, catch, en, handler, pad, ident(x), self.block(rest, env, ret, ind + 2))
            live = self.used(rest) | ({ret} if ret else set())
            if (self.assigned(s.body) | self.assigned(s.orelse) | self.assigned(h.body)) & live:
                self.bad(s, "variables assigned inside a try statement are used after it")
            body = self.block(s.body, env, None, ind + 2)
            orelse = self.block(s.orelse, env, None, ind + 3) if s.orelse else "  " * (ind + 3) + "m_ret tt"
            return seq("m_try (\n%s)\n%s  %s (fun %s =>\n%s)\n%s  (fun _ =>\n%s)" % (body, pad, catch, en, handler, pad, orelse))
        self.bad(s, "statement form not supported")

    def is_none_idiom(self, s):
        t = s.test
        return isinstance(t, ast.Compare) and len(t.ops) == 1 and isinstance(t.ops[0], ast.Is)

    def if_text(self, s, env, j, ind):
        """`if c: A elif d: B else: C` -> `if c then A else if d then B else C` (every branch yields j, or unit)"""
        pad = "  " * ind
        c, k = self.pure(s.test, env)
        if k != "bool":
            self.bad(s, "condition is a %s" % k)
        a = self.block(s.body, env, j, ind + 1)
        if len(s.orelse) == 1 and isinstance(s.orelse[0], ast.If) and not self.is_none_idiom(s.orelse[0]):
            b = self.if_text(s.orelse[0], env, j, ind)                      # elif
            return "%sif %s then\n%s\n%selse %s" % (pad, c, a, pad, b.lstrip())
        b = self.block(s.orelse, env, j, ind + 1) if s.orelse else "  " * (ind + 1) + self.ret_text(env, j)
        return "%sif %s then\n%s\n%selse\n%s" % (pad, c, a, pad, b)

    def assigned_somewhere(self, stmts):
        out = set()
        for s in stmts:
            for n in ast.walk(s):
                if isinstance(n, ast.Name) and isinstance(n.ctx, ast.Store):
                    out.add(n.id)
        return out

    def kind_after(self, stmts, env, name):
        """kind of `name` after the block (straight-line walk over assignments; With bodies included)"""
        env = dict(env)

        def walk(ss):
            for s in ss:
                if isinstance(s, ast.Assign) and len(s.targets) == 1 and isinstance(s.targets[0], ast.Name):
                    if self.is_pure(s.value):
                        env[s.targets[0].id] = self.pure(s.value, env)[1]
                    else:
                        saved = self.tmp
                        ef = self.effect(s.value, env)
                        self.tmp = saved
                        if ef:
                            env[s.targets[0].id] = ef[1]
                elif isinstance(s, ast.With):
                    it = s.items[0]
                    if isinstance(it.optional_vars, ast.Name):
                        env[it.optional_vars.id] = "wfile" if self.saving else "rfile"
                    walk(s.body)
                elif isinstance(s, ast.Try):
                    ig = self.import_guard(s)
                    if ig:
                        env[ig[1]] = "module"
                elif isinstance(s, ast.If):
                    walk(s.body if not self.always_raises(s.body) else s.orelse)
                elif isinstance(s, ast.Raise):
                    pass
        walk(stmts)
        if name not in env:
            raise Unsupported("%s: in %s: cannot determine what %r holds after a block" % (self.fname, self.name, name))
        return env[name]

    def translate(self):
        n = self.node
        a = n.args
        if self.name == "patch":
            if [ast.dump(d) for d in n.decorator_list] != PATCH_DECORATORS:
                self.bad(n, "the click decorators of `patch` changed (arguments / options / defaults)")
        elif n.decorator_list:
            self.bad(n, "decorated function")
        if a.vararg or a.kwarg or a.kwonlyargs or a.posonlyargs or n.returns is not None or isinstance(n, ast.AsyncFunctionDef):
            self.bad(n, "signature form not supported")
        names = [x.arg for x in a.args]
        defaults = [None] * (len(names) - len(a.defaults)) + [ast.dump(d) for d in a.defaults]
        if list(zip(names, defaults)) != SIGS[self.name]:
            self.bad(n, "signature changed: %r, expected %r" % (list(zip(names, defaults)), SIGS[self.name]))
        if any(x.annotation is not None for x in a.args):
            self.bad(n, "annotated parameters")
        env = dict(PARAM_KINDS[self.name])
        body = self.block(n.body, env, None, 1) if self.name != "load_path_content" else self.load_body(n.body, env)
        params = " ".join("(%s : %s)" % (ident(p), COQ_TYPE[PARAM_KINDS[self.name][p]]) for p in names)
        res = {"unit": "unit", "doc": "doc"}[RESULT[self.name]]
        return ("(* %s:%d  def %s(%s) *)\n"
                "Definition g_%s {X doc delta : Type} (W : world X doc delta) %s : M X %s :=\n%s.\n" % (
                    self.fname, n.lineno, self.name, ", ".join(names), self.name, params, res, body))

    def load_body(self, stmts, env):
        """load_path_content: the csv branch (A5) is replaced before the generic translation"""
        class R(ast.NodeTransformer):
            def __init__(s2):
                s2.hits = 0

            def visit_If(s2, node):
                node = s2.generic_visit(node)
                if dump(node.body) == FP_CSV_LOAD_BRANCH:
                    s2.hits += 1
                    mark = ast.parse("content = __csv_load__(path)").body[0]
                    ast.copy_location(mark, node.body[0])
                    ast.fix_missing_locations(mark)
                    node.body = [mark]
                return node
        r = R()
        tree = r.visit(ast.Module(body=list(stmts), type_ignores=[]))
        self.csv_marks = r.hits
        return self.block(tree.body, env, None, 1)


class Translator:
    def __init__(self, repo):
        self.repo = repo
        self.done = []

    def parse(self, rel):
        p = os.path.join(self.repo, rel)
        try:
            src = open(p, encoding="utf-8").read()
        except OSError as e:
            raise Unsupported("%s: cannot read (%s)" % (rel, e))
        if "__csv_load__" in src:
            raise Unsupported("%s: the name __csv_load__ (the translator's internal marker for rule A5) occurs in the source" % rel)
        try:
            return ast.parse(src)
        except SyntaxError as e:
            raise Unsupported("%s: %s" % (rel, e))

    def find(self, tree, rel, name):
        hits = [n for n in ast.walk(tree) if isinstance(n, (ast.FunctionDef, ast.AsyncFunctionDef, ast.ClassDef)) and n.name == name]
        top = [n for n in tree.body if isinstance(n, ast.FunctionDef) and n.name == name]
        if len(hits) != 1 or len(top) != 1:
            raise Unsupported("%s: expected exactly one top-level def %s (found %d, %d at top level)" % (rel, name, len(hits), len(top)))
        # the name must not be rebound elsewhere in the module
        for n in ast.walk(tree):
            if isinstance(n, ast.Name) and isinstance(n.ctx, ast.Store) and n.id == name:
                raise Unsupported("%s:%d: %s is rebound" % (rel, n.lineno, name))
        return top[0]

    def check_imports(self, cmd_tree):
        """commands.py must take load_path_content / save_content_to_path from deepdiff.serialization and Delta from deepdiff"""
        want = {"load_path_content": "deepdiff.serialization", "save_content_to_path": "deepdiff.serialization", "Delta": "deepdiff"}
        seen = {}
        for n in cmd_tree.body:
            if isinstance(n, ast.ImportFrom):
                for al in n.names:
                    if (al.asname or al.name) in want:
                        seen[al.asname or al.name] = (n.module, al.name, n.level)
        for k, mod in want.items():
            if seen.get(k) != (mod, k, 0):
                raise Unsupported("%s: %s is not imported from %s" % (CMD, k, mod))

    def run(self):
        ser = self.parse(SER)
        cmd = self.parse(CMD)
        self.check_imports(cmd)
        out = []
        for rel, tree, name in ((SER, ser, "_save_content"), (SER, ser, "save_content_to_path"),
                                (SER, ser, "load_path_content"), (CMD, cmd, "patch")):
            node = self.find(tree, rel, name)
            fn = Fn(self, rel, node)
            out.append(fn.translate())
            self.done.append(name)
        header = ("(* GENERATED by /verif/harness/translate/clisave.py - do not edit.\n"
                  "   Source: %s (_save_content, save_content_to_path, load_path_content), %s (patch).\n"
                  "   One combinator of DD.Cli.PyMonad per Python statement, in source order. *)\n"
                  "From Coq Require Import List Bool NArith ZArith String.\n"
                  "Import ListNotations.\n"
                  "From DD Require Import Base.PyStr Cli.FsModel Cli.GenModel Cli.FormatModel Cli.PyMonad.\n\n" % (SER, CMD))
        return header + "\n".join(out)


def translate(repo_root):
    return Translator(repo_root).run()


if __name__ == "__main__":
    import sys
    sys.stdout.write(translate(sys.argv[1] if len(sys.argv) > 1 else "/repo"))

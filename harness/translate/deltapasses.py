"""Source tie of C08 / C01: deepdiff/delta.py  ->  Gallina (coq/srctie/DeltaGen.v, module DDGen.DeltaGen).

translate(repo_root) reads /repo's CURRENT deepdiff/delta.py, walks the `ast` of the methods of class Delta
listed in FRAGMENT with an explicit white-list of node shapes and emits one Gallina definition `g_<method>`
per method, statement by statement, in source order, over the vocabulary of coq/theories/Delta/DeltaSrc.v
(types + primitive helpers: the Delta object `dobj`, report keys `cat`, payload views, subscript readers, the
worker methods `w_*` that are NOT entered).  Nothing of DeltaModel's apply / reverse / sub / verify is used.
Anything outside the white-list raises Unsupported("deepdiff/delta.py:<line>: ...").  No eval, no import of deepdiff.

FRAGMENT (what is translated)
  reset, __add__, __radd__ (the class-level alias), __rsub__, _get_reverse_diff, _raise_or_log, _do_verify_changes,
  and the pass wrappers _do_pre_process (guard only), _do_values_changed, _do_type_changes, _do_set_item_added,
  _do_set_item_removed, _do_iterable_item_removed, _do_iterable_item_added, _do_ignore_order (its two reads and the
  loop header only), _do_dictionary_item_added, _do_dictionary_item_removed, _do_attribute_added,
  _do_attribute_removed, _do_post_process.
NOT ENTERED (workers; their signatures - parameter names and defaults - are checked, their bodies are not read):
  _do_values_or_type_changed, _do_item_added, _do_item_removed, _do_set_or_frozenset_item, _do_iterable_opcodes.

ENCODING RULES (each is part of the trusted base of this tie; listed in coq/theories/Delta/NOTES_srctie.md)
 E1  the object: self.diff = o_diff, self._reversed_diff = o_rev (option), self.mutate = o_mutate,
     self.bidirectional = d_bidir (o_diff self), self.root / self.post_process_paths_to_convert / the number of
     _raise_or_log calls = the DeltaModel.st inside the object.  `self.root = e` starts an application (counter 0),
     `del self.root` leaves a placeholder.  A method without `return` returns the object; `return e` returns (object, e).
 E2  report keys are the constructors of DeltaSrc.cat (table CATS); `self.diff.get(k)`, `.get(k, {})`,
     `.get(k, dict_())` are all `diff_get (o_diff self) k` (an absent key and an empty dictionary are the same
     payload); `if x:` on a payload is `payload_truthy x`.
 E3  entries: x['k'] / x.get('k') / 'k' in x / x.attr on the entries of values_changed, type_changes,
     iterable_item_moved and on Opcode tuples are the readers of DeltaSrc.v named after the key (tables SUBS, HAS,
     ATTRS); a dictionary display / Opcode(...) with exactly the expected keys is the matching constructor
     (tables MAKE); KeyError on an absent key is not modelled (DeltaModel.reverse totalises the same reads).
 E4  loops that BUILD a dictionary entry by entry (`r[action] = {}` / `for path, x in info.items(): ... r[action][key] = {...}`,
     later stores into that entry, `r[action][path] = []` / `.append`) and dictionary comprehensions become `map`
     over the entry list in the same order (the keys of one report are distinct); `a.update(b)` is `items_update`
     (concatenation).  `for action, info in self.diff.items()` is a `fold_left` over `diff_keys` with
     `info := diff_get ... action`; `for key in list(T.keys()): T[T[key]] = key` is a `fold_left` over the keys of T.
 E5  `try: A finally: B` is A followed by B, and `raise E(...)` in a method that returns a value is the monad's
     None (`res` = option): exceptions inside the passes are not modelled - every _raise_or_log call is COUNTED
     (count_error), as in DeltaModel.v; with raise_errors=True the real run stops at the first one.  The translator
     checks the exact try/finally shape (no handlers, no else).
 E6  `deepcopy(x)` = py_deepcopy x = x (values are immutable in the model; aliasing with the caller's object
     is not modelled), `dict_()` / `{}` = PAbsent.
 E7  keyword arguments of a worker call are placed by name, missing ones take the default read from the worker's
     `def` in the CURRENT source (a changed default changes the generated text).
 E8  an assignment `a, b = c, d` evaluates c, d first, then stores left to right.
 E9  `if c: A` without else where A assigns locals / self: the variables assigned in A that exist before the `if`
     are threaded through (`let '(self, x) := if c then A; (self, x) else (self, x)`); a name first bound inside A is local to A.
SKIP RULES
 S1  the numpy operator guard at the head of __add__ (`if isinstance(other, numbers) and self._numpy_paths: raise
     DeltaNumpyOperatorOverrideError(...)`): exact shape checked; no numpy paths in this universe.
 S2  in _raise_or_log: the whole body must be `if self.log_errors: getattr(logger, level)(msg)` followed by
     `if self.raise_errors: raise DeltaError(msg)`; it is emitted as ONE `on_st count_error` (logging is not modelled).
 S3  in _do_verify_changes: the statements that only compute the message (`if isinstance(path, str): path_str = path
     else: path_str = stringify_path(...)`) and the argument of self._raise_or_log(...).
 S4  branches reachable only with numpy paths / ignore_order payload: the body of `if self._numpy_paths and ...:` in
     _do_pre_process and the body of `for path in paths:` in _do_ignore_order are NOT entered (emitted as
     src_untranslated = identity; in this universe the guard is false / the list of paths is empty by computation).
 S5  docstrings, comments, `# type: ignore`, `# pragma` (not in the ast).
 S6  every other method of the class is outside the fragment; the translator CHECKS that none of them stores to /
     deletes self.diff, self._reversed_diff, self.bidirectional, self.mutate, self.root, and that
     post_process_paths_to_convert is written only by reset (assignment) and _coerce_obj / _del_elem /
     _do_pre_process (item stores), and that __init__ assigns self._reversed_diff = None and ends with self.reset().
"""
import ast
import os

SRC = "deepdiff/delta.py"


class Unsupported(Exception):
    pass


def bad(node, what):
    raise Unsupported("%s:%s: %s%s" % (SRC, getattr(node, "lineno", "?"), what,
                                       (" [" + type(node).__name__ + "]") if node is not None else ""))


# ---- static tables -----------------------------------------------------------------------------------------
CATS = {
    "values_changed": "CValuesChanged", "type_changes": "CTypeChanges",
    "dictionary_item_added": "CDictionaryItemAdded", "dictionary_item_removed": "CDictionaryItemRemoved",
    "iterable_item_added": "CIterableItemAdded", "iterable_item_removed": "CIterableItemRemoved",
    "iterable_item_moved": "CIterableItemMoved", "set_item_added": "CSetItemAdded",
    "set_item_removed": "CSetItemRemoved", "_iterable_opcodes": "CIterableOpcodes",
    "iterable_items_added_at_indexes": "CIterableItemsAddedAtIndexes",
    "iterable_items_removed_at_indexes": "CIterableItemsRemovedAtIndexes",
    "attribute_added": "CAttributeAdded", "attribute_removed": "CAttributeRemoved",
}
# the shape of the payload under a key that an `elif action == '<key>'` branch iterates: (entry type, view)
CAT_ENTRY = {"values_changed": ("vc", "as_val", "PVal"), "type_changes": ("tc", "as_type", "PType"),
             "iterable_item_moved": ("mv", "as_moved", "PMoved"), "_iterable_opcodes": ("ops", "as_ops", "POps")}
ENTRY_KEY = {"vc": "vc_key", "tc": "tc_key", "mv": "mv_key"}
# x['k'] : (entry type, key) -> (reader, result type)
SUBS = {("vc", "new_path"): ("vc_sub_new_path", "path"), ("vc", "old_value"): ("vc_sub_old_value", "value"),
        ("vc", "new_value"): ("vc_sub_new_value", "value"),
        ("tc", "new_path"): ("tc_sub_new_path", "path"), ("tc", "old_type"): ("tc_sub_old_type", "ty"),
        ("tc", "new_type"): ("tc_sub_new_type", "ty"), ("tc", "old_value"): ("tc_sub_old_value", "value"),
        ("tc", "new_value"): ("tc_sub_new_value", "value"),
        ("mv", "new_path"): ("mv_sub_new_path", "path"), ("mv", "value"): ("mv_sub_value", "value")}
# x.get('k') as a condition / 'k' in x
HAS = {("vc", "new_path"): "vc_has_new_path", ("tc", "new_path"): "tc_has_new_path",
       ("tc", "new_value"): "tc_has_new_value", ("tc", "old_value"): "tc_has_old_value"}
# op_code.attr
ATTRS = {"tag": ("op_tag", "tag"), "t1_from_index": ("op_t1_from_index", "nat"), "t1_to_index": ("op_t1_to_index", "nat"),
         "t2_from_index": ("op_t2_from_index", "nat"), "t2_to_index": ("op_t2_to_index", "nat"),
         "new_values": ("op_new_values", "values"), "old_values": ("op_old_values", "values")}
# constructors: entry type -> (constructor, [(key, type)] in argument order after the dictionary key)
MAKE = {"vc": ("vc_make", [("new_value", "value"), ("old_value", "value")]),
        "tc": ("tc_make", [("old_type", "ty"), ("new_type", "ty")]),
        "mv": ("mv_make", [("new_path", "path"), ("value", "value")])}
OPCODE_ARGS = [("tag", "tag"), ("t1_from_index", "nat"), ("t1_to_index", "nat"), ("t2_from_index", "nat"),
               ("t2_to_index", "nat"), ("new_values", "values"), ("old_values", "values")]
# later stores into the entry under construction: (entry type, key) -> (setter, type)
STORE = {("tc", "old_value"): ("tc_store_old_value", "value"), ("tc", "new_value"): ("tc_store_new_value", "value")}
TAGS = {"equal": "OEqual", "replace": "OReplace", "delete": "ODelete", "insert": "OInsert"}
SETFUNCS = {"union": "FUnion", "difference": "FDifference"}
PASSES = ["_do_pre_process", "_do_values_changed", "_do_set_item_added", "_do_set_item_removed", "_do_type_changes",
          "_do_iterable_opcodes", "_do_iterable_item_removed", "_do_iterable_item_added", "_do_ignore_order",
          "_do_dictionary_item_added", "_do_dictionary_item_removed", "_do_attribute_added", "_do_attribute_removed",
          "_do_post_process"]
# workers: name -> [(parameter, type)] after self; defaults are read from the source (E7)
WORKERS = {"_do_values_or_type_changed": [("changes", "payload"), ("is_type_change", "bool"), ("verify_changes", "bool")],
           "_do_item_added": [("items", "payload"), ("sort", "bool"), ("insert", "bool")],
           "_do_item_removed": [("items", "payload")],
           "_do_set_or_frozenset_item": [("items", "payload"), ("func", "setfunc")],
           "_do_iterable_opcodes": []}
WORKER_ORACLE = {"_do_values_or_type_changed": "conv ", "_do_item_added": "add_order ", "_do_item_removed": "rem_order "}
# attributes of the modelled state and the methods allowed to store to them (S6): attr -> {method: kinds}
STATE_WRITERS = {
    "diff": {"__init__": {"assign"}, "__rsub__": {"assign"}},
    "_reversed_diff": {"__init__": {"assign"}, "__rsub__": {"assign"}},
    "bidirectional": {"__init__": {"assign"}},
    "mutate": {"__init__": {"assign"}},
    "root": {"__add__": {"assign", "del"}},
    "post_process_paths_to_convert": {"reset": {"assign"}, "_coerce_obj": {"item"}, "_del_elem": {"item"},
                                      "_do_pre_process": {"item"}},
}
RESERVED = set("as at cofix else end exists exists2 fix for forall fun if IF in let match mod Prop return Set then Type "
               "using where with".split())


def cmt(node):
    """the Python text of a statement head, safe inside a Coq comment"""
    try:
        s = ast.unparse(node).split("\n")[0]
    except Exception:  # pragma: no cover
        s = type(node).__name__
    s = s.replace("(*", "( *").replace("*)", "* )").replace('"', "'")
    return "(* " + s[:150] + " *)"


def is_self_attr(n, name=None):
    return (isinstance(n, ast.Attribute) and isinstance(n.value, ast.Name) and n.value.id == "self"
            and (name is None or n.attr == name))


def const_str(n):
    return n.value if isinstance(n, ast.Constant) and isinstance(n.value, str) else None


def lv(name, node=None):
    if not name.isidentifier() or not name.isascii() or name in RESERVED:
        bad(node, "local name %r is not usable as a Coq identifier" % name)
    return "v_" + name


def strip_doc(body):
    if body and isinstance(body[0], ast.Expr) and isinstance(body[0].value, ast.Constant) and isinstance(body[0].value.value, str):
        return body[1:]
    return body


class Env:
    """local name -> type; `self` is implicit"""

    def __init__(self, d=None):
        self.t = dict(d or {})

    def copy(self):
        return Env(self.t)


# ---- expressions -------------------------------------------------------------------------------------------
def coerce(txt, have, want, node):
    if have == want:
        return txt
    if have == "none" and want == "optvalue":
        return "None"
    if have == "value" and want == "optvalue":
        return "(Some %s)" % txt
    bad(node, "expression of type %s where %s is needed" % (have, want))


def expr(n, env, want=None):
    """-> (coq text, type).  `want` disambiguates string constants."""
    if isinstance(n, ast.Name):
        if n.id in env.t:
            return lv(n.id, n), env.t[n.id]
        bad(n, "unknown name %r" % n.id)
    if isinstance(n, ast.Constant):
        if n.value is None:
            return "None", "none"
        if n.value is True or n.value is False:
            return ("true" if n.value else "false"), "bool"
        if isinstance(n.value, str):
            if want == "cat" and n.value in CATS:
                return CATS[n.value], "cat"
            if want == "tag" and n.value in TAGS:
                return TAGS[n.value], "tag"
            if want == "setfunc" and n.value in SETFUNCS:
                return SETFUNCS[n.value], "setfunc"
            bad(n, "string constant %r is not a known %s" % (n.value, want or "constant here"))
        bad(n, "constant %r" % (n.value,))
    if is_self_attr(n):
        a = n.attr
        if a == "mutate":
            return "(o_mutate self)", "bool"
        if a == "bidirectional":
            return "(obj_bidirectional self)", "bool"
        if a == "root":
            return "(obj_root self)", "value"
        if a == "_reversed_diff":
            return "(o_rev self)", "optdelta"
        if a == "diff":
            return "(o_diff self)", "delta"
        if a == "post_process_paths_to_convert":
            return "(obj_post self)", "payload"
        if a == "_numpy_paths":
            return "(obj_numpy_paths self)", "bool"
        bad(n, "attribute self.%s is outside the modelled state" % a)
    if isinstance(n, ast.Attribute) and isinstance(n.value, ast.Name) and env.t.get(n.value.id) == "op":
        if n.attr not in ATTRS:
            bad(n, "Opcode attribute %r" % n.attr)
        f, t = ATTRS[n.attr]
        return "(%s %s)" % (f, lv(n.value.id, n)), t
    if isinstance(n, ast.UnaryOp) and isinstance(n.op, ast.Not):
        return "(negb %s)" % cond(n.operand, env), "bool"
    if isinstance(n, ast.BoolOp) and isinstance(n.op, (ast.And, ast.Or)):
        f = "andb" if isinstance(n.op, ast.And) else "orb"
        parts = [cond(v, env) for v in n.values]
        out = parts[-1]
        for p in reversed(parts[:-1]):
            out = "(%s %s %s)" % (f, p, out)
        return out, "bool"
    if isinstance(n, ast.Compare) and len(n.ops) == 1:
        op, l, r = n.ops[0], n.left, n.comparators[0]
        if isinstance(op, ast.Is) and isinstance(r, ast.Constant) and r.value is None:
            t, ty = expr(l, env)
            if ty not in ("optdelta",):
                bad(n, "`is None` on a %s" % ty)
            return "(is_none %s)" % t, "bool"
        if isinstance(op, ast.Eq):
            lt, lty = expr(l, env)
            if lty == "cat":
                rt, _ = expr(r, env, want="cat")
                return "(cat_eqb %s %s)" % (lt, rt), "bool"
            bad(n, "== on a %s" % lty)
        if isinstance(op, ast.NotEq):
            lt, lty = expr(l, env)
            rt, rty = expr(r, env)
            if lty == "optvalue" and rty == "value":
                return "(py_ne_opt %s %s)" % (lt, rt), "bool"
            bad(n, "!= between %s and %s" % (lty, rty))
        if isinstance(op, ast.In) and const_str(l) is not None and isinstance(r, ast.Name):
            ty = env.t.get(r.id)
            if (ty, const_str(l)) in HAS:
                return "(%s %s)" % (HAS[(ty, const_str(l))], lv(r.id, r)), "bool"
            bad(n, "`%r in` a %s" % (const_str(l), ty))
        bad(n, "comparison")
    if isinstance(n, ast.BinOp) and isinstance(n.op, (ast.Add, ast.Sub)):
        # index arithmetic on Opcode positions (natural numbers; Python's negative results are not modelled: truncated subtraction)
        lt, lty = expr(n.left, env)
        if lty == "nat" and isinstance(n.right, ast.Constant) and type(n.right.value) is int and 0 <= n.right.value < 10:
            return "(%s %s %d)" % (lt, "+" if isinstance(n.op, ast.Add) else "-", n.right.value), "nat"
        bad(n, "arithmetic on a %s" % lty)
    if isinstance(n, ast.IfExp):
        c = cond(n.test, env)
        a, at = expr(n.body, env, want)
        b, bt = expr(n.orelse, env, want)
        if at != bt:
            bad(n, "conditional expression with branches of types %s / %s" % (at, bt))
        return "(if %s then %s else %s)" % (c, a, b), at
    if isinstance(n, ast.Subscript) and isinstance(n.value, ast.Name) and const_str(n.slice) is not None:
        ty = env.t.get(n.value.id)
        k = const_str(n.slice)
        if (ty, k) in SUBS:
            f, t = SUBS[(ty, k)]
            return "(%s %s)" % (f, lv(n.value.id, n)), t
        bad(n, "subscript %r of a %s" % (k, ty))
    if isinstance(n, ast.Call):
        f = n.func
        # deepcopy(x)
        if isinstance(f, ast.Name) and f.id == "deepcopy" and len(n.args) == 1 and not n.keywords:
            t, ty = expr(n.args[0], env)
            if ty != "value":
                bad(n, "deepcopy of a %s" % ty)
            return "(py_deepcopy %s)" % t, "value"
        # dict_()
        if isinstance(f, ast.Name) and f.id == "dict_" and not n.args and not n.keywords:
            return "PAbsent", "payload"
        # self.diff.get(k [, {} | dict_()])
        if (isinstance(f, ast.Attribute) and f.attr == "get" and is_self_attr(f.value, "diff") and not n.keywords
                and len(n.args) in (1, 2) and const_str(n.args[0]) is not None):
            k = const_str(n.args[0])
            if k not in CATS:
                bad(n, "report key %r" % k)
            if len(n.args) == 2:
                d = n.args[1]
                ok = (isinstance(d, ast.Dict) and not d.keys) or (isinstance(d, ast.Call) and isinstance(d.func, ast.Name)
                                                                  and d.func.id == "dict_" and not d.args and not d.keywords)
                if not ok:
                    bad(n, "default of self.diff.get is not an empty dictionary")
            return "(diff_get (o_diff self) %s)" % CATS[k], "payload"
        # {'a': 'b', ...}.get(k, default) on opcode tags
        if (isinstance(f, ast.Attribute) and f.attr == "get" and isinstance(f.value, ast.Dict) and len(n.args) == 2 and not n.keywords):
            pairs = []
            for kk, vv in zip(f.value.keys, f.value.values):
                a, _ = expr(kk, env, want="tag")
                b, _ = expr(vv, env, want="tag")
                pairs.append("(%s, %s)" % (a, b))
            k, kt = expr(n.args[0], env, want="tag")
            d, dt = expr(n.args[1], env, want="tag")
            if kt != "tag" or dt != "tag":
                bad(n, "tag dictionary lookup on %s / %s" % (kt, dt))
            return "(tag_get [%s] %s %s)" % ("; ".join(pairs), k, d), "tag"
        # Opcode(tag=..., ...)
        if isinstance(f, ast.Name) and f.id == "Opcode" and not n.args:
            kw = {k.arg: k.value for k in n.keywords}
            if len(kw) != len(n.keywords) or set(kw) != {a for a, _ in OPCODE_ARGS}:
                bad(n, "Opcode(...) without exactly the keywords %s" % [a for a, _ in OPCODE_ARGS])
            args = []
            for a, t in OPCODE_ARGS:
                x, xt = expr(kw[a], env, want=t)
                if xt != t:
                    bad(kw[a], "Opcode %s= of type %s" % (a, xt))
                args.append(x)
            return "(op_make %s)" % " ".join(args), "op"
        bad(n, "call")
    if isinstance(n, ast.DictComp):
        return dictcomp(n, env)
    bad(n, "expression")


def cond(n, env):
    """an expression in condition position -> bool text (truthiness rules E2 / E3)"""
    # x.get('k') on an entry
    if (isinstance(n, ast.Call) and isinstance(n.func, ast.Attribute) and n.func.attr == "get" and isinstance(n.func.value, ast.Name)
            and len(n.args) == 1 and not n.keywords and const_str(n.args[0]) is not None):
        ty = env.t.get(n.func.value.id)
        k = const_str(n.args[0])
        if (ty, k) in HAS:
            return "(%s %s)" % (HAS[(ty, k)], lv(n.func.value.id, n))
        bad(n, ".get(%r) of a %s as a condition" % (k, ty))
    t, ty = expr(n, env)
    if ty == "bool":
        return t
    if ty == "payload":
        return "(payload_truthy %s)" % t
    bad(n, "a %s as a condition" % ty)


def dictcomp(n, env):
    """{KEY: VAL for k, v in X.items()} with X a moved-items payload -> PItems (map ...)   (E4)"""
    if len(n.generators) != 1:
        bad(n, "comprehension with several generators")
    g = n.generators[0]
    if g.ifs or g.is_async:
        bad(n, "comprehension with a filter")
    it = g.iter
    if not (isinstance(it, ast.Call) and isinstance(it.func, ast.Attribute) and it.func.attr == "items" and not it.args
            and not it.keywords and isinstance(it.func.value, ast.Name)):
        bad(n, "comprehension source is not <name>.items()")
    src = it.func.value.id
    if env.t.get(src) != "payload":
        bad(n, "comprehension over a %s" % env.t.get(src))
    if not (isinstance(g.target, ast.Tuple) and len(g.target.elts) == 2 and all(isinstance(e, ast.Name) for e in g.target.elts)):
        bad(n, "comprehension target is not a pair of names")
    kn, vn = g.target.elts[0].id, g.target.elts[1].id
    e2 = env.copy()
    e2.t[kn] = "path"
    e2.t[vn] = "mv"
    kt, kty = expr(n.key, e2)
    if kty != "path":
        bad(n.key, "comprehension key of type %s" % kty)
    vt, vty = expr(n.value, e2)
    vt = coerce(vt, vty, "optvalue", n.value)
    return ("(PItems (map (fun it => let %s := mv_key it in let %s := it in (%s, %s)) (as_moved %s)))"
            % (lv(kn, n), lv(vn, n), kt, vt, lv(src, n))), "payload"


# ---- statements of the object methods ------------------------------------------------------------------------
class Out:
    def __init__(self):
        self.lines = []

    def w(self, depth, s):
        self.lines.append("  " * depth + s)


def assigned_names(stmts):
    """names (locals, and 'self' for any store to the object / call of a self method) a block may rebind"""
    out = []

    def add(x):
        if x not in out:
            out.append(x)
    for s in stmts:
        for n in ast.walk(s):
            if isinstance(n, ast.Name) and isinstance(n.ctx, (ast.Store, ast.Del)):
                add(n.id)
            elif isinstance(n, ast.Attribute) and isinstance(n.ctx, (ast.Store, ast.Del)) and is_self_attr(n):
                add("self")
            elif isinstance(n, ast.Call) and isinstance(n.func, ast.Attribute):
                if is_self_attr(n.func):
                    add("self")
                elif isinstance(n.func.value, ast.Name) and n.func.attr in ("update", "append"):
                    add(n.func.value.id)
    return out


def tuple_of(names):
    names = ["self" if x == "self" else lv(x) for x in names]
    return names[0] if len(names) == 1 else "(" + ", ".join(names) + ")"


def pat_of(names):
    names = ["self" if x == "self" else lv(x) for x in names]
    return names[0] if len(names) == 1 else "'(" + ", ".join(names) + ")"


class _Marker:
    """a comment line between statements (try: / finally:)"""

    def __init__(self, text):
        self.text = text


class Method:
    """translation of one method body: nested lets; `monadic` methods return `res` and may raise"""

    def __init__(self, tr, name, monadic):
        self.tr, self.name, self.monadic = tr, name, monadic
        self.closing = 0
        self.returned = False
        self.ret_type = None
        self.returns_self = False

    def ret(self, txt):
        return "rret %s" % txt if self.monadic else txt

    def scope(self, stmts, env, out, depth, tail):
        """a block whose opened parentheses (monadic binds) are closed at its end"""
        saved, self.closing = self.closing, 0
        self.block(stmts, env, out, depth, tail)
        if self.closing:
            out.lines[-1] += ")" * self.closing
        self.closing = saved

    def block(self, stmts, env, out, depth, tail):
        """emit stmts then tail(env) (the final expression of this block)"""
        if not stmts:
            out.w(depth, tail(env))
            return
        s, rest = stmts[0], stmts[1:]
        if isinstance(s, _Marker):
            out.w(depth, s.text)
            return self.block(rest, env, out, depth, tail)
        # return e   (last statement of the method only)
        if isinstance(s, ast.Return):
            if rest or not self.top:
                bad(s, "return is not the last statement of the method")
            if s.value is None:
                bad(s, "bare return")
            t, ty = expr(s.value, env)
            self.ret_type = ty
            out.w(depth, "%s %s" % (cmt(s), self.ret("(self, %s)" % t if self.returns_self else t)))
            self.returned = True
            return
        # if c: A [else: B]
        if isinstance(s, ast.If):
            return self.if_(s, env, out, depth, rest, tail)
        # try: A finally: B     (E5)
        if isinstance(s, ast.Try):
            if s.handlers or s.orelse or not s.finalbody:
                bad(s, "try statement that is not try/finally")
            for x in s.body + s.finalbody:
                if isinstance(x, (ast.Return, ast.Raise)):
                    bad(x, "return / raise directly inside try/finally")
            return self.block([_Marker("(* try: *)")] + s.body + [_Marker("(* finally: *)")] + s.finalbody
                              + [_Marker("(* end of try/finally *)")] + rest, env, out, depth, tail)
        self.simple(s, env, out, depth)
        self.block(rest, env, out, depth, tail)

    def if_(self, s, env, out, depth, rest, tail):
        c = cond(s.test, env)
        # `if c: raise ...` (monadic, no else): the rest is the else branch
        if len(s.body) == 1 and isinstance(s.body[0], ast.Raise) and not s.orelse:
            if not self.monadic:
                bad(s, "raise in a method that is not translated with exceptions")
            out.w(depth, "%s if %s then rraise else" % (cmt(s), c))
            return self.block(rest, env, out, depth, tail)
        names = [x for x in assigned_names(s.body + s.orelse) if x == "self" or x in env.t]
        if not names:
            bad(s, "an `if` that assigns nothing visible")
        tup, pat = tuple_of(names), pat_of(names)
        rt = lambda e: self.ret(tup)  # noqa: E731
        top, self.top = self.top, False
        if self.monadic:
            out.w(depth, "%s rbind (if %s then" % (cmt(s), c))
        else:
            out.w(depth, "%s let %s := if %s then" % (cmt(s), pat, c))
        self.scope(s.body, env.copy(), out, depth + 2, rt)
        out.w(depth + 1, "else")
        if s.orelse:
            self.scope(s.orelse, env.copy(), out, depth + 2, rt)
        else:
            out.w(depth + 2, rt(env))
        self.top = top
        if self.monadic:
            out.w(depth, ") (fun %s =>" % pat)
            self.closing += 1
        else:
            out.w(depth, "in")
        self.block(rest, env, out, depth, tail)

    def simple(self, s, env, out, depth):
        c = cmt(s)
        # del self.root
        if isinstance(s, ast.Delete):
            if len(s.targets) == 1 and is_self_attr(s.targets[0], "root"):
                out.w(depth, "%s let self := obj_del_root self in" % c)
                return
            bad(s, "del")
        if isinstance(s, ast.Assign) and len(s.targets) == 1:
            tg, v = s.targets[0], s.value
            # a, b = c, d    (E8)
            if isinstance(tg, ast.Tuple):
                if not (isinstance(v, ast.Tuple) and len(v.elts) == len(tg.elts)):
                    bad(s, "tuple assignment from a non-tuple")
                tmps = []
                for i, e in enumerate(v.elts):
                    t, ty = expr(e, env)
                    tmps.append(("tmp%d" % i, ty))
                    out.w(depth, "%s let tmp%d := %s in" % (c if i == 0 else "", i, t))
                for (tmp, ty), target in zip(tmps, tg.elts):
                    self.store(target, tmp, ty, env, out, depth, "")
                return
            # self.<attr> = self.<method>()  /  x = self.<method>(args)
            if isinstance(v, ast.Call) and is_self_attr(v.func):
                return self.call_assign(s, tg, v, env, out, depth)
            t, ty = expr(v, env)
            self.store(tg, t, ty, env, out, depth, c)
            return
        # self.method(...) as a statement / x.update(y)
        if isinstance(s, ast.Expr) and isinstance(s.value, ast.Call):
            call = s.value
            f = call.func
            if is_self_attr(f):
                out.w(depth, "%s let self := %s in" % (c, self.tr.call(call, env)))
                return
            if (isinstance(f, ast.Attribute) and f.attr == "update" and isinstance(f.value, ast.Name) and len(call.args) == 1
                    and not call.keywords and env.t.get(f.value.id) == "payload"):
                a, aty = expr(call.args[0], env)
                if aty != "payload":
                    bad(s, ".update with a %s" % aty)
                out.w(depth, "%s let %s := items_update %s %s in" % (c, lv(f.value.id), lv(f.value.id), a))
                return
        bad(s, "statement")

    def store(self, tg, t, ty, env, out, depth, c):
        if isinstance(tg, ast.Name):
            if ty == "none":
                bad(tg, "a local bound to None")
            env.t[tg.id] = ty
            out.w(depth, "%s let %s := %s in" % (c, lv(tg.id, tg), t))
            return
        if is_self_attr(tg, "root") and ty == "value":
            out.w(depth, "%s let self := obj_set_root self %s in" % (c, t))
        elif is_self_attr(tg, "diff") and ty == "optdelta":
            out.w(depth, "%s let self := obj_set_diff_opt self %s in" % (c, t))
        elif is_self_attr(tg, "diff") and ty == "delta":
            out.w(depth, "%s let self := obj_set_diff self %s in" % (c, t))
        elif is_self_attr(tg, "_reversed_diff") and ty == "delta":
            out.w(depth, "%s let self := obj_set_rev self (Some %s) in" % (c, t))
        elif is_self_attr(tg, "_reversed_diff") and ty == "optdelta":
            out.w(depth, "%s let self := obj_set_rev self %s in" % (c, t))
        elif is_self_attr(tg, "post_process_paths_to_convert") and ty == "payload":
            out.w(depth, "%s let self := obj_set_post self %s in" % (c, t))
        else:
            bad(tg, "store of a %s to this target" % ty)

    def call_assign(self, s, tg, call, env, out, depth):
        c = cmt(s)
        m = call.func.attr
        if m == "_get_reverse_diff" and not call.args and not call.keywords:
            if not self.monadic:
                bad(s, "_get_reverse_diff() may raise: not allowed here")
            if not is_self_attr(tg, "_reversed_diff"):
                bad(s, "result of _get_reverse_diff stored elsewhere than self._reversed_diff")
            out.w(depth, "%s rbind (g__get_reverse_diff self) (fun tmp => let self := obj_set_rev self (Some tmp) in" % c)
            self.closing += 1
            return
        if m == "__add__" and len(call.args) == 1 and not call.keywords and isinstance(tg, ast.Name):
            a, aty = expr(call.args[0], env)
            if aty != "value":
                bad(s, "__add__ of a %s" % aty)
            env.t[tg.id] = "value"
            out.w(depth, "%s let '(self, %s) := g___add__ self %s in" % (c, lv(tg.id, tg), a))
            return
        bad(s, "assignment from self.%s(...)" % m)

    def run(self, body, params, returns_self):
        """params: [(python name, type)] after self"""
        self.returns_self = returns_self
        self.top = True
        env = Env(dict(params))
        out = Out()
        self.scope(strip_doc(body), env, out, 1, lambda e: self.ret("self"))
        return "\n".join(out.lines)


class Translator:
    def __init__(self, repo):
        p = os.path.join(repo, SRC)
        with open(p) as f:
            self.tree = ast.parse(f.read())
        cls = [n for n in self.tree.body if isinstance(n, ast.ClassDef) and n.name == "Delta"]
        if len(cls) != 1:
            bad(None, "class Delta not found exactly once")
        self.cls = cls[0]
        if self.cls.decorator_list or self.cls.keywords:
            bad(self.cls, "class Delta has decorators / keywords")
        self.methods = {}
        self.aliases = {}
        for n in self.cls.body:
            if isinstance(n, (ast.FunctionDef, ast.AsyncFunctionDef)):
                if n.name in self.methods:
                    bad(n, "method %s defined twice" % n.name)
                self.methods[n.name] = n
            elif isinstance(n, ast.Assign) and len(n.targets) == 1 and isinstance(n.targets[0], ast.Name) and isinstance(n.value, ast.Name):
                self.aliases[n.targets[0].id] = (n.value.id, n)

    # -- signatures ---------------------------------------------------------------------------------------
    def sig(self, name, params, defaults=None):
        """check `def name(self, *params)` with exactly these defaults {param: python constant}; no decorators"""
        fn = self.methods.get(name)
        if fn is None:
            bad(self.cls, "method %s not found" % name)
        if not isinstance(fn, ast.FunctionDef) or fn.decorator_list:
            bad(fn, "method %s is decorated / async" % name)
        a = fn.args
        if a.vararg or a.kwarg or a.kwonlyargs or a.posonlyargs:
            bad(fn, "method %s has star / keyword-only / positional-only parameters" % name)
        names = [x.arg for x in a.args]
        if names != ["self"] + list(params):
            bad(fn, "method %s has parameters %s, expected %s" % (name, names, ["self"] + list(params)))
        got = {}
        for x, d in zip(a.args[len(a.args) - len(a.defaults):], a.defaults):
            if not isinstance(d, ast.Constant):
                bad(d, "default of %s.%s is not a constant" % (name, x.arg))
            got[x.arg] = d.value
        if defaults is not None and got != defaults:
            bad(fn, "method %s has defaults %r, expected %r" % (name, got, defaults))
        return fn, got

    # -- calls of self methods as statements ---------------------------------------------------------------
    def call(self, call, env):
        m = call.func.attr
        if m in PASSES or m == "reset" or m == "_raise_or_log":
            if m == "_raise_or_log":
                # S3: the message argument is not modelled
                return "g__raise_or_log self"
            if call.args or call.keywords:
                bad(call, "self.%s called with arguments" % m)
            if m == "_do_iterable_opcodes":
                return "w__do_iterable_opcodes self"
            return "g_%s self" % m
        if m in WORKERS:
            params = WORKERS[m]
            _fn, defaults = self.sig(m, [p for p, _ in params])
            given = {}
            if len(call.args) > len(params):
                bad(call, "too many arguments for self.%s" % m)
            for (p, _t), a in zip(params, call.args):
                given[p] = a
            for kw in call.keywords:
                if kw.arg is None or kw.arg in given or kw.arg not in [p for p, _ in params]:
                    bad(call, "keyword %r of self.%s" % (kw.arg, m))
                given[kw.arg] = kw.value
            args = []
            for p, t in params:
                if p in given:
                    x, xt = expr(given[p], env, want=t)
                    if xt != t:
                        bad(given[p], "argument %s of self.%s has type %s, expected %s" % (p, m, xt, t))
                    args.append(x)
                elif p in defaults:
                    d = defaults[p]
                    if t == "bool" and (d is True or d is False):
                        args.append("true" if d else "false")
                    else:
                        bad(call, "default %r of %s.%s" % (d, m, p))
                else:
                    bad(call, "argument %s of self.%s is missing" % (p, m))
            return ("w_%s %sself %s" % (m, WORKER_ORACLE.get(m, ""), " ".join(args))).rstrip()
        bad(call, "call of self.%s" % m)

    # -- S6: who writes the modelled state -----------------------------------------------------------------
    def check_state_writers(self):
        for name, fn in self.methods.items():
            for n in ast.walk(fn):
                kind = attr = None
                if isinstance(n, ast.Attribute) and is_self_attr(n) and isinstance(n.ctx, (ast.Store, ast.Del)):
                    attr, kind = n.attr, ("assign" if isinstance(n.ctx, ast.Store) else "del")
                elif (isinstance(n, ast.Subscript) and isinstance(n.ctx, (ast.Store, ast.Del)) and is_self_attr(n.value)):
                    attr, kind = n.value.attr, "item"
                elif (isinstance(n, ast.Call) and isinstance(n.func, ast.Name) and n.func.id in ("setattr", "delattr") and n.args
                      and isinstance(n.args[0], ast.Name) and n.args[0].id == "self"):
                    bad(n, "setattr / delattr on self in %s" % name)
                if attr in STATE_WRITERS and kind not in STATE_WRITERS[attr].get(name, ()):
                    bad(n, "method %s stores to self.%s (%s): outside the fragment's view of the state" % (name, attr, kind))
        init = self.methods.get("__init__")
        if init is None:
            bad(self.cls, "__init__ not found")
        rev = [n for n in ast.walk(init) if isinstance(n, ast.Assign) and any(is_self_attr(t, "_reversed_diff") for t in n.targets)]
        if len(rev) != 1 or not (isinstance(rev[0].value, ast.Constant) and rev[0].value.value is None) or rev[0] not in init.body:
            bad(init, "__init__ does not assign self._reversed_diff = None exactly once at its top level")
        last = init.body[-1]
        if not (isinstance(last, ast.Expr) and isinstance(last.value, ast.Call) and is_self_attr(last.value.func, "reset")
                and not last.value.args and not last.value.keywords):
            bad(last, "__init__ does not end with self.reset()")

    # -- the methods ----------------------------------------------------------------------------------------
    def t_reset(self):
        fn, _ = self.sig("reset", [], {})
        m = Method(self, "reset", False)
        return "Definition g_reset (self : dobj) : dobj :=\n%s." % m.run(fn.body, [], False)

    def t_wrapper(self, name):
        fn, _ = self.sig(name, [], {})
        if name == "_do_pre_process":
            return self.t_pre_process(fn)
        if name == "_do_ignore_order":
            return self.t_ignore_order(fn)
        m = Method(self, name, False)
        txt = m.run(fn.body, [], False)
        if m.returned:
            bad(fn, "a pass wrapper that returns a value")
        return "Definition g_%s (self : dobj) : dobj :=\n%s." % (name, txt)

    def t_pre_process(self, fn):
        body = strip_doc(fn.body)
        if not (len(body) == 1 and isinstance(body[0], ast.If) and not body[0].orelse):
            bad(fn, "_do_pre_process is not a single `if` without else")
        t = body[0].test
        if not (isinstance(t, ast.BoolOp) and isinstance(t.op, ast.And) and is_self_attr(t.values[0], "_numpy_paths")):
            bad(t, "the guard of _do_pre_process does not start with `self._numpy_paths and`")
        return ("Definition g__do_pre_process (self : dobj) : dobj :=\n"
                "  %s (* S4: the rest of the guard and the body are not entered *)\n"
                "  let self := if obj_numpy_paths self then src_untranslated self else self in\n  self." % cmt(body[0]))

    def t_ignore_order(self, fn):
        body = strip_doc(fn.body)
        if len(body) != 4:
            bad(fn, "_do_ignore_order does not consist of two reads, the union of their keys and one loop")
        env = Env()
        m = Method(self, "_do_ignore_order", False)
        out = Out()
        for s in body[:2]:
            if not (isinstance(s, ast.Assign) and len(s.targets) == 1 and isinstance(s.targets[0], ast.Name)):
                bad(s, "expected <name> = self.diff.get(...)")
            t, ty = expr(s.value, env)
            if ty != "payload":
                bad(s, "expected a payload")
            m.store(s.targets[0], t, ty, env, out, 1, cmt(s))
        s = body[2]
        ok = (isinstance(s, ast.Assign) and len(s.targets) == 1 and isinstance(s.targets[0], ast.Name)
              and isinstance(s.value, ast.BinOp) and isinstance(s.value.op, ast.BitOr))
        sides = []
        if ok:
            for side in (s.value.left, s.value.right):
                if (isinstance(side, ast.Call) and isinstance(side.func, ast.Name) and side.func.id == "SetOrdered" and len(side.args) == 1
                        and not side.keywords and isinstance(side.args[0], ast.Call) and isinstance(side.args[0].func, ast.Attribute)
                        and side.args[0].func.attr == "keys" and not side.args[0].args and isinstance(side.args[0].func.value, ast.Name)
                        and env.t.get(side.args[0].func.value.id) == "payload"):
                    sides.append(lv(side.args[0].func.value.id))
                else:
                    ok = False
        if not ok:
            bad(s, "expected <name> = SetOrdered(a.keys()) | SetOrdered(b.keys())")
        pn = s.targets[0].id
        out.w(1, "%s let %s := paths_union (payload_paths %s) (payload_paths %s) in" % (cmt(s), lv(pn, s), sides[0], sides[1]))
        f = body[3]
        if not (isinstance(f, ast.For) and not f.orelse and isinstance(f.target, ast.Name) and isinstance(f.iter, ast.Name) and f.iter.id == pn):
            bad(f, "expected `for <name> in %s:`" % pn)
        out.w(1, "%s (* S4: the body of the loop is not entered *)" % cmt(f))
        out.w(1, "let self := fold_left (fun self %s => src_untranslated self) %s self in" % (lv(f.target.id, f), lv(pn)))
        out.w(1, "self")
        return "Definition g__do_ignore_order (self : dobj) : dobj :=\n%s." % "\n".join(out.lines)

    def t_add(self):
        fn, _ = self.sig("__add__", ["other"], {})
        body = strip_doc(fn.body)
        # S1
        g = body[0] if body else None
        ok = (isinstance(g, ast.If) and not g.orelse and isinstance(g.test, ast.BoolOp) and isinstance(g.test.op, ast.And)
              and len(g.test.values) == 2 and is_self_attr(g.test.values[1], "_numpy_paths")
              and isinstance(g.test.values[0], ast.Call) and isinstance(g.test.values[0].func, ast.Name)
              and g.test.values[0].func.id == "isinstance" and len(g.test.values[0].args) == 2
              and isinstance(g.test.values[0].args[0], ast.Name) and g.test.values[0].args[0].id == "other"
              and isinstance(g.test.values[0].args[1], ast.Name) and g.test.values[0].args[1].id == "numbers"
              and len(g.body) == 1 and isinstance(g.body[0], ast.Raise) and isinstance(g.body[0].exc, ast.Call)
              and isinstance(g.body[0].exc.func, ast.Name) and g.body[0].exc.func.id == "DeltaNumpyOperatorOverrideError")
        if not ok:
            bad(g or fn, "__add__ does not start with the numpy operator guard (skip rule S1)")
        m = Method(self, "__add__", False)
        txt = m.run(body[1:], [("other", "value")], True)
        if not m.returned or m.ret_type != "value":
            bad(fn, "__add__ does not return a value")
        # the ORDER of the passes, as a list of names
        order = []
        trys = [s for s in body[1:] if isinstance(s, ast.Try)]
        if len(trys) != 1:
            bad(fn, "__add__ does not contain exactly one try statement")
        for n in ast.walk(fn):
            if isinstance(n, ast.Call) and is_self_attr(n.func) and n.func.attr in PASSES:
                if not any(n is getattr(s, "value", None) for s in trys[0].body):
                    bad(n, "a pass called outside the top level of the try block of __add__")
        for s in trys[0].body:
            if isinstance(s, ast.Expr) and isinstance(s.value, ast.Call) and is_self_attr(s.value.func) and s.value.func.attr in PASSES:
                order.append("P" + s.value.func.attr)
        return ("Definition g___add__ (self : dobj) (v_other : value) : dobj * value :=\n"
                "  %s (* S1: skipped *)\n%s.\n\n"
                "(* the passes of __add__, in source order *)\n"
                "Definition g___add___passes : list pass :=\n  [%s]." % (cmt(g), txt, "; ".join(order)))

    def t_rsub(self):
        fn, _ = self.sig("__rsub__", ["other"], {})
        m = Method(self, "__rsub__", True)
        txt = m.run(fn.body, [("other", "value")], True)
        if not m.returned or m.ret_type != "value":
            bad(fn, "__rsub__ does not return a value")
        return "Definition g___rsub__ (self : dobj) (v_other : value) : res (dobj * value) :=\n%s." % txt

    def t_radd(self):
        if self.aliases.get("__radd__", (None,))[0] != "__add__":
            bad(self.cls, "__radd__ = __add__ not found in the class body")
        for a, (b, n) in self.aliases.items():
            if a != "__radd__" and (b in self.methods or a in self.methods):
                bad(n, "class-level alias %s = %s" % (a, b))
        return "%s\nDefinition g___radd__ := g___add__." % cmt(self.aliases["__radd__"][1])

    def t_raise_or_log(self):
        fn, _ = self.sig("_raise_or_log", ["msg", "level"], {"level": "error"})
        body = strip_doc(fn.body)
        ok = len(body) == 2 and all(isinstance(s, ast.If) and not s.orelse and len(s.body) == 1 for s in body)
        if ok:
            a, b = body
            ok = (is_self_attr(a.test, "log_errors") and isinstance(a.body[0], ast.Expr) and isinstance(a.body[0].value, ast.Call)
                  and ast.unparse(a.body[0].value) == "getattr(logger, level)(msg)"
                  and is_self_attr(b.test, "raise_errors") and isinstance(b.body[0], ast.Raise)
                  and ast.unparse(b.body[0]) == "raise DeltaError(msg)")
        if not ok:
            bad(fn, "_raise_or_log is not `if self.log_errors: getattr(logger, level)(msg)` + `if self.raise_errors: raise DeltaError(msg)` (skip rule S2)")
        return ("Definition g__raise_or_log (self : dobj) : dobj :=\n  %s\n  %s\n  (* S2: one counted call *)\n"
                "  let self := on_st count_error self in\n  self." % (cmt(body[0]), cmt(body[1])))

    def t_verify(self):
        fn, _ = self.sig("_do_verify_changes", ["path", "expected_old_value", "current_old_value"], {})
        body = strip_doc(fn.body)
        if not (len(body) == 1 and isinstance(body[0], ast.If) and not body[0].orelse):
            bad(fn, "_do_verify_changes is not a single `if` without else")
        s = body[0]
        env = Env({"path": "path", "expected_old_value": "optvalue", "current_old_value": "value"})
        c = cond(s.test, env)
        inner = s.body
        # S3: message computation
        last = inner[-1] if inner else None
        if not (isinstance(last, ast.Expr) and isinstance(last.value, ast.Call) and is_self_attr(last.value.func, "_raise_or_log")):
            bad(s, "the body of the `if` of _do_verify_changes does not end with self._raise_or_log(...)")
        for x in inner[:-1]:
            for n in ast.walk(x):
                if is_self_attr(n) or isinstance(n, (ast.Raise, ast.Return, ast.Delete, ast.For, ast.While, ast.Try, ast.With)):
                    bad(n, "a statement before self._raise_or_log(...) that is more than message construction (skip rule S3)")
                if isinstance(n, (ast.Attribute, ast.Subscript)) and isinstance(n.ctx, (ast.Store, ast.Del)):
                    bad(n, "a store before self._raise_or_log(...) (skip rule S3)")
        for n in ast.walk(last.value):
            if n is not last.value.func and is_self_attr(n):
                bad(n, "the message of _raise_or_log reads the object (skip rule S3)")
        lines = ["Definition g__do_verify_changes (self : dobj) (v_path : path) (v_expected_old_value : option value) "
                 "(v_current_old_value : value) : dobj :=",
                 "  %s let self := if %s then" % (cmt(s), c)]
        for x in inner[:-1]:
            lines.append("      %s (* S3: message only *)" % cmt(x))
        lines.append("      %s let self := g__raise_or_log self in" % cmt(last))
        lines.append("      self")
        lines.append("    else")
        lines.append("      self")
        lines.append("  in")
        lines.append("  self.")
        return "\n".join(lines)

    # -- _get_reverse_diff ----------------------------------------------------------------------------------
    def t_reverse(self):
        fn, _ = self.sig("_get_reverse_diff", [], {})
        body = strip_doc(fn.body)
        for n in ast.walk(fn):
            if isinstance(n, (ast.Attribute, ast.Subscript)) and isinstance(n.ctx, (ast.Store, ast.Del)):
                v = n.value
                while isinstance(v, (ast.Subscript, ast.Attribute)):
                    v = v.value
                if isinstance(v, ast.Name) and v.id == "self":
                    bad(n, "_get_reverse_diff stores to the object")
            if isinstance(n, ast.Call) and is_self_attr(n.func):
                bad(n, "_get_reverse_diff calls a method of the object")
        if len(body) != 6:
            bad(fn, "_get_reverse_diff: expected guard, table, closure loop, r_diff = {}, main loop, return (6 statements), got %d" % len(body))
        guard, tbl, clo, init, loop, ret = body
        pre = []
        L = []
        # 1. if not self.bidirectional: raise ValueError(...)
        if not (isinstance(guard, ast.If) and not guard.orelse and len(guard.body) == 1 and isinstance(guard.body[0], ast.Raise)
                and isinstance(guard.body[0].exc, ast.Call) and isinstance(guard.body[0].exc.func, ast.Name)
                and guard.body[0].exc.func.id == "ValueError"):
            bad(guard, "expected `if <cond>: raise ValueError(...)`")
        L.append("  %s if %s then rraise else" % (cmt(guard), cond(guard.test, Env())))
        # 2. T = {'a': 'b', ...}
        if not (isinstance(tbl, ast.Assign) and len(tbl.targets) == 1 and isinstance(tbl.targets[0], ast.Name) and isinstance(tbl.value, ast.Dict)):
            bad(tbl, "expected <NAME> = {<key>: <key>, ...}")
        T = tbl.targets[0].id
        pairs = []
        for k, v in zip(tbl.value.keys, tbl.value.values):
            if k is None:
                bad(tbl, "dictionary unpacking")
            a, _ = expr(k, Env(), want="cat")
            b, _ = expr(v, Env(), want="cat")
            pairs.append("(%s, %s)" % (a, b))
        L.append("  %s let %s : cat_table := [%s] in" % (cmt(tbl), lv(T, tbl), "; ".join(pairs)))
        # 3. for key in list(T.keys()): T[T[key]] = key
        ok = (isinstance(clo, ast.For) and not clo.orelse and isinstance(clo.target, ast.Name) and len(clo.body) == 1
              and ast.unparse(clo.iter) == "list(%s.keys())" % T and isinstance(clo.body[0], ast.Assign)
              and ast.unparse(clo.body[0]) == "%s[%s[%s]] = %s" % (T, T, clo.target.id, clo.target.id))
        if not ok:
            bad(clo, "expected `for key in list(%s.keys()): %s[%s[key]] = key`" % (T, T, T))
        kn = lv(clo.target.id, clo)
        L.append("  %s let %s := fold_left (fun %s %s => %s cat_assoc_set %s (cat_assoc_sub %s %s) %s) (cat_assoc_keys %s) %s in"
                 % (cmt(clo), lv(T), lv(T), kn, cmt(clo.body[0]), lv(T), lv(T), kn, kn, lv(T), lv(T)))
        # 4. r_diff = {}
        if not (isinstance(init, ast.Assign) and len(init.targets) == 1 and isinstance(init.targets[0], ast.Name)
                and isinstance(init.value, ast.Dict) and not init.value.keys):
            bad(init, "expected <name> = {}")
        R = init.targets[0].id
        L.append("  %s let %s := diff_empty (obj_bidirectional self) in" % (cmt(init), lv(R, init)))
        # 5. for action, info in self.diff.items(): <if chain>
        ok = (isinstance(loop, ast.For) and not loop.orelse and isinstance(loop.target, ast.Tuple) and len(loop.target.elts) == 2
              and all(isinstance(e, ast.Name) for e in loop.target.elts) and ast.unparse(loop.iter) == "self.diff.items()")
        if not ok:
            bad(loop, "expected `for action, info in self.diff.items():`")
        A, I = loop.target.elts[0].id, loop.target.elts[1].id
        L.append("  %s let %s := fold_left (fun %s %s => let %s := diff_get (o_diff self) %s in"
                 % (cmt(loop), lv(R), lv(R), lv(A, loop), lv(I, loop), lv(A)))
        lb = loop.body
        if not (len(lb) == 2 and isinstance(lb[0], ast.Assign) and len(lb[0].targets) == 1 and isinstance(lb[0].targets[0], ast.Name)
                and ast.unparse(lb[0].value) == "%s.get(%s)" % (T, A) and isinstance(lb[1], ast.If)):
            bad(loop, "expected `reverse_action = %s.get(%s)` followed by an if / elif chain" % (T, A))
        RA = lb[0].targets[0].id
        L.append("    %s let %s := cat_assoc_get %s %s in" % (cmt(lb[0]), lv(RA, lb[0]), lv(T), lv(A)))
        chain = lb[1]
        # first branch: if reverse_action: r_diff[reverse_action] = info
        if not (isinstance(chain.test, ast.Name) and chain.test.id == RA and len(chain.body) == 1
                and ast.unparse(chain.body[0]) == "%s[%s] = %s" % (R, RA, I)):
            bad(chain, "expected `if %s: %s[%s] = %s`" % (RA, R, RA, I))
        L.append("    %s match %s with" % (cmt(chain), lv(RA)))
        L.append("    | Some %s => %s diff_set %s %s %s" % (lv(RA), cmt(chain.body[0]), lv(R), lv(RA), lv(I)))
        L.append("    | None =>")
        depth = 3
        cur = chain.orelse
        closers = 0
        while cur:
            if not (len(cur) == 1 and isinstance(cur[0], ast.If)):
                bad(cur[0], "the if / elif chain of _get_reverse_diff ends with an else")
            br = cur[0]
            t = br.test
            if not (isinstance(t, ast.Compare) and len(t.ops) == 1 and isinstance(t.ops[0], ast.Eq) and isinstance(t.left, ast.Name)
                    and t.left.id == A and const_str(t.comparators[0]) in CAT_ENTRY):
                bad(t, "expected `elif %s == '<values_changed | type_changes | iterable_item_moved | _iterable_opcodes>'`" % A)
            key = const_str(t.comparators[0])
            L.append("  " * depth + "%s if cat_eqb %s %s then" % (cmt(br), lv(A), CATS[key]))
            L += self.rev_branch(br, key, R, A, I, depth + 1)
            L.append("  " * depth + "else")
            cur = br.orelse
        L.append("  " * (depth + 1) + lv(R))
        L.append("    end) (diff_keys (o_diff self)) %s in" % lv(R))
        # 6. return r_diff
        if not (isinstance(ret, ast.Return) and isinstance(ret.value, ast.Name) and ret.value.id == R):
            bad(ret, "expected `return %s`" % R)
        L.append("  %s rret %s." % (cmt(ret), lv(R)))
        return "Definition g__get_reverse_diff (self : dobj) : res delta :=\n" + "\n".join(L)

    def rev_branch(self, br, key, R, A, I, depth):
        """r[action] = {} ; for path, x in info.items(): <build one entry>      (E4)"""
        ety, view, ctor = CAT_ENTRY[key]
        ind = "  " * depth
        b = br.body
        if not (len(b) == 2 and ast.unparse(b[0]) == "%s[%s] = {}" % (R, A) and isinstance(b[1], ast.For) and not b[1].orelse):
            bad(br, "expected `%s[%s] = {}` followed by one loop" % (R, A))
        f = b[1]
        if not (isinstance(f.target, ast.Tuple) and len(f.target.elts) == 2 and all(isinstance(e, ast.Name) for e in f.target.elts)
                and ast.unparse(f.iter) == "%s.items()" % I):
            bad(f, "expected `for <path>, <x> in %s.items():`" % I)
        P, X = f.target.elts[0].id, f.target.elts[1].id
        L = [ind + "%s %s" % (cmt(b[0]), cmt(f)),
             ind + "diff_set %s %s (%s (map (fun it =>" % (lv(R), lv(A), ctor)]
        ind2 = ind + "  "
        env = Env({P: "path"})
        if ety == "ops":
            env.t[X] = "oplist"
            L.append(ind2 + "let %s := fst it in let %s := snd it in" % (lv(P, f), lv(X, f)))
            L += self.rev_ops_body(f.body, env, R, A, P, X, depth + 1)
        else:
            env.t[X] = ety
            L.append(ind2 + "let %s := %s it in let %s := it in" % (lv(P, f), ENTRY_KEY[ety], lv(X, f)))
            L += self.rev_entry_body(f.body, env, ety, R, A, depth + 1)
        L.append(ind + ") (%s %s)))" % (view, lv(I)))
        return L

    def rev_entry_body(self, stmts, env, ety, R, A, depth):
        ind = "  " * depth
        L = []
        keytxt = None      # python text of the key expression of the entry under construction
        for s in stmts:
            c = cmt(s)
            if isinstance(s, ast.Assign) and len(s.targets) == 1 and isinstance(s.targets[0], ast.Name):
                if keytxt is not None:
                    bad(s, "a local assignment after the entry was stored")
                t, ty = expr(s.value, env)
                if ty == "none":
                    bad(s, "a local bound to None")
                env.t[s.targets[0].id] = ty
                L.append(ind + "%s let %s := %s in" % (c, lv(s.targets[0].id, s), t))
                continue
            # r[action][key] = {...}
            if (isinstance(s, ast.Assign) and len(s.targets) == 1 and isinstance(s.targets[0], ast.Subscript)
                    and ast.unparse(s.targets[0].value) == "%s[%s]" % (R, A) and isinstance(s.value, ast.Dict)):
                if keytxt is not None:
                    bad(s, "a second entry stored in one iteration")
                kt, kty = expr(s.targets[0].slice, env)
                if kty != "path":
                    bad(s, "the key of the entry is a %s" % kty)
                keytxt = ast.unparse(s.targets[0].slice)
                ctor, fields = MAKE[ety]
                d = {}
                for k, v in zip(s.value.keys, s.value.values):
                    if const_str(k) is None or const_str(k) in d:
                        bad(s, "dictionary display with a non-constant / repeated key")
                    d[const_str(k)] = v
                if set(d) != {k for k, _ in fields}:
                    bad(s, "entry with keys %s, expected %s" % (sorted(d), sorted(k for k, _ in fields)))
                args = []
                for k, t in fields:
                    x, xt = expr(d[k], env)
                    if xt != t:
                        bad(d[k], "entry field %r of type %s, expected %s" % (k, xt, t))
                    args.append(x)
                L.append(ind + "%s let entry := %s %s %s in" % (c, ctor, kt, " ".join(args)))
                continue
            # if <cond>: r[action][key]['k'] = e
            if isinstance(s, ast.If) and not s.orelse and len(s.body) == 1 and keytxt is not None:
                a = s.body[0]
                if (isinstance(a, ast.Assign) and len(a.targets) == 1 and isinstance(a.targets[0], ast.Subscript)
                        and ast.unparse(a.targets[0].value) == "%s[%s][%s]" % (R, A, keytxt) and const_str(a.targets[0].slice) is not None
                        and (ety, const_str(a.targets[0].slice)) in STORE):
                    setter, t = STORE[(ety, const_str(a.targets[0].slice))]
                    x, xt = expr(a.value, env)
                    if xt != t:
                        bad(a, "stored field of type %s, expected %s" % (xt, t))
                    L.append(ind + "%s let entry := if %s then %s %s %s %s else entry in" % (c, cond(s.test, env), cmt(a), setter, "entry", x))
                    continue
            bad(s, "statement in the loop that builds the reversed %s entries" % ety)
        if keytxt is None:
            bad(stmts[0] if stmts else None, "the loop stores no entry")
        L.append(ind + "entry")
        return L

    def rev_ops_body(self, stmts, env, R, A, P, X, depth):
        """r[action][path] = [] ; for op_code in op_codes: ...; r[action][path].append(new_op_code)"""
        ind = "  " * depth
        if not (len(stmts) == 2 and ast.unparse(stmts[0]) == "%s[%s][%s] = []" % (R, A, P) and isinstance(stmts[1], ast.For)
                and not stmts[1].orelse and isinstance(stmts[1].target, ast.Name) and isinstance(stmts[1].iter, ast.Name)
                and stmts[1].iter.id == X):
            bad(stmts[0] if stmts else None, "expected `%s[%s][%s] = []` followed by `for <op> in %s:`" % (R, A, P, X))
        f = stmts[1]
        O = f.target.id
        env = env.copy()
        env.t[O] = "op"
        L = [ind + "%s %s" % (cmt(stmts[0]), cmt(f)), ind + "(%s, map (fun %s =>" % (lv(P), lv(O, f))]
        done = False
        for s in f.body:
            c = cmt(s)
            if done:
                bad(s, "a statement after the append")
            if isinstance(s, ast.Assign) and len(s.targets) == 1 and isinstance(s.targets[0], ast.Name):
                t, ty = expr(s.value, env, want="tag")
                if ty == "none":
                    bad(s, "a local bound to None")
                env.t[s.targets[0].id] = ty
                L.append(ind + "  %s let %s := %s in" % (c, lv(s.targets[0].id, s), t))
                continue
            if (isinstance(s, ast.Expr) and isinstance(s.value, ast.Call) and len(s.value.args) == 1 and not s.value.keywords
                    and ast.unparse(s.value.func) == "%s[%s][%s].append" % (R, A, P)):
                t, ty = expr(s.value.args[0], env)
                if ty != "op":
                    bad(s, "a %s is appended" % ty)
                L.append(ind + "  %s %s" % (c, t))
                done = True
                continue
            bad(s, "statement in the loop that builds the reversed opcodes")
        if not done:
            bad(f, "the opcode loop appends nothing")
        L.append(ind + ") %s)" % lv(X))
        return L


def translate(repo_root):
    tr = Translator(repo_root)
    tr.check_state_writers()
    for w, params in WORKERS.items():
        tr.sig(w, [p for p, _ in params])
    parts = [tr.t_reset(), tr.t_raise_or_log(), tr.t_verify()]
    for p in PASSES:
        if p != "_do_iterable_opcodes":
            parts.append(tr.t_wrapper(p))
    parts += [tr.t_add(), tr.t_radd(), tr.t_reverse(), tr.t_rsub()]
    head = ("(* GENERATED by harness/translate/deltapasses.py from deepdiff/delta.py (class Delta: reset, _raise_or_log,\n"
            "   _do_verify_changes, the pass wrappers _do_*, __add__, __radd__, _get_reverse_diff, __rsub__).  Definitions only.\n"
            "   Do not edit: ./check C08 regenerates this text from the current source on every run. *)\n"
            "From Coq Require Import List ZArith NArith Bool Arith.\nImport ListNotations.\n"
            "From DD Require Import Base.PyStr Base.Value Path.PathModel Diff.Tree Diff.DiffModel Delta.DeltaModel Delta.DeltaSrc.\n\n"
            "Section Gen.\n"
            "Variable conv : ty -> value -> option value.\n"
            "Variable rem_order : list (path * value) -> list (path * value).\n"
            "Variable add_order : list (path * option value) -> list (path * option value).\n"
            "\n")
    return head + "\n\n".join(parts) + "\n\nEnd Gen.\n"
